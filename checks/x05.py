"""X05 - statistically validated cores (get_svc) and the bipartite (node, occurrence) table, against
spec/ext/SVC.tla.

Design: spec/mc/MC_SVC.tla explored exhaustively (every weighted hypergraph over a small node set with a bounded
number of occurrences, several significance levels; the step-up rule on arbitrary p-value vectors under two
levels; three must-fail probes showing that cores do get validated / sub-groups dropped on those instances).
Binding: real Hypergraph objects under several label families, `_get_bipartite_representation(h)` and
`get_svc(h, min_order, max_order, alpha)`; spec/trace/Trace_X05.tla decides the bipartite table, the orders, the
groups tested at every order (given the groups the table flags as validated at larger orders), the co-occurrence
counts, the lower-set property and - where the binomial tails fit TLC's 32-bit integers (exact regime) - the
p-values and the validated flags.  Outside the exact regime TLC prints the parameters (w, N, K_i, na) of every
row and the same tail / threshold definitions are evaluated here over Python integers / Fractions, exactly as
checks/c19_svh.py does for get_svh.
"""
import concurrent.futures as cf
import itertools
import json
import math
import os
import random
import shutil
import time
from fractions import Fraction

from harness import tlc
from harness.verdict import Result

INT_MAX = 2147483647
RTOL = 1e-9
INVARIANTS = ["InRegime", "BipartiteTable", "KSum", "CoOccBounds", "CoOccAntitone", "OrdersAndCandidates",
              "TailsAreProbabilities", "TailMonotoneInK", "Hierarchy", "RowsShape", "AlphaShrinks", "StepUpInAlpha"]
MUST_FAIL = ["NothingValidated", "NothingDropped", "NeverMixed"]
FAMS = ("ident", "sparse", "str", "zero", "neg", "big", "scat")
ALPHA_CLAUSE = "svc_alpha_is_the_significance_level"


def svc_regime(N, n, m):
    """SVC.tla SvcRegime: m * N^(n*N) fits a 32-bit integer"""
    return N >= 1 and n >= 1 and N ** (n * N) <= INT_MAX // max(1, m)


# ---------------------------------------------------------------------------------------------
def explore_design(res, tier):
    base = {"Kind": "hg", "PD": 6, "Levels": {1, 2, 3, 4, 6}}
    cfgs = [dict(n=4, occ=3, maxo=4, alphas={1, 4})]
    if tier != "quick":
        cfgs += [dict(n=4, occ=4, maxo=3, alphas={1, 2, 4}), dict(n=5, occ=3, maxo=5, alphas={1, 4}),
                 dict(n=3, occ=5, maxo=2, alphas={1, 2, 4})]

    def consts(c):
        k = dict(base)
        k.update({"Node": set(range(1, c["n"] + 1)), "MaxOcc": c["occ"], "MaxO": c["maxo"], "Alphas": c["alphas"]})
        return k

    def one(c):
        r = tlc.run("MC_SVC", tlc.cfg_text(consts(c), invariants=INVARIANTS), workers=4 if tier == "quick" else 6,
                    timeout=3000, heap="4g")
        if not tlc.ok_exploration(r):
            raise tlc.TLCError("MC_SVC %s failed:\n%s" % (c, tlc.error_excerpt(r["out"])))
        s = tlc.stats(r["out"])
        return {"module": "MC_SVC", "kind": "hg", "n": c["n"], "max_occurrences": c["occ"], "max_order": c["maxo"],
                "inverse_alphas": sorted(c["alphas"]), "states": s["distinct"], "transitions": s["generated"],
                "wall_s": round(r["wall"], 1)}

    def probe(inv):
        r = tlc.run("MC_SVC", tlc.cfg_text(consts(cfgs[0]), invariants=[inv]), workers=2, timeout=900)
        if "Invariant %s is violated" % inv not in r["out"]:
            raise tlc.TLCError("MC_SVC: the probe %s was expected to be violated (non-vacuity)\n%s"
                               % (inv, tlc.error_excerpt(r["out"])))
        return inv

    with cf.ThreadPoolExecutor(max_workers=2 if tier == "quick" else 3) as ex:
        pr = [ex.submit(probe, i) for i in MUST_FAIL]
        runs = list(ex.map(one, cfgs))
        probes = [p.result() for p in pr]
    res.cov(states=sum(r["states"] for r in runs), transitions=sum(r["transitions"] for r in runs))
    res.coverage["explorations"] = runs
    res.coverage["invariants"] = list(INVARIANTS)
    res.coverage["probes_violated_as_expected"] = probes


# ---------------------------------------------------------------------------------------------
# inputs: (number of nodes, {hyperedge: weight}); nodes without hyperedge are isolated nodes
def gen_tiny(rng):
    """at most 5 occurrences (a few more when only small orders are involved): the exact regime of TLC"""
    n = rng.randint(3, 7)
    N = rng.choice([1, 2, 2, 3, 3, 3, 4, 4, 5, 5, 6])
    top = {1: 7, 2: 7, 3: 6, 4: 4, 5: 3, 6: 2}[N]
    edges = {}
    left = N
    while left > 0:
        size = min(n, rng.randint(1, top))
        e = tuple(sorted(rng.sample(range(1, n + 1), size)))
        if edges and rng.random() < 0.3:
            e = rng.choice(sorted(edges))
        w = rng.randint(1, left) if rng.random() < 0.3 else 1
        edges[e] = edges.get(e, 0) + w
        left -= w
    return n, edges


def gen_cores(rng):
    """4-8 nodes: light hyperedges on a core of frequently used nodes plus heavy groups planted on rarely used
    nodes (alone, inside a larger hyperedge, with a sub-group on its own): repeated co-occurrences, so that some
    groups are validated, their sub-groups are dropped at the smaller orders, and others are not validated"""
    n = rng.randint(4, 8)
    nodes = list(range(1, n + 1))
    rng.shuffle(nodes)
    ncore = rng.randint(2, max(2, n - 2))
    core, rare = nodes[:ncore], nodes[ncore:]
    edges = {}

    def add(e, w):
        e = tuple(sorted(set(e)))
        edges[e] = edges.get(e, 0) + w

    for _ in range(rng.randint(3, 14)):
        pool = core if rng.random() < 0.8 or not rare else nodes
        size = min(rng.choice([1, 2, 2, 2, 3, 3, 4]), len(pool))
        add(rng.sample(pool, size), rng.choice([1, 1, 1, 2, 2, 3, 5]))
    for _ in range(rng.randint(0, 3)):
        pool = rare if len(rare) >= 2 and rng.random() < 0.8 else nodes
        size = min(rng.choice([2, 2, 3, 3, 4]), len(pool))
        g = rng.sample(pool, size)
        add(g, rng.choice([2, 3, 4, 6, 8, 12]))
        if rng.random() < 0.4:
            extra = [x for x in nodes if x not in g]
            if extra:
                add(g + rng.sample(extra, 1), rng.choice([1, 2, 3]))
        if rng.random() < 0.3 and size >= 3:
            add(rng.sample(g, size - 1), rng.choice([1, 2, 4]))
    return n, edges


def plan_calls(rng, edges, tiny):
    """(min_order, max_order (0 = not given), 1/alpha (0 = not given, i.e. the default 0.01))"""
    top = max(len(e) for e in edges)
    calls = []
    if top >= 2:
        calls.append((2, 0, 0) if rng.random() < 0.5 else (2, 0, 100))
    for _ in range(2 if top >= 2 else 1):
        mn = rng.randint(1, top) if rng.random() < 0.35 else min(2, top)
        mx = 0 if rng.random() < 0.4 else rng.randint(mn, top + 1)
        ia = rng.choice([2, 4, 100, 10] if tiny else [100, 100, 20, 1000, 10, 2])
        if (mn, mx, ia) not in calls:
            calls.append((mn, mx, ia))
    return calls


# ---------------------------------------------------------------------------------------------
# the calls, in worker processes (get_svc opens a process pool per order; a worker of a ProcessPoolExecutor may)
class _SerialPool:
    """stand-in for multiprocessing.Pool: the same map, in this process"""
    def __init__(self, processes=None):
        pass

    def map(self, f, xs):
        return list(map(f, xs))

    def close(self):
        pass


def _ranks(ps):
    """dense ranks of floats, values within RTOL of their predecessor share a rank"""
    order = sorted(range(len(ps)), key=lambda i: ps[i])
    rk, cur, prev = [0] * len(ps), 0, None
    for i in order:
        if prev is None or ps[i] - prev > RTOL * max(abs(prev), 1e-300):
            cur += 1
        prev = ps[i]
        rk[i] = cur
    return rk


def _work(job):
    from harness.binding import Binding, quiet
    import hypergraphx.filters.statistical_filters as sf
    orig_pool = sf.__dict__.setdefault("_x05_orig_pool", sf.Pool)
    rng = random.Random(job["seed"])
    b = Binding("hg", job["labels"], rng)
    edges = {tuple(e): w for e, w in job["edges"]}
    obj = b.new(job["weighted"])
    items = list(edges.items())
    rng.shuffle(items)
    with quiet():
        for i in job["isolated"]:
            obj.add_node(b.lab(i))
        for e, w in items:
            if job["weighted"]:
                obj.add_edge(b._tuple(e), weight=w)
            else:
                obj.add_edge(b._tuple(e))
    st = b.state(obj)
    N = sum(edges.values())
    out = []
    # the bipartite table
    c = {"kind": "bip", "st": st, "ok": True, "bip": [], "nbip": 0, "mn": 0, "mx": 0, "ia": 0, "shape": True, "orders": []}
    err = ""
    try:
        with quiet():
            df = sf._get_bipartite_representation(obj)
        c["bip"] = [[b.unlab(a), int(x)] for a, x in zip(df["a"].tolist(), df["b"].tolist())]
        c["nbip"] = int(len(df))
    except Exception as exn:
        c["ok"] = False
        err = "%s: %s" % (type(exn).__name__, exn)
    out.append((c, {}, err, False))
    # get_svc
    for (mn, mx, ia), real in zip(job["calls"], job["real_pool"]):
        c = {"kind": "svc", "st": st, "ok": True, "bip": [], "nbip": 0, "mn": mn, "mx": mx, "ia": ia or 100, "shape": True,
             "orders": []}
        raw, err = {}, ""
        kw = {"min_order": mn}
        if mx:
            kw["max_order"] = mx
        if ia:
            kw["alpha"] = 1.0 / ia
        sf.Pool = orig_pool if real else _SerialPool
        try:
            with quiet():
                df = sf.get_svc(obj, **kw)
            cols = list(df.columns)
            gcol = "group" if "group" in cols else "edge"
            c["shape"] = gcol in cols and "pvalue" in cols and "fdr" in cols
            if c["shape"]:
                ws = [int(x) for x in df["w"].tolist()] if "w" in cols else [-1] * len(df)
                rows = [(tuple(g), float(p), bool(f), w)
                        for g, p, f, w in zip(df[gcol].tolist(), df["pvalue"].tolist(), df["fdr"].tolist(), ws)]
                byn = {}
                for r in rows:
                    byn.setdefault(len(r[0]), []).append(r)
                for n in sorted(byn, reverse=True):
                    rs = byn[n]
                    ex = svc_regime(N, n, len(rs))
                    den = N ** (n * N) if ex else 0
                    lst = []
                    for (g, p, f, w), rk in zip(rs, _ranks([r[1] for r in rs])):
                        row = {"g": [b.unlab(x) for x in g], "w": w, "fdr": f, "rank": rk, "pnum": 0, "pok": True}
                        if ex:
                            if p != p or p < 0 or p > 1.0000001:
                                row["pnum"], row["pok"] = -1, False
                            else:
                                row["pnum"] = int(round(p * den))
                                row["pok"] = abs(p - row["pnum"] / den) <= RTOL * max(p, 1.0 / den)
                        lst.append(row)
                    c["orders"].append({"n": n, "exact": ex, "den": den, "rows": lst})
                    raw[n] = [[[str(x) for x in g], p, f, w] for g, p, f, w in rs]
        except Exception as exn:
            c["ok"] = False
            c["orders"] = []
            err = "%s: %s" % (type(exn).__name__, exn)
        finally:
            sf.Pool = orig_pool
        out.append((c, raw, err, real))
    return out


# ---------------------------------------------------------------------------------------------
# TLC validation (CaseRunner protocol + the PAR lines)
def _batch(args):
    cases, idx, timeout = args
    wd = tlc.workdir("x05")
    try:
        path = os.path.join(wd, "cases.json")
        with open(path, "w") as f:
            json.dump({"cases": cases}, f)
        cfg = tlc.cfg_text({"Kind": "hg"}, init="TInit", next_="TNext")
        r = tlc.run("Trace_X05", cfg, wd=wd, workers=1, env={"TRACE_FILE": path}, timeout=timeout)
        rj, done, par = [], None, {}
        for s in tlc.printed_strings(r["out"]):
            if s.startswith("RJ "):
                ci, _, failed = tlc.parse_value(s[3:])
                rj.append((idx[ci - 1], sorted(failed)))
            elif s.startswith("DONE "):
                done = [int(x) for x in s.split()[1:]]
            elif s.startswith("PAR "):
                p = json.loads(s[4:])
                par[(p["id"], p["n"])] = p["par"]
        if done is None or done[0] != len(cases):
            raise tlc.TLCError("Trace_X05 did not consume all %d cases (DONE=%s)\n%s"
                               % (len(cases), done, tlc.error_excerpt(r["out"])))
        st = tlc.stats(r["out"]) or {"distinct": 0}
        return rj, par, st["distinct"]
    finally:
        shutil.rmtree(wd, ignore_errors=True)


def validate(cases, procs=6, timeout=1800):
    per = min(1500, max(20, len(cases) // procs + 1))
    jobs = [(cases[i:i + per], list(range(i, min(len(cases), i + per))), timeout) for i in range(0, len(cases), per)]
    rj, par, states = [], {}, 0
    with cf.ThreadPoolExecutor(max_workers=procs) as ex:
        for a, b, c in ex.map(_batch, jobs):
            rj += a
            par.update(b)
            states += c
    return sorted(rj), par, states


# the statement's definitions over Python integers (outside TLC's 32-bit range)
_TAILS = {}


def tail(N, a, b, w):
    """P[Bin(N, a/b) >= w] as a Fraction (SVH.tla TailNum / b^N)"""
    key = (N, a, b, w)
    if key not in _TAILS:
        if w <= N - w:       # the complement has fewer terms
            num = b ** N - sum(math.comb(N, j) * a ** j * (b - a) ** (N - j) for j in range(0, w))
        else:
            num = sum(math.comb(N, j) * a ** j * (b - a) ** (N - j) for j in range(w, N + 1))
        if len(_TAILS) > 200000:
            _TAILS.clear()
        _TAILS[key] = Fraction(num, b ** N)
    return _TAILS[key]


def _stepup(ps, flags, M):
    """('tie' | True | False, i*, step-up mattered): do the flags equal {p < i*/M} (SVH.tla StepUpValidated)?"""
    istar = 0
    for i, q in enumerate(sorted(ps), 1):
        if q < Fraction(i, M):
            istar = i
    near = any(abs(float(q) * M - i) <= 1e-7 * i for q in ps for i in range(1, len(ps) + 1))
    su = istar >= 2 and any(Fraction(1, M) <= q < Fraction(istar, M) for q in ps)
    if near:
        return "tie", istar, su
    return all(f == (q < Fraction(istar, M)) for q, f in zip(ps, flags)), istar, su


def judge_large(par, n, ia, rows):
    """rows: (group ids, float p, flag).  Returns (failed clauses, ties skipped, (i*, step-up mattered))"""
    N, na = par["N"], par["na"]
    spec = {}
    for nodes, w, ks in par["rows"]:
        a = 1
        for _, kk in ks:
            a *= kk
        spec[frozenset(nodes)] = tail(N, a, N ** n, w)
    failed, ps = [], []
    for g, p, f in rows:
        q = spec[frozenset(g)]
        ps.append(q)
        if not (abs(p - float(q)) <= RTOL * float(q) + 1e-300):
            failed.append("svc_pvalue_is_binomial_tail")
    flags = [f for _, _, f in rows]
    ok, istar, su = _stepup(ps, flags, ia * math.comb(na, n))
    skipped = 1 if ok == "tie" else 0
    if ok is False:
        if ia != 100 and _stepup(ps, flags, 100 * math.comb(na, n))[0] is True:
            failed.append(ALPHA_CLAUSE)
        else:
            failed.append("svc_validated_iff_below_threshold")
    return sorted(set(failed)), skipped, (istar, su)


# ---------------------------------------------------------------------------------------------
def _labels(fam, n):
    from harness.binding import LABEL_FAMILIES
    return LABEL_FAMILIES[fam](n)


def collect(jobs, meta, results):
    cases, descr, raws = [], [], []
    for jb, m, outs in zip(jobs, meta, results):
        for k, (c, raw, err, real) in enumerate(outs):
            c["id"] = len(cases)
            cases.append(c)
            raws.append(raw)
            d = {"n": m["n"], "hyperedges": jb["edges"], "weighted": jb["weighted"], "isolated": jb["isolated"],
                 "labels": jb["labels"], "build_seed": jb["seed"], "family": m["family"], "call": c["kind"], "error": err}
            if c["kind"] == "svc":
                d.update({"min_order": c["mn"], "max_order": c["mx"] or None, "alpha": "1/%d" % c["ia"], "real_pool": real,
                          "call_args": list(jb["calls"][k - 1])})
            descr.append(d)
    return cases, descr, raws


def judge(cases, descr, raws, procs):
    """TLC on every case, then the Fractions path for the orders outside the exact regime.
    Returns ({case index: failed clauses}, coverage counters, validator states)"""
    rj, par, states = validate(cases, procs=procs)
    rejected = {}
    for idx, failed in rj:
        if "svc_harness_regime_agrees" in failed:
            raise tlc.TLCError("harness and SVC.tla disagree on the exact regime: %s" % json.dumps(descr[idx]))
        rejected[idx] = list(failed)
    n_exact = n_exact_rows = n_large = n_large_rows = skipped = validated_rows = both = stepup = 0
    n_dropped_calls = n_low_validated = n_alpha_calls = 0
    for idx, c in enumerate(cases):
        if c["kind"] != "svc" or not c["ok"]:
            continue
        n_alpha_calls += 1 if c["ia"] != 100 else 0
        for s in c["orders"]:
            nv = sum(1 for r in s["rows"] if r["fdr"])
            validated_rows += nv
            if s["exact"]:
                n_exact += 1
                n_exact_rows += len(s["rows"])
                both += 1 if 0 < nv < len(s["rows"]) else 0
                continue
            p = par.get((c["id"], s["n"]))
            if p is None:
                continue                     # malformed rows, already rejected by TLC
            n_large += 1
            n_large_rows += len(s["rows"])
            rows = [(tuple(r["g"]), raws[idx][s["n"]][k][1], r["fdr"]) for k, r in enumerate(s["rows"])]
            failed, sk, (istar, su) = judge_large(p, s["n"], c["ia"], rows)
            skipped += sk
            stepup += 1 if su else 0
            both += 1 if 0 < nv < len(rows) else 0
            if failed:
                rejected[idx] = sorted(set(rejected.get(idx, [])) | set(failed))
        # coverage only: did the larger-orders-first rule remove candidates in this call?
        edges = [tuple(e) for e, _ in descr[idx]["hyperedges"]]
        top = max(len(e) for e in edges)
        top = min(top, c["mx"]) if c["mx"] else top
        cand = set()
        for e in edges:
            for k in range(c["mn"], min(top, len(e)) + 1):
                cand |= set(itertools.combinations(e, k))
        got = sum(len(s["rows"]) for s in c["orders"])
        n_dropped_calls += 1 if got < len(cand) else 0
        n_low_validated += 1 if any(r["fdr"] for s in c["orders"][1:] for r in s["rows"]) else 0
    stats = dict(svc_calls_non_default_alpha=n_alpha_calls,
                 svc_order_tables_exact_in_tlc=n_exact, svc_rows_exact_in_tlc=n_exact_rows,
                 svc_order_tables_tail_over_fractions=n_large, svc_rows_tail_over_fractions=n_large_rows,
                 svc_validated_rows=validated_rows, svc_tables_with_validated_and_not=both,
                 svc_tables_where_step_up_matters=stepup, svc_threshold_ties_skipped=skipped,
                 svc_calls_with_dropped_subgroups=n_dropped_calls, svc_calls_validating_below_the_largest_order=n_low_validated)
    return rejected, stats, states


def report(res, cases, descr, raws, rejected):
    for idx in sorted(rejected):
        d = descr[idx]
        cl = rejected[idx]
        # a parameter that is documented and ignored is reported under its own signature
        groups = [[ALPHA_CLAUSE]] if ALPHA_CLAUSE in cl else []
        if [x for x in cl if x != ALPHA_CLAUSE]:
            groups.append([x for x in cl if x != ALPHA_CLAUSE])
        for g in groups:
            what = ("_get_bipartite_representation" if d["call"] == "bip" else
                    "get_svc(min_order=%s, max_order=%s, alpha=%s)" % (d["min_order"], d["max_order"], d["alpha"]))
            res.reject({"part": d["call"], "clauses": g},
                       "%s disagrees with SVC.tla (%s) on %s, isolated %s, labels %s%s"
                       % (what, ",".join(g), d["hyperedges"], d["isolated"], d["labels"],
                          (" [" + d["error"] + "]") if d["error"] else ""),
                       {"case": d, "logged": cases[idx]["orders"] or cases[idx]["bip"], "returned": raws[idx]})


def replay(path):
    """re-build the input of a replay file, make the call again and validate it again"""
    with open(path) as f:
        rp = json.load(f)
    d = rp["payload"]["case"]
    job = {"seed": d["build_seed"], "labels": d["labels"], "edges": d["hyperedges"], "weighted": d["weighted"],
           "isolated": d["isolated"], "calls": [tuple(d["call_args"])] if d["call"] == "svc" else [],
           "real_pool": [bool(d.get("real_pool"))] if d["call"] == "svc" else []}
    with cf.ProcessPoolExecutor(max_workers=1) as ex:
        outs = ex.submit(_work, job).result()
    cases, descr, raws = collect([job], [{"n": d["n"], "family": d["family"]}], [outs])
    keep = [k for k, c in enumerate(cases) if c["kind"] == d["call"]]
    cases, descr, raws = [cases[k] for k in keep], [descr[k] for k in keep], [raws[k] for k in keep]
    for k, c in enumerate(cases):
        c["id"] = k
    rejected, _, _ = judge(cases, descr, raws, procs=1)
    res = Result("X05", "replay", rp.get("seed", 0), "model_checking")
    report(res, cases, descr, raws, rejected)
    for r in res.rejections:
        print("VIOLATION property=X05 replay=%s\n  what: %s" % (path, r["what"]))
    print("  returned: %s" % json.dumps(raws[0]))
    print("X05 replay %s" % ("FAIL" if res.rejections else "PASS"))
    return 1 if res.rejections else 0


def run(tier, seed):
    res = Result("X05", tier, seed, "model_checking")
    quick = tier == "quick"
    rng = random.Random(seed * 32452843 + 5)
    plan = [(gen_tiny, 110 if quick else 1500), (gen_cores, 130 if quick else 1700)]
    n_real = 24 if quick else 120          # calls made with the real process pools of get_svc
    jobs, meta = [], []
    i = 0
    for gen, count in plan:
        for j in range(count):
            n, edges = gen(rng)
            unweighted = rng.random() < 0.12
            if unweighted:
                edges = {e: 1 for e in edges}
            used = set(x for e in edges for x in e)
            isolated = [x for x in range(1, n + 1) if x not in used and rng.random() < 0.7]
            fam = FAMS[i % len(FAMS)]
            calls = plan_calls(rng, edges, gen is gen_tiny)
            real = []
            for _ in calls:
                r = n_real > 0 and rng.random() < 0.045
                n_real -= 1 if r else 0
                real.append(r)
            jobs.append({"seed": rng.randrange(1 << 30), "labels": _labels(fam, n), "edges": [[list(e), w] for e, w in sorted(edges.items())],
                         "weighted": not unweighted, "isolated": isolated, "calls": calls, "real_pool": real})
            meta.append({"n": n, "family": gen.__name__, "labels_family": fam})
            i += 1
    # the worker processes are forked before any thread of this process exists
    ex = cf.ProcessPoolExecutor(max_workers=4 if quick else 8)
    futs = [ex.submit(_work, jb) for jb in jobs]
    pool = cf.ThreadPoolExecutor(max_workers=1)
    design = pool.submit(explore_design, res, tier)
    t0 = time.time()
    cases, descr, raws = collect(jobs, meta, [fu.result() for fu in futs])
    ex.shutdown()
    t1 = time.time()
    rejected, stats, states = judge(cases, descr, raws, procs=4 if quick else 8)
    t2 = time.time()
    design.result()
    pool.shutdown()
    report(res, cases, descr, raws, rejected)
    svc = [k for k, c in enumerate(cases) if c["kind"] == "svc"]
    res.cov(traces_validated_against_impl=len(cases), validator_states=states,
            hypergraphs=len(jobs), bipartite_tables=len(cases) - len(svc), svc_calls=len(svc),
            svc_calls_real_process_pool=sum(1 for k in svc if descr[k]["real_pool"]),
            label_families=list(FAMS), **stats, wall_calls_s=round(t1 - t0, 1), wall_validation_s=round(t2 - t1, 1))
    pick = min(svc, key=lambda k: (not (any(r["fdr"] for s in cases[k]["orders"] for r in s["rows"])
                                        and any(not r["fdr"] for s in cases[k]["orders"] for r in s["rows"])),
                                   len(descr[k]["hyperedges"]), -k))
    res.sample({"svc_input": descr[pick], "returned": raws[pick]})
    res.assume("get_svc / _get_bipartite_representation: Hypergraph objects with positive integer weights (or unweighted), at least one "
               "hyperedge, min_order <= min(max_order, largest hyperedge size); alpha = 1/IA for an integer IA; columns: 'group' (or "
               "'edge', the docstring names both), 'pvalue', 'fdr'; column 'w' is compared when present; row order is not compared",
               "get_svc opens a multiprocessing.Pool per order: %s calls run with the real pools, the others with a stand-in whose map "
               "runs in the calling process (same _approximated_pvalue, same arguments)" % sum(1 for k in svc if descr[k]["real_pool"]),
               "get_svc p-values: in the exact regime (m x N^(n*N) < 2^31 for the m groups of order n, N occurrences) the returned float "
               "must be within 1e-9 (relative) of pnum/N^(n*N) and TLC compares pnum with the exact tail and decides the validated flags; "
               "outside it TLC decides orders, tested groups, co-occurrence counts, the lower-set property and the parameters (w, N, K_i, "
               "na) and the binomial tail / step-up threshold of the statement are evaluated over Python Fractions from those parameters "
               "(relative tolerance 1e-9), as checks/c19_svh.py does; validated flags are not judged when an exact p-value lies within "
               "1e-7 (relative) of a level i x bonf",
               "calls with an alpha other than the default are judged against the docstring (alpha is the significance level of the "
               "correction: bonf = alpha / C(na, n)); a table whose flags follow alpha = 0.01 instead is reported under the separate clause "
               "svc_alpha_is_the_significance_level",
               "the groups tested at an order are judged given the groups the returned table itself flags as validated at larger orders, "
               "and the flags given the groups the table lists (each link of the procedure is decided separately)")
    return res.finish()
