"""C14 - Random generators honour their structural contracts and their seeds.

1. explore   TLC, exhaustive, MC_Generators: small models of the samplers (every outcome of every draw) satisfy
             the relations of spec/stochastic/Generators.tla; the variant of random_shuffle that re-adds every
             hyperedge (as the pinned code does) must be rejected by TLC on weighted inputs.
2. validate  the real generators are called over parameter grids x seeds; TLC (Trace_C14) evaluates the relation
             of the called generator on (arguments, argument before/after, result), and SeedFunctional over the
             whole batch.  The hyperedges random_shuffle rewires are captured from the harness by wrapping the
             `random` module object the generator module uses (no change of the code under test); when that is
             not observable the weaker clauses the statement still implies are used.
"""
import concurrent.futures as cf
import contextlib
import itertools
import json
import math
import random
import signal
import sys
import time

import numpy as np

from harness import cases as K
from harness import tlc
from harness.binding import Binding, LABEL_FAMILIES, quiet
from harness.verdict import Result

FAMS = ("ident", "sparse", "str", "zero")
EMPTY = {"nodes": [], "edges": [], "nmd": [], "hmd": {}, "wtd": False, "err": ""}


class Timeout(Exception):
    pass


@contextlib.contextmanager
def deadline(seconds):
    def _raise(*_):
        raise Timeout("no result after %d s" % seconds)
    old = signal.signal(signal.SIGALRM, _raise)
    signal.setitimer(signal.ITIMER_REAL, seconds)
    try:
        yield
    finally:
        signal.setitimer(signal.ITIMER_REAL, 0)
        signal.signal(signal.SIGALRM, old)


def call(fn, *a, **kw):
    """(ok, result, error text); admissible calls must return"""
    return call_within(30, fn, *a, **kw)


def call_within(seconds, fn, *a, **kw):
    try:
        with quiet(), deadline(seconds):
            return True, fn(*a, **kw), ""
    except Timeout as ex:
        return False, None, "Timeout: %s" % ex
    except Exception as ex:
        return False, None, "%s: %s" % (type(ex).__name__, ex)


# ---------------------------------------------------------------------------
# capture of random.sample inside hypergraphx.generation.random (from the harness)
class RandomProxy:
    def __init__(self, real, log):
        self._real, self._log = real, log

    def __getattr__(self, name):
        return getattr(self._real, name)

    def sample(self, population, k, **kw):
        res = self._real.sample(population, k, **kw)
        rec = {"edges": None, "size": None}
        try:
            fr = sys._getframe(1)
            if fr.f_code.co_name == "random_shuffle":
                ce, sz = fr.f_locals.get("current_edges"), fr.f_locals.get("size")
                if ce is not None and sz is not None and len(ce) == len(population):
                    rec = {"edges": [tuple(ce[i]) for i in res], "size": int(sz)}
        except Exception:
            pass
        self._log.append(rec)
        return res


@contextlib.contextmanager
def capture_sample(log):
    import hypergraphx.generation.random as GR
    real = getattr(GR, "random", None)
    if real is None or not hasattr(real, "sample"):
        yield
        return
    GR.random = RandomProxy(real, log)
    try:
        yield
    finally:
        GR.random = real


# ---------------------------------------------------------------------------
# inputs for the functions that take a hypergraph
def rand_hg_spec(rng, dense=False):
    n = rng.randint(3, 7)
    es = set()
    if dense:
        z = min(rng.choice([2, 2, 3]), n - 1)
        allz = list(itertools.combinations(range(1, n + 1), z))
        es |= set(rng.sample(allz, rng.randint(2, min(len(allz), 8))))
    for _ in range(rng.randint(1, 6)):
        z = rng.randint(1, min(5, n))
        es.add(tuple(sorted(rng.sample(range(1, n + 1), z))))
    weighted = rng.random() < 0.5
    edges = []
    for e in sorted(es):
        edges.append({"e": list(e), "w": rng.randint(1, 3) if weighted else 0,
                      "md": {"a": rng.randint(0, 1)} if rng.random() < 0.4 else None})
    used = {x for e in es for x in e}
    return {"n": n, "edges": edges, "weighted": weighted,
            "extra_nodes": [x for x in range(1, n + 1) if x not in used or rng.random() < 0.2],
            "node_md": {str(x): {"b": rng.randint(0, 1)} for x in range(1, n + 1) if rng.random() < 0.3},
            "family": rng.choice(FAMS), "order_seed": rng.randrange(2 ** 31)}


def build(spec):
    b = Binding("hg", LABEL_FAMILIES[spec["family"]](spec["n"]), random.Random(spec["order_seed"]))
    obj = b.new(spec["weighted"])
    with quiet():
        for x in spec["extra_nodes"]:
            obj.add_node(b.lab(x))
        for e in spec["edges"]:
            kw = {}
            if spec["weighted"]:
                kw["weight"] = e["w"]
            if e["md"] is not None:
                kw["metadata"] = dict(e["md"])
            obj.add_edge(b._tuple(e["e"]), **kw)
        for x, md in spec["node_md"].items():
            if b.lab(int(x)) in obj.get_nodes():
                obj.set_node_metadata(b.lab(int(x)), dict(md))
    return b, obj


def size_kw(size, spelled):
    return {"order": size - 1} if spelled == "order" else {"size": size}


# ---------------------------------------------------------------------------
# one executor per generator: plan item -> case for Trace_C14
def ex_random_hypergraph(it):
    from hypergraphx.generation.random import random_hypergraph, random_uniform_hypergraph
    n, counts, seed = it["n"], it["counts"], it["seed"]
    random.seed(it["py_seed"])
    np.random.seed(it["np_seed"])
    if it["fn"] == "random_uniform_hypergraph":
        (z, c), = counts
        args = (n, z, c) if seed is None else (n, z, c, seed)
        ok, out, err = call(random_uniform_hypergraph, *args)
    else:
        d = {z: c for z, c in counts}
        ok, out, err = (call(random_hypergraph, n, d) if seed is None else call(random_hypergraph, n, d, seed=seed))
    b = Binding("hg", list(range(n)))
    return {"fn": it["fn"], "n": n, "counts": [list(p) for p in counts], "hasseed": seed is not None,
            "key": json.dumps([it["fn"], n, counts, seed]), "ok": ok, "err": err,
            "out": b.state(out) if ok else EMPTY}


def ex_scale_free(it):
    from hypergraphx.generation.scale_free import scale_free_hypergraph
    np.random.seed(it["np_seed"])
    random.seed(it["py_seed"])
    n = it["n"]
    ok, out, err = call_within(it.get("patience_s", 30), scale_free_hypergraph, n, {z: c for z, c in it["counts"]},
                               {z: s for z, s in it["scales"]}, **it["kw"])
    b = Binding("hg", list(range(n)))
    c = {"fn": "scale_free_hypergraph", "n": n, "counts": [list(p) for p in it["counts"]], "ok": ok, "err": err,
         "out": b.state(out) if ok else EMPTY}
    if it.get("saturated") and not ok and err.startswith("Timeout"):
        # (nearly) all possible hyperedges of a size were requested: the last ones can take arbitrarily many draws under
        # heavy-tailed node weights and the statement promises no running time - such a call is not judged at all
        c["not_judged"] = True
    return c


def ex_hoad(it):
    from hypergraphx.generation.activity_driven import HOADmodel
    random.seed(it["py_seed"])
    np.random.seed(it["np_seed"])
    N = it["n"]
    acts = {o: list(v) for o, v in it["acts"]}
    ok, out, err = (call(HOADmodel, N, acts, it["time"]) if it["pass_time"] else call(HOADmodel, N, acts))
    b = Binding("temp", list(range(N)))
    if not ok and any(len(v) > N for v in acts.values()):
        # a model that refuses an activity vector longer than N is within its rights (whether such a vector is admissible is
        # open): not judged; one that accepts it must still emit nodes below N only
        return {"fn": "HOADmodel", "not_judged": True, "ok": False, "err": err}
    return {"fn": "HOADmodel", "n": N, "orders": [o for o, _ in it["acts"]], "time": it["time"] if it["pass_time"] else 100,
            "ok": ok, "err": err, "out": b.state(out) if ok else EMPTY}


def ex_add_random(it):
    import hypergraphx.generation.random as GR
    b, obj = build(it["hg"])
    inp = b.state(obj)
    random.seed(it["py_seed"])
    np.random.seed(it["np_seed"])
    kw = dict(size_kw(it["size"], it["spelled"]), inplace=it["inplace"])
    if it["seed"] is not None:
        kw["seed"] = it["seed"]
    if it["fn"] == "add_random_edge":
        ok, ret, err = call(GR.add_random_edge, obj, **kw)
    else:
        ok, ret, err = call(GR.add_random_edges, obj, it["num"], **kw)
    res = obj if it["inplace"] else ret
    if ok and res is None:
        ok, err = False, "returned None with inplace=False"
    return {"fn": it["fn"], "inp": inp, "size": it["size"], "num": it["num"], "inplace": it["inplace"], "ok": ok, "err": err,
            "out": b.state(res) if ok else EMPTY, "labels": b.labels}


def ex_shuffle(it):
    import hypergraphx.generation.random as GR
    b, obj = build(it["hg"])
    inp = b.state(obj)
    random.seed(it["py_seed"])
    np.random.seed(it["np_seed"])
    kw = {"p": it["p"], "inplace": it["inplace"], "preserve_degree": it["preserve_degree"]}
    if it["seed"] is not None:
        kw["seed"] = it["seed"]
    log = []
    with capture_sample(log):
        if it["fn"] == "random_shuffle":
            kw.update(size_kw(it["size"], it["spelled"]))
            ok, ret, err = call(GR.random_shuffle, obj, **kw)
        else:
            ok, ret, err = call(GR.random_shuffle_all_orders, obj, **kw)
    res = obj if it["inplace"] else ret
    if ok and res is None:
        ok, err = False, "returned None with inplace=False"
    c = {"fn": it["fn"], "inp": inp, "pzero": it["p"] == 0, "p": str(it["p"]), "inplace": it["inplace"], "ok": ok, "err": err,
         "out": b.state(res) if ok else EMPTY, "arg_after": b.state(obj), "labels": b.labels,
         "known": False, "R": [], "Rs": [], "size": it.get("size", 0)}
    seen_sizes = [r["size"] for r in log]
    if ok and log and all(r["edges"] is not None for r in log) and len(set(seen_sizes)) == len(seen_sizes):
        if it["fn"] == "random_shuffle" and len(log) == 1 and log[0]["size"] == it["size"]:
            c["known"], c["R"] = True, [b.from_api(e) for e in log[0]["edges"]]
        elif it["fn"] == "random_shuffle_all_orders":
            c["known"], c["Rs"] = True, [[r["size"], [b.from_api(e) for e in r["edges"]]] for r in log]
    return c


EXEC = {"random_hypergraph": ex_random_hypergraph, "random_uniform_hypergraph": ex_random_hypergraph,
        "scale_free_hypergraph": ex_scale_free, "HOADmodel": ex_hoad, "add_random_edge": ex_add_random,
        "add_random_edges": ex_add_random, "random_shuffle": ex_shuffle, "random_shuffle_all_orders": ex_shuffle}


# ---------------------------------------------------------------------------
def plan(rng, tier):
    q = tier == "quick"
    items = []

    def seeds():
        return {"py_seed": rng.randrange(2 ** 31), "np_seed": rng.randrange(2 ** 31)}

    # random_hypergraph / random_uniform_hypergraph: every argument tuple is run with the same seed at least twice
    # (not back to back: other calls in between move the global generators), with other seeds and without a seed
    for _ in range(120 if q else 1200):
        n = rng.randint(0, 8)
        if rng.random() < 0.3 and n >= 1:
            counts = [[rng.randint(1, min(n, 4)), rng.randint(0, 6)]]
            fn = "random_uniform_hypergraph"
        else:
            zs = rng.sample(range(1, min(n, 5) + 1), rng.randint(0, min(n, 3))) if n else []
            counts = [[z, rng.choice([0, 1, 1, 2, 3, 5, 8])] for z in zs]
            if rng.random() < 0.2:
                counts.append([n + 1 + rng.randint(0, 2), 0])        # a size nobody can sample, zero requested
            fn = "random_hypergraph"
        s1, s2 = rng.randrange(1000), rng.randrange(1000, 2000)
        for seed in (s1, s2, None, s1, 0, s2, s1):
            items.append(dict(fn=fn, n=n, counts=counts, seed=seed, **seeds()))
    # scale_free_hypergraph
    modes = [("default", {}), ("corr_target", None), ("corr_target_1", {"corr_target": 1}),
             ("uncorrelated", {"correlated": False}), ("num_shuffles", {"num_shuffles": 3}),
             ("correlated_explicit", {"correlated": True})]
    for i in range(180 if q else 2700):
        n = rng.randint(4, 9)
        zs = rng.sample([2, 3, 4], rng.randint(1, 3))
        counts = [[z, rng.randint(0, max(1, math.comb(n, z) // 2))] for z in zs]
        scales = [[z, rng.choice([0.5, 1.0, 2.0, 3])] for z in zs]
        name, kw = modes[i % len(modes)]
        if kw is None:
            kw = {"corr_target": rng.choice([0, 0.2, 0.5, 0.9])}
        items.append(dict(fn="scale_free_hypergraph", n=n, counts=counts, scales=scales, kw=kw, mode=name, **seeds()))
    # HOADmodel
    for _ in range(240 if q else 3600):
        N = rng.randint(2, 6)
        orders = rng.sample(range(1, min(4, N) + 1), rng.randint(1, min(3, N, 4)))
        # one vector in six is that of a larger population (longer than N): only the first N activities belong to the model's
        # nodes, whatever the vector holds the model emits nodes below N only
        more = rng.choice([0, 0, 0, 0, 0, rng.randint(1, 3)])
        acts = [[o, [rng.choice([0, 1, 1, 0.5, 0.25, 0.0, 1.0]) for _ in range(N + more)]] for o in orders]
        pass_time = rng.random() < 0.9
        items.append(dict(fn="HOADmodel", n=N, acts=acts, time=rng.choice([0, 1, 2, 3, 5]), pass_time=pass_time, **seeds()))
    # add_random_edge(s)
    for _ in range(360 if q else 5400):
        hg = rand_hg_spec(rng)
        nn = len({x for e in hg["edges"] for x in e["e"]} | set(hg["extra_nodes"]))
        size = rng.randint(1, min(4, nn))
        fn = rng.choice(["add_random_edge", "add_random_edges"])
        num = 1 if fn == "add_random_edge" else rng.randint(0, min(5, math.comb(nn, size)))
        items.append(dict(fn=fn, hg=hg, size=size, spelled=rng.choice(["size", "order"]), num=num,
                          inplace=rng.random() < 0.5, seed=rng.choice([None, rng.randrange(1000)]), **seeds()))
    # random_shuffle / random_shuffle_all_orders
    for i in range(780 if q else 11700):
        hg = rand_hg_spec(rng, dense=rng.random() < 0.6)
        sizes = sorted({len(e["e"]) for e in hg["edges"]})
        p = rng.choice([0, 0.0, 0.25, 0.5, 0.5, 0.75, 1, 1.0, round(rng.random(), 2)])
        it = dict(hg=hg, p=p, inplace=rng.random() < 0.5, preserve_degree=rng.random() < 0.5,
                  seed=rng.choice([None, rng.randrange(1000)]), **seeds())
        if i % 3 == 2:
            it["fn"] = "random_shuffle_all_orders"
        else:
            it["fn"] = "random_shuffle"
            it["size"] = rng.choice(sizes + sizes + [max(sizes) + 1])
            it["spelled"] = rng.choice(["size", "order"])
        items.append(it)
    # interleave so that calls with equal (arguments, seed) are separated by other calls
    rng.shuffle(items)
    return items + saturated_scale_free(random.Random(rng.randrange(2 ** 31)), modes, 48 if q else 600)


# scale_free_hypergraph asked for all, or all but one, of the C(n, size) possible hyperedges of a size (few nodes):
# "exactly the requested number of distinct hyperedges per size" holds there as well
SATURATED = [(4, {2: 6}), (4, {2: 5}), (4, {3: 4}), (4, {3: 3}), (4, {2: 6, 3: 4}), (4, {4: 1, 2: 6}),
             (5, {2: 10}), (5, {2: 9}), (5, {3: 10}), (5, {3: 9}), (5, {4: 5}), (5, {4: 4}), (5, {2: 10, 4: 5}),
             (6, {2: 15}), (6, {2: 14}), (6, {5: 6})]


def saturated_scale_free(rng, modes, count):
    items = []
    for i in range(count):
        n, cnt = SATURATED[i % len(SATURATED)]
        zs = list(cnt)
        rng.shuffle(zs)
        name, kw = modes[rng.randrange(len(modes))]
        if kw is None:
            kw = {"corr_target": rng.choice([0, 0.2, 0.5, 0.9])}
        items.append(dict(fn="scale_free_hypergraph", n=n, counts=[[z, cnt[z]] for z in zs],
                          scales=[[z, rng.choice([0.5, 1.0, 2.0, 3])] for z in zs], kw=kw, mode=name, saturated=True,
                          patience_s=2, py_seed=rng.randrange(2 ** 31), np_seed=rng.randrange(2 ** 31)))
    return items


# ---------------------------------------------------------------------------
MC_INV = ["SamplerSatisfiesRandHG", "ShuffleSatisfiesRelation", "AddSatisfiesRelation", "HoadSatisfiesRelation"]


def _mc(model, n, variant, weighted, max_edges=3, workers=6):
    cfg = tlc.cfg_text({"Kind": "temp" if model == "hoad" else "hg", "Node": set(range(1, n + 1)), "Model": model,
                        "Variant": variant, "WeightedInputs": weighted, "MaxEdges": max_edges}, invariants=MC_INV)
    r = tlc.run("MC_Generators", cfg, workers=workers, timeout=2400, heap="6g")
    s = tlc.stats(r["out"]) or {"generated": 0, "distinct": 0}
    return {"module": "MC_Generators", "model": model, "n": n, "variant": variant, "weighted_inputs": weighted,
            "max_edges": max_edges, "ok": tlc.ok_exploration(r),
            "violated": [l.split()[2] for l in r["out"].splitlines() if l.startswith("Error: Invariant ") and "is violated" in l],
            "states": s["distinct"], "transitions": s["generated"], "wall_s": round(r["wall"], 1),
            "excerpt": "" if tlc.ok_exploration(r) else tlc.error_excerpt(r["out"], 14)}


def explore(res, tier):
    q = tier == "quick"
    if q:
        pos = [("sampler", 3, "none", False, 3), ("shuffle", 3, "selective", True, 2), ("shuffle", 4, "readd_all", False, 2),
               ("add", 3, "none", True, 2), ("hoad", 3, "none", False, 3)]
    else:
        pos = [("sampler", 3, "none", False, 3), ("shuffle", 3, "selective", True, 3), ("shuffle", 4, "selective", True, 2),
               ("shuffle", 4, "readd_all", False, 3), ("add", 4, "none", True, 2), ("hoad", 3, "none", False, 3)]
    neg = [("shuffle", 3, "readd_all", True, 2), ("hoad", 3, "time_off_by_one", False, 3), ("sampler", 3, "with_replacement", False, 3)]
    with cf.ThreadPoolExecutor(max_workers=3) as ex:
        fp = [ex.submit(_mc, *a) for a in pos]
        fn = [ex.submit(_mc, *a, workers=2) for a in neg]
        pos_r, neg_r = [f.result() for f in fp], [f.result() for f in fn]
    for r in pos_r:
        if not r["ok"]:
            raise tlc.TLCError("MC_Generators %s/%s failed:\n%s" % (r["model"], r["variant"], r["excerpt"]))
    for r in neg_r:
        if r["ok"] or not r["violated"]:
            raise tlc.TLCError("MC_Generators variant %s/%s was NOT rejected by TLC\n%s" % (r["model"], r["variant"], r["excerpt"]))
    res.cov(states=sum(r["states"] for r in pos_r), transitions=sum(r["transitions"] for r in pos_r))
    for r in pos_r + neg_r:
        r.pop("excerpt", None)
    res.coverage["explorations"] = pos_r
    res.coverage["spec_variants_rejected_by_tlc"] = [{"model": r["model"], "variant": r["variant"], "violated": r["violated"]} for r in neg_r]
    res.coverage["invariants"] = MC_INV


# ---------------------------------------------------------------------------
def signature(it, failed):
    sig = {"function": it["fn"], "clauses": failed}
    if it["fn"] == "scale_free_hypergraph":
        sig["mode"] = it["mode"]
    if it["fn"] in ("random_shuffle", "random_shuffle_all_orders"):
        sig["weighted"] = it["hg"]["weighted"]
        sig["p_zero"] = it["p"] == 0
    return sig


def describe(it, c, failed):
    a = {k: v for k, v in it.items() if k not in ("hg", "py_seed", "np_seed", "fn")}
    s = "%s(%s)" % (it["fn"], ", ".join("%s=%s" % kv for kv in a.items()))
    if "hg" in it:
        s += " on %s hypergraph %s (labels %s)" % ("weighted" if it["hg"]["weighted"] else "unweighted",
                                                   [(e["e"], e["w"], e["md"]) for e in it["hg"]["edges"]], c.get("labels"))
    s += " [random.seed(%d), numpy.random.seed(%d)]: clause(s) %s fail" % (it["py_seed"], it["np_seed"], ",".join(failed))
    if not c["ok"]:
        s += " - the call raised %s" % c["err"]
    return s


def validate(cases):
    """Kind differs for HOADmodel; the seeded sampler cases stay in ONE batch (SeedFunctional is batch-wide)"""
    groups = {"seeded": [], "hg": [], "temp": []}
    for i, c in enumerate(cases):
        g = "temp" if c["fn"] == "HOADmodel" else ("seeded" if c["fn"].startswith("random_") and "hypergraph" in c["fn"] else "hg")
        groups[g].append(i)
    rejects, states = [], 0
    with cf.ThreadPoolExecutor(max_workers=3) as ex:
        futs = {}
        for g, idx in groups.items():
            if not idx:
                continue
            sub = [cases[i] for i in idx]
            if g == "seeded":
                futs[g] = ex.submit(K.run_cases, "Trace_C14", sub, {"Kind": "hg"}, 1, len(sub))
            else:
                futs[g] = ex.submit(K.run_cases, "Trace_C14", sub, {"Kind": "temp" if g == "temp" else "hg"}, 6)
        for g, f in futs.items():
            v = f.result()
            rejects += [(groups[g][j], failed) for j, failed in v["rejects"]]
            states += v["states"]
    return sorted(rejects), states


def run(tier, seed):
    res = Result("C14", tier, seed, "model_checking")
    t0 = time.time()
    with cf.ThreadPoolExecutor(max_workers=1) as bg:
        fut = bg.submit(explore, res, tier)
        rng = random.Random(seed * 1000003 + 14)
        items = plan(rng, tier)
        cases = [EXEC[it["fn"]](it) for it in items]
        not_judged = sum(1 for c in cases if c.get("not_judged"))
        items = [it for it, c in zip(items, cases) if not c.get("not_judged")]
        cases = [c for c in cases if not c.get("not_judged")]
        t1 = time.time()
        if tier == "quick":
            fut.result()
        t2 = time.time()
        rejects, states = validate(cases)
        t3 = time.time()
        fut.result()
    print("[C14] run code %.1fs, explore (waited) %.1fs, validate %.1fs, total %.1fs (%d calls)"
          % (t1 - t0, t2 - t1, t3 - t2, time.time() - t0, len(cases)), file=sys.stderr)
    for i, failed in rejects:
        it, c = items[i], cases[i]
        res.reject(signature(it, failed), describe(it, c, failed),
                   {"item": it, "failing_clauses": failed, "labels": c.get("labels"), "ok": c["ok"], "err": c["err"],
                    "input": c.get("inp"), "output": c["out"], "argument_after": c.get("arg_after"),
                    "rewired": c.get("R") or c.get("Rs")})
    per_fn = {}
    for c in cases:
        per_fn[c["fn"]] = per_fn.get(c["fn"], 0) + 1
    sh = [c for c in cases if c["fn"].startswith("random_shuffle")]
    keys = [c["key"] for c in cases if c.get("hasseed")]
    res.cov(traces_validated_against_impl=len(cases), validator_states=states, rejected_calls=len(rejects),
            shuffle_calls_with_observed_rewired_set=sum(1 for c in sh if c["known"]), shuffle_calls=len(sh),
            shuffle_calls_p_zero=sum(1 for c in sh if c["pzero"]),
            shuffle_calls_not_inplace=sum(1 for c in sh if not c["inplace"]),
            seeded_sampler_calls=len(keys), seeded_keys_seen_more_than_once=sum(1 for k in set(keys) if keys.count(k) > 1),
            calls_that_raised=sum(1 for c in cases if not c["ok"]),
            scale_free_saturated_requests_judged=sum(1 for it in items if it.get("saturated")),
            scale_free_saturated_requests_not_judged_no_result_in_2s=not_judged)
    res.coverage["calls_by_function"] = per_fn
    for c in (cases[0], cases[len(cases) // 2]):
        res.sample({k: v for k, v in c.items() if k not in ("inp", "arg_after")})
    res.assume("results are projected through the public API only (get_nodes/get_edges/get_weight/metadata getters)",
               "nodes 0..n-1 are the labels of the 'zero' label family; hypergraph arguments are built under four label families",
               "the rewired hyperedges of random_shuffle are read from the harness-side wrapper of random.sample (local "
               "current_edges of the calling frame); when unavailable the weaker clauses (pool = all hyperedges of that size) apply",
               "reproducibility is demanded for random_hypergraph / random_uniform_hypergraph only (as the statement does)",
               "admissible grids: size <= number of nodes, requested counts within what exists (scale-free: <= half of C(n,size), "
               "plus requests for all / all but one of the C(n,size) hyperedges of a size on 4-6 nodes)",
               "an admissible call must return within 30 s; a scale-free request at saturation gets 2 s and is NOT judged "
               "when it has not returned by then (no running time is promised and the last hyperedges can need millions of draws)")
    return res.finish()


def replay(path):
    with open(path) as f:
        rp = json.load(f)
    it = rp["payload"]["item"]
    if "counts" in it:
        it["counts"] = [list(p) for p in it["counts"]]
    c = EXEC[it["fn"]](it)
    if c.get("not_judged"):
        print("C14 replay: the call did not return within %s s this time - not judged" % it.get("patience_s"))
        return 0
    batch = [c]
    if c.get("hasseed"):                      # SeedFunctional needs the call twice (from another state of the global generators)
        batch.append(EXEC[it["fn"]](dict(it, py_seed=it["py_seed"] + 1, np_seed=it["np_seed"] + 1)))
    rejects, _ = validate(batch)
    for _, failed in rejects:
        print("VIOLATION property=C14 replay=%s\n  what: %s" % (path, describe(it, c, failed)))
    print("C14 replay %s" % ("FAIL" if rejects else "PASS"))
    return 1 if rejects else 0
