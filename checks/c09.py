"""C09 - Matrix/tensor representations equal their definitions under the returned node mapping."""
import itertools
import random
import time

import numpy as np

from checks.containers import explore
from harness import cases as K
from harness.binding import Binding, LABEL_FAMILIES, quiet
from harness.verdict import Result

FAMS = ("sparse", "str", "zero", "ident", "neg", "big")
HG_INV = ["IncidenceRowsAndColumns", "AdjSymmetricZeroDiag", "AdjIsBBt", "AdjIsSumOfOrders", "DualIsBtB",
          "DegDIsFilteredDegree", "LapSymmetricZeroRowSum", "LapIsIncidenceForm", "TensorSymmetric"]
TEMP_INV = ["AdjSymmetricZeroDiag", "TempAdjIsSnapshotAdj"]


# ---------------------------------------------------------------------------
# logging of what the implementation returns
def dense(M):
    """sparse / dense matrix -> (rows of python ints, shape, all entries integral)"""
    A = M.toarray() if hasattr(M, "toarray") else np.asarray(M)
    if A.ndim != 2:
        raise ValueError("not a matrix")
    ok = bool(np.all(np.isfinite(A))) and bool(np.all(A == np.floor(A)))
    rows = [[int(v) if np.isfinite(v) else 0 for v in row] for row in A.tolist()]
    return rows, [int(A.shape[0]), int(A.shape[1])], ok


def log_map(b, mapping):
    out = []
    if not isinstance(mapping, dict):
        return [[-1, -1]]
    for i, nd in mapping.items():
        try:
            ii = int(i) if float(i) == int(i) else -1
        except Exception:
            ii = -1
        out.append([ii, b.unlab(nd)])
    return out


def mat(b, fn, with_map=True, keep_raw=None):
    """call fn() -> record for the validator; a raising call is logged as such"""
    try:
        with quiet():
            r = fn()
    except Exception as ex:
        return {"raised": True, "exc": type(ex).__name__ + ": " + str(ex)[:80]}
    try:
        M, mp = (r if with_map else (r, None))
        rows, shape, ok = dense(M)
        rec = {"M": rows, "shape": shape, "int": ok}
        if with_map:
            rec["map"] = log_map(b, mp)
            if keep_raw is not None:
                keep_raw.append(mp)
        return rec
    except Exception as ex:       # a value that is not (matrix, dict): the validator sees a failed call
        return {"raised": True, "exc": "unusable return value: " + type(ex).__name__}


def observe_hg(b, obj, rng, tensor=False, dual=True):
    import hypergraphx.linalg.linalg as L
    st = b.state(obj)
    c = {"kind": "hg", "st": st}
    via = rng.random() < 0.5      # Hypergraph methods or the linalg functions
    c["binc"] = mat(b, (lambda: obj.binary_incidence_matrix(return_mapping=True)) if via
                    else (lambda: L.binary_incidence_matrix(obj, return_mapping=True)))
    c["winc"] = mat(b, (lambda: obj.incidence_matrix(return_mapping=True)) if via
                    else (lambda: L.incidence_matrix(obj, return_mapping=True)))
    c["adj"] = mat(b, (lambda: obj.adjacency_matrix(return_mapping=True)) if not via
                   else (lambda: L.adjacency_matrix(obj, return_mapping=True)))
    if dual:                      # hyperedge x hyperedge: not logged for the hub inputs (300 x 300)
        dm = mat(b, (lambda: obj.dual_random_walk_adjacency(return_mapping=True)) if via
                 else (lambda: L.dual_random_walk_adjacency(obj, return_mapping=True)))
        dm.pop("map", None)       # the node mapping says nothing about a hyperedge x hyperedge matrix
        c["dual"] = dm
        with quiet():
            c["edges"] = [b.from_api(e) for e in obj.get_edges()]
    sizes = [len(e["k"]["s"]) for e in st["edges"]]
    if not st["wtd"]:
        top = max(sizes) if sizes else 1
        rows = []
        for d in range(0, top + 1):           # orders present and absent (d = top is always absent)
            r = {"d": d}
            r["incF"] = mat(b, lambda: L.incidence_matrix_by_order(obj, d, keep_isolated_nodes=False, return_mapping=True))
            r["incT"] = mat(b, lambda: L.incidence_matrix_by_order(obj, d, keep_isolated_nodes=True, return_mapping=True))
            raw = []
            r["adj"] = mat(b, lambda: L.adjacency_matrix_by_order(obj, d, return_mapping=True), keep_raw=raw)
            if raw:
                r["deg"] = mat(b, lambda: L.degree_matrix(obj, d, raw[0]), with_map=False)
            else:
                r["deg"] = {"raised": True, "exc": "not called: adjacency_matrix_by_order gave no mapping"}
            r["lap"] = mat(b, lambda: L.laplacian_matrix_by_order(obj, d), with_map=False)
            rows.append(r)
        c["byorder"] = rows
        if sizes:
            try:
                with quiet():
                    la = L.laplacian_matrices_all_orders(obj)
                mats = []
                for d, M in la.items():
                    rows_, shape, ok = dense(M)
                    mats.append({"d": int(d), "M": rows_, "shape": shape, "int": ok})
                c["lapall"] = {"mats": mats}
            except Exception as ex:
                c["lapall"] = {"raised": True, "exc": type(ex).__name__ + ": " + str(ex)[:80]}
    if tensor:
        try:
            with quiet():
                T = L.adjacency_tensor(obj)
            T = np.asarray(T)
            nz = np.argwhere(T != 0)
            c["tensor"] = {"shape": [int(x) for x in T.shape], "nz": [[int(x) for x in ix] for ix in nz.tolist()],
                           "vals": [int(T[tuple(ix)]) if float(T[tuple(ix)]) == int(T[tuple(ix)]) else -1 for ix in nz.tolist()]}
        except Exception as ex:
            c["tensor"] = {"raised": True, "exc": type(ex).__name__ + ": " + str(ex)[:80]}
    return c


def quarter_case(b, n, edges, rng):
    """weighted hypergraph with weights k/4 (0.25 .. 3.0): weights and incidence entries are logged x 4"""
    obj = b.new(True)
    ws = {}
    with quiet():
        for v in edges:
            w = rng.choice([1, 2, 3, 5, 6, 7, 9, 10, 11, 12]) / 4.0
            obj.add_edge(b._tuple(v), weight=w)
            ws[tuple(sorted(v))] = ws.get(tuple(sorted(v)), 0) + w
    st = b.state(obj)
    for e in st["edges"]:
        e["w"] = int(round(ws[tuple(e["k"]["s"])] * 4))
    st["err"] = ";".join(x for x in st["err"].split(";") if x and not x.startswith("weight_type"))
    import hypergraphx.linalg.linalg as L

    def call():
        M, mp = (obj.incidence_matrix(return_mapping=True) if rng.random() < 0.5
                 else L.incidence_matrix(obj, return_mapping=True))
        return M * 4, mp
    return {"kind": "hgq", "st": st, "winc": mat(b, call)}


def observe_temp(b, obj, rng):
    import hypergraphx.linalg.linalg as L
    c = {"kind": "temp", "st": b.state(obj)}
    try:
        with quiet():
            if rng.random() < 0.5:
                mats, maps = obj.temporal_adjacency_matrix(return_mapping=True)
            else:
                mats, maps = L.temporal_adjacency_matrix(obj, return_mapping=True)
        out = []
        for t, M in mats.items():
            rows, shape, ok = dense(M)
            out.append({"t": int(t), "M": rows, "shape": shape, "int": ok, "map": log_map(b, maps.get(t))})
        c["tadj"] = {"mats": out}
    except Exception as ex:
        c["tadj"] = {"raised": True, "exc": type(ex).__name__ + ": " + str(ex)[:80]}
    return c


def nonint(c):
    """names of logged matrices with a non-integral entry (floats never enter TLC)"""
    bad = []

    def walk(name, r):
        if isinstance(r, dict):
            if r.get("int") is False:
                bad.append(name)
            for k, v in r.items():
                if isinstance(v, (dict, list)) and k not in ("M", "map", "st", "nz", "vals", "shape", "edges"):
                    walk(name + "." + k if name else k, v)
        elif isinstance(r, list):
            for v in r:
                walk(name, v)
    walk("", c)
    return sorted(set(bad))


# ---------------------------------------------------------------------------
# inputs
def build_hg(b, n, edges, weighted, rng, all_nodes=None, churn=True):
    """edges: list of node-id tuples; weights drawn here; isolated nodes added at random (or all)"""
    obj = b.new(weighted)
    edges = list(edges)
    rng.shuffle(edges)
    with quiet():
        extra = list(range(1, n + 1)) if all_nodes or (all_nodes is None and rng.random() < 0.6) else \
            [i for i in range(1, n + 1) if rng.random() < 0.3]
        rng.shuffle(extra)
        for i in extra[:len(extra) // 2]:
            obj.add_node(b.lab(i))
        for j, e in enumerate(edges):
            kw = {"weight": rng.randint(1, 4)} if weighted else {}
            obj.add_edge(b._tuple(e), **kw)
            if churn and rng.random() < 0.25:
                # remove and re-insert an earlier hyperedge: internal ids get holes, listing order changes
                v = edges[rng.randrange(0, j + 1)]
                try:
                    obj.remove_edge(b._tuple(v))
                    obj.add_edge(b._tuple(v), **({"weight": rng.randint(1, 4)} if weighted else {}))
                except Exception:
                    pass
        for i in extra[len(extra) // 2:]:
            obj.add_node(b.lab(i))
        if churn and all_nodes is None and rng.random() < 0.2:
            # a node is removed with its hyperedges SHRUNK (remove_node(keep_edges=True)): hyperedges change their node set while
            # others were added after them, shrunk hyperedges may merge with existing ones (the case is the state observed afterwards);
            # not when a singleton hyperedge of that node exists (it would become the empty hyperedge: DESIGN section 5)
            present = sorted({x for e in edges for x in e if len(e) >= 2} - {e[0] for e in edges if len(e) == 1})
            if present:
                x = rng.choice(present)
                try:
                    obj.remove_node(b.lab(x), keep_edges=True)
                    if rng.random() < 0.5:
                        obj.add_node(b.lab(x))
                except Exception:
                    pass
    return obj


def all_edges(n, maxsize=None):
    return [c for z in range(1, (maxsize or n) + 1) for c in itertools.combinations(range(1, n + 1), z)]


def random_edges(n, rng, m=None, maxsize=5):
    m = m if m is not None else rng.randint(0, 8)
    out = set()
    for _ in range(m):
        z = min(n, rng.choice([1, 2, 2, 2, 3, 3, 4, 5]), maxsize)
        out.add(tuple(sorted(rng.sample(range(1, n + 1), z))))
    return sorted(out)


def hg_inputs(tier, rng):
    """(n, edges, weighted, family, all_nodes, tensor) descriptions"""
    out = []
    # (i) every hypergraph on 3 nodes, unweighted; quick: one label family each, thorough: all four
    e3 = all_edges(3)
    for mask in range(1 << len(e3)):
        es = [e3[i] for i in range(len(e3)) if mask >> i & 1]
        fams = FAMS if tier == "thorough" else (FAMS[mask % len(FAMS)],)
        for f in fams:
            out.append((3 if mask % 3 else 4, es, False, f, True if mask % 2 else None, False))
    # (ii) hypergraphs on 4 nodes (2^15 of them): thorough all of them, quick a seeded sample
    e4 = all_edges(4)
    if tier == "thorough":
        for mask in range(1 << len(e4)):
            out.append((4, [e4[j] for j in range(len(e4)) if mask >> j & 1], False, FAMS[mask % len(FAMS)], None, False))
    else:
        for i in range(60):
            mask = rng.getrandbits(len(e4)) & rng.getrandbits(len(e4)) if rng.random() < 0.6 else rng.getrandbits(len(e4))
            out.append((4, [e4[j] for j in range(len(e4)) if mask >> j & 1], False, FAMS[i % len(FAMS)], None, False))
    # (iii) random, 2..6 nodes, sizes 1..5, weighted and unweighted
    for i in range(80 if tier == "quick" else 2500):
        n = rng.randint(2, 6)
        out.append((n, random_edges(n, rng), i % 2 == 0, FAMS[i % len(FAMS)], None, False))
    # (iv) uniform hypergraphs on nodes 0..N-1 for the tensor (all nodes present)
    for i in range(40 if tier == "quick" else 600):
        z = rng.choice([1, 2, 2, 3, 3, 4])
        n = rng.randint(z, 5)
        combos = list(itertools.combinations(range(1, n + 1), z))
        es = rng.sample(combos, rng.randint(1, min(len(combos), 6)))
        out.append((n, es, i % 3 == 0, "zero", True, True))
    return out


def temp_inputs(tier, rng):
    out = []
    for i in range(60 if tier == "quick" else 1500):
        n = rng.randint(2, 5)
        times = rng.sample(range(0, 5), rng.randint(1, 3))
        recs = []
        for _ in range(rng.randint(1, 8)):
            z = min(n, rng.choice([1, 2, 2, 3, 4]))
            recs.append((tuple(sorted(rng.sample(range(1, n + 1), z))), rng.choice(times)))
        out.append((n, sorted(set(recs)), i % 2 == 0, FAMS[i % len(FAMS)]))
    return out


def build_temp(b, n, recs, weighted, rng):
    obj = b.new(weighted)
    recs = list(recs)
    rng.shuffle(recs)
    with quiet():
        if rng.random() < 0.5:
            obj.add_node(b.lab(rng.randint(1, n)))
        for j, (e, t) in enumerate(recs):
            kw = {"weight": rng.randint(1, 3)} if weighted else {}
            obj.add_edge(b._tuple(e), t, **kw)
            if rng.random() < 0.2:
                v, tv = recs[rng.randrange(0, j + 1)]
                try:
                    obj.remove_edge(b._tuple(v), tv)
                    if rng.random() < 0.7:
                        obj.add_edge(b._tuple(v), tv, **kw)
                except Exception:
                    pass
    return obj


# ---------------------------------------------------------------------------
# hubs: a node in >= 256 hyperedges of one order, two nodes sharing >= 256 hyperedges (counts beyond one byte), on
# few nodes so that the node x node matrices stay small
def hub_labels(fam, n, rng):
    if fam == "ident":
        return list(range(1, n + 1))
    if fam == "zero":
        return list(range(n))
    if fam == "sparse":
        return rng.sample(range(2, 900), n)
    names = ["%s%02d" % (rng.choice("abcxyz"), i) for i in range(n)]
    rng.shuffle(names)
    return names


def hub_inputs(tier, rng):
    """(shape, n, edges, weighted, family)"""
    out = []
    for i in range(4 if tier == "quick" else 16):
        shape = ("node_in_many_triangles", "node_in_many_4sets", "pair_in_many_hyperedges", "pair_in_many_hyperedges")[i % 4]
        if shape == "node_in_many_triangles":       # node 1 in m >= 256 hyperedges of order 2
            n = 25
            m = rng.randint(256, 276)
            es = [(1,) + p for p in rng.sample(list(itertools.combinations(range(2, n + 1), 2)), m)]
            es += random_edges(n, rng, m=4)         # a few others of any size
        elif shape == "node_in_many_4sets":         # node 1 in m >= 256 hyperedges of order 3
            n = rng.randint(14, 15)
            m = rng.randint(256, 286)
            es = [(1,) + p for p in rng.sample(list(itertools.combinations(range(2, n + 1), 3)), m)]
            es += random_edges(n, rng, m=4)
        else:                                       # nodes 1 and 2 together in >= 256 hyperedges of order 4, ~290 in all
            n = rng.randint(15, 16)
            fives = list(itertools.combinations(range(3, n + 1), 3))
            es = [(1, 2) + p for p in rng.sample(fives, rng.randint(256, min(len(fives), 275)))]
            es += [(1, 2, j) for j in range(3, n + 1)] + [(1, 2)]
        out.append((shape, n, sorted(set(es)), shape.startswith("pair") and i % 8 == 3, FAMS[(i + i // 4) % 4]))
    return out


# re-observation: all matrices of ONE object are observed, then the same object is changed in a way that keeps its
# numbers of nodes and of hyperedges, and everything is observed again (each observation is an ordinary case)
def present(b, obj):
    st = b.state(obj)
    return st, set(st["nodes"]), [(tuple(e["k"]["s"]), e["k"]["x"]) for e in st["edges"]]


def mutate_same_counts(b, obj, universe, rng, temporal=False, times=(0,)):
    """one change of obj that leaves num_nodes() and num_edges() as they were; returns its description (or None)"""
    st, nodes, recs = present(b, obj)
    used = {x for e, _ in recs for x in e}
    isolated = sorted(nodes - used)
    absent = [i for i in universe if i not in nodes]
    ways = []
    if recs:
        ways += ["replace_hyperedge"] * 3
    if isolated and absent:
        ways += ["swap_isolated_node"] * 4
    if not ways:
        return None
    how = rng.choice(ways)
    kw = {"weight": rng.randint(1, 4)} if st["wtd"] else {}
    with quiet():
        if how == "swap_isolated_node":
            x, y = rng.choice(isolated), rng.choice(absent)
            obj.remove_node(b.lab(x))
            obj.add_node(b.lab(y))
            return {"how": how, "removed_node": x, "added_node": y}
        old = rng.choice(recs)
        pool = sorted(nodes)
        cands = [(c, t) for z in range(1, min(len(pool), 4) + 1) for c in itertools.combinations(pool, z)
                 for t in times if (c, t) not in recs]
        if not cands:
            return None
        # mostly over nodes that keep a hyperedge, so that no node appears or disappears with the change
        keep = {x for r in recs if r != old for x in r[0]} | set(isolated)
        inside = [ct for ct in cands if set(ct[0]) <= keep and set(old[0]) <= keep | set(ct[0])]
        new = rng.choice(inside if inside and rng.random() < 0.8 else cands)
        if temporal:
            obj.remove_edge(b._tuple(old[0]), old[1])
            obj.add_edge(b._tuple(new[0]), new[1], **kw)
            return {"how": how, "removed": [list(old[0]), old[1]], "added": [list(new[0]), new[1]]}
        obj.remove_edge(b._tuple(old[0]))
        obj.add_edge(b._tuple(new[0]), **kw)
        return {"how": how, "removed": list(old[0]), "added": list(new[0])}


def reobs_inputs(tier, rng):
    out = []
    for i in range(24 if tier == "quick" else 900):
        n = rng.randint(3, 6)
        out.append((n, random_edges(n, rng, m=rng.randint(1, 7), maxsize=4), i % 3 == 0, FAMS[i % len(FAMS)]))
    return out


def reobs_temp_inputs(tier, rng):
    return [it for it in temp_inputs(tier, rng)][:16 if tier == "quick" else 600]


def _reobserve(kind, it, rng):
    """-> cases, descriptions: first observation, then two rounds of (change keeping both counts, observation)"""
    temporal = kind == "tempre"
    n, es, weighted, fam = it
    b = Binding("temp" if temporal else "hg", LABEL_FAMILIES[fam](n + 1), rng)   # one label more than used at first
    universe = range(1, n + 2)
    if temporal:
        obj = build_temp(b, n, es, weighted, rng)
        times = sorted({t for _, t in es})
    else:
        obj = build_hg(b, n, es, weighted, rng, all_nodes=None)
        times = (0,)
    cs, ds, history = [], [], []
    for step in range(3):
        if step:
            with quiet():
                before = (obj.num_nodes(), obj.num_edges())
            try:
                h = mutate_same_counts(b, obj, universe, rng, temporal=temporal, times=times)
            except Exception as ex:     # the harness only issues valid calls: a raising one shows in the next observation
                h = {"how": "raised", "exc": type(ex).__name__ + ": " + str(ex)[:80]}
            if h is None:
                break
            with quiet():
                h["counts_kept"] = (obj.num_nodes(), obj.num_edges()) == before
            history = history + [h]
        c = observe_temp(b, obj, rng) if temporal else observe_hg(b, obj, rng)
        _, _, recs = present(b, obj)
        cs.append(c)
        ds.append({"kind": "temp" if temporal else "hg", "n": len(c["st"]["nodes"]),
                   "hyperedges": [[list(e), t] for e, t in recs] if temporal else [list(e) for e, _ in recs],
                   "weighted": weighted, "family": fam, "labels": b.labels, "built_from": [list(x) for x in es],
                   "changes_of_the_same_object_before_this_observation": history})
    return cs, ds


def _observe_chunk(job):
    """build and observe a slice of the inputs; input number i uses its own generator derived from (seed, i)"""
    kind, seed, start, items = job
    cs, ds = [], []
    for off, it in enumerate(items):
        rng = random.Random((seed * 1000003 + start + off) * 2 + (kind == "temp"))
        if kind in ("hgre", "tempre", "hub"):
            rng = random.Random("%s/%d/%d" % (kind, seed, start + off))
        if kind in ("hgre", "tempre"):
            c2, d2 = _reobserve(kind, it, rng)
            for d in d2:
                d["input_no"] = start + off
            cs += c2
            ds += d2
        elif kind == "hub":
            shape, n, es, weighted, fam = it
            b = Binding("hg", hub_labels(fam, n, rng), rng)
            obj = build_hg(b, n, es, weighted, rng, all_nodes=True, churn=False)
            cs.append(observe_hg(b, obj, rng, dual=False))
            ds.append({"kind": "hg", "n": n, "hyperedges": [list(e) for e in es], "weighted": weighted, "hub": shape,
                       "family": fam, "labels": b.labels, "input_no": start + off})
        elif kind == "hg":
            n, es, weighted, fam, all_nodes, tensor = it
            b = Binding("hg", LABEL_FAMILIES[fam](n), rng)
            obj = build_hg(b, n, es, weighted, rng, all_nodes=all_nodes)
            cs.append(observe_hg(b, obj, rng, tensor=tensor))
            ds.append({"kind": "hg", "n": n, "hyperedges": [list(e) for e in es], "weighted": weighted,
                       "family": fam, "labels": b.labels, "input_no": start + off})
        else:
            n, recs, weighted, fam = it
            b = Binding("temp", LABEL_FAMILIES[fam](n), rng)
            obj = build_temp(b, n, recs, weighted, rng)
            cs.append(observe_temp(b, obj, rng))
            ds.append({"kind": "temp", "n": n, "hyperedges": [[list(e), t] for e, t in recs], "weighted": weighted,
                       "family": fam, "labels": b.labels, "input_no": start + off})
    return cs, ds


def strip(c):
    """the logged record without the bulky state, for replay payloads"""
    return {k: v for k, v in c.items() if k != "st"}


def run(tier, seed):
    res = Result("C09", tier, seed, "model_checking")
    if tier == "quick":
        explore(res, "hg", tier, module="MC_Matrices", invariants=HG_INV,
                configs=[dict(n=3, maxw=1, batches=False, metaops=False)])
        explore(res, "temp", tier, module="MC_Matrices", invariants=TEMP_INV,
                configs=[dict(n=2, maxw=1, batches=False, metaops=False, xs=[0, 1], weighted=False)])
    else:
        explore(res, "hg", tier, module="MC_Matrices", invariants=HG_INV,
                configs=[dict(n=3, maxw=2, batches=False, metaops=False),
                         dict(n=4, maxw=1, batches=False, metaops=False, weighted=False)])
        explore(res, "temp", tier, module="MC_Matrices", invariants=TEMP_INV,
                configs=[dict(n=3, maxw=1, batches=False, metaops=False, xs=[0, 1], weighted=False)])
    rng = random.Random(seed)
    hin, tin = hg_inputs(tier, rng), temp_inputs(tier, rng)
    agg = {"cases": 0, "mats": 0, "states": 0, "t_py": 0.0, "t_tlc": 0.0, "hgs": set(), "temporal": 0, "tensor": 0,
           "weighted": 0, "fams": set(), "reobs": 0, "reobs_kept": 0, "hubs": 0, "hub_max": 0}
    pool = None
    if tier != "quick":
        import multiprocessing as mp
        pool = mp.get_context("fork").Pool(12)
    groups = (("hg", hin), ("temp", tin), ("hgre", reobs_inputs(tier, rng)),
              ("tempre", reobs_temp_inputs(tier, rng)), ("hub", hub_inputs(tier, rng)))
    try:
        # non-integer weights (quarters), weighted incidence only
        qrng = random.Random(seed * 31 + 7)
        qc, qd = [], []
        for i in range(40 if tier == "quick" else 600):
            n = qrng.randint(2, 5)
            es = list({tuple(sorted(qrng.sample(range(1, n + 1), qrng.randint(1, n)))) for _ in range(qrng.randint(1, 5))})
            fam = ("ident", "sparse", "str", "zero")[i % 4]
            b = Binding("hg", LABEL_FAMILIES[fam](n), qrng)
            qc.append(quarter_case(b, n, es, qrng))
            qd.append({"kind": "hgq", "n": n, "hyperedges": [list(e) for e in es], "family": fam, "labels": b.labels})
        if tier == "quick":
            # few cases of every kind: observe everything, then let the validator runs of all kinds share the cores
            import concurrent.futures as cf
            t0 = time.time()
            obs = [(kind,) + _observe(kind, seed, 0, items, None) for kind, items in groups]
            agg["t_py"] += time.time() - t0
            t0 = time.time()
            share = {"hg": 7, "hgre": 3, "hub": 4, "temp": 2, "tempre": 2}
            with cf.ThreadPoolExecutor(max_workers=len(obs) + 1) as ex:
                futs = [ex.submit(_validate, kind, cases, share[kind]) for kind, cases, _ in obs]
                qf = ex.submit(K.run_cases, "Trace_C09", qc, {"Kind": "hg"}, 2)
                vs = [f.result() for f in futs]
                v = qf.result()
            agg["t_tlc"] += time.time() - t0
            for (kind, cases, descr), vk in zip(obs, vs):
                _digest(res, kind, seed, cases, descr, vk, agg)
        else:
            # rounds bound the memory: observe a slice (in parallel), validate it, keep only rejections and samples
            for kind, items in groups:
                for start in range(0, len(items), ROUND):
                    _round(res, kind, seed, start, items[start:start + ROUND], pool, agg)
            v = K.run_cases("Trace_C09", qc, {"Kind": "hg"}, procs=4)
        for idx, failed in v["rejects"]:
            d = qd[idx]
            res.reject({"clauses": failed, "labels": d["family"] if d["family"] == "zero" else "other"},
                       "%s disagree(s) with Matrices.tla for a hypergraph with non-integer weights %s (labels %s)"
                       % (",".join(failed), d["hyperedges"], d["labels"]), {"case": d, "seed": seed, "logged": strip(qc[idx]), "state": qc[idx]["st"]})
        for c, d in zip(qc, qd):
            if nonint(c):
                res.reject({"clauses": ["quarter_entries"]}, "weighted incidence of quarter weights is not a multiple of 1/4: %s" % d["hyperedges"],
                           {"case": d, "seed": seed, "logged": strip(c)})
        agg["cases"] += len(qc)
        res.cov(fractional_weight_cases=len(qc))
    finally:
        if pool is not None:
            pool.close()
            pool.join()
    res.cov(traces_validated_against_impl=agg["cases"], matrices_validated=agg["mats"], validator_states=agg["states"],
            distinct_hypergraphs=len(agg["hgs"]), temporal_hypergraphs=agg["temporal"], tensor_cases=agg["tensor"],
            weighted_cases=agg["weighted"], label_families=len(agg["fams"]),
            exhaustive_4_nodes=(tier == "thorough"),
            observations_after_a_change_of_the_same_object=agg["reobs"],
            of_which_with_unchanged_node_and_hyperedge_counts=agg["reobs_kept"],
            hub_inputs=agg["hubs"], largest_expected_matrix_entry=agg["hub_max"],
            python_wall_s=round(agg["t_py"], 1), validator_wall_s=round(agg["t_tlc"], 1))
    res.assume("returned matrices are densified by the harness; every entry must be an integral number (checked in Python) and is compared as an integer by TLC",
               "the Laplacian carries no mapping: its rows are read through the mapping returned by adjacency_matrix_by_order for the same order (the statement's identity L = d*D - A is entrywise)",
               "hyperedge numbering of the dual adjacency: listing order of get_edges(); any other consistent numbering is accepted for <= 6 hyperedges",
               "per-order variants, degree matrix and Laplacians are exercised on unweighted hypergraphs only (as the statement says); laplacian_matrices_all_orders only when there is a hyperedge",
               "hub inputs (a node in >= 256 hyperedges of one order, two nodes together in >= 256 hyperedges, 14-30 nodes): everything "
               "but the hyperedge x hyperedge dual adjacency is observed",
               "re-observation: after all matrices of an object were returned, the same object is changed by valid calls (one hyperedge "
               "replaced by another, an isolated node replaced by a new label) and observed again; every observation is judged against "
               "the abstract state read through the public API at that moment",
               "temporal: a time without hyperedges may be absent from the result; the mapping at time t may cover any node set between the nodes alive at t and all nodes",
               "thorough: all 128 hypergraphs on 3 nodes under 4 label families and all 32768 hypergraphs on 4 nodes (label family by rotation); quick: the 128 on 3 nodes and a seeded sample on 4; larger ones are seeded samples")
    return res.finish()


ROUND = 6000


def _observe(kind, seed, start, items, pool):
    jobs = [(kind, seed, start + i, items[i:i + 250]) for i in range(0, len(items), 250)]
    outs = pool.map(_observe_chunk, jobs, chunksize=1) if pool is not None else [_observe_chunk(j) for j in jobs]
    return [c for cs, _ in outs for c in cs], [d for _, ds in outs for d in ds]


def _validate(kind, cases, procs=14):
    n = len(cases)
    return K.run_cases("Trace_C09", cases, {"Kind": "temp" if kind in ("temp", "tempre") else "hg"}, procs=procs,
                       per_batch=1 if kind == "hub" else min(450, max(10, n // procs + 1)))


def _round(res, kind, seed, start, items, pool, agg):
    t0 = time.time()
    cases, descr = _observe(kind, seed, start, items, pool)
    agg["t_py"] += time.time() - t0
    t0 = time.time()
    v = _validate(kind, cases)
    agg["t_tlc"] += time.time() - t0
    _digest(res, kind, seed, cases, descr, v, agg)


def _digest(res, kind, seed, cases, descr, v, agg):
    tkind = "temp" if kind in ("temp", "tempre") else "hg"
    for idx, failed in v["rejects"]:
        d = descr[idx]
        raised = sorted({r.get("exc", "") for r in _records(cases[idx]) if r.get("raised")})
        hist = d.get("changes_of_the_same_object_before_this_observation")
        shown = d["hyperedges"] if "hub" not in d else "%s (%d hyperedges, listed in the replay payload)" % (d["hub"], len(d["hyperedges"]))
        res.reject({"clauses": failed, "labels": d["family"] if d["family"] == "zero" else "other"},
                   "%s disagree(s) with Matrices.tla for the %s%s hypergraph %s on %d nodes labelled %s%s%s"
                   % (",".join(failed), "weighted " if d["weighted"] else "", "temporal" if d["kind"] == "temp" else "",
                      shown, d["n"], d["labels"], (" [raised: %s]" % "; ".join(raised)) if raised else "",
                      (" [same object observed before, then changed: %s]" % hist) if hist else ""),
                   {"case": d, "seed": seed, "logged": strip(cases[idx]), "state": cases[idx]["st"]})
    for c, d in zip(cases, descr):
        bad = nonint(c)
        if bad:
            res.reject({"clauses": ["integer_entries"], "matrices": bad},
                       "non-integral entries in %s for hypergraph %s (labels %s)"
                       % (bad, d["hyperedges"] if "hub" not in d else d["hub"], d["labels"]),
                       {"case": d, "seed": seed, "logged": strip(c)})
    agg["cases"] += len(cases)
    agg["mats"] += sum(len(list(_records(c))) for c in cases)
    agg["states"] += v["states"]
    agg["fams"] |= {d["family"] for d in descr}
    for d in descr:
        hist = d.get("changes_of_the_same_object_before_this_observation")
        if hist:
            agg["reobs"] += 1
            agg["reobs_kept"] += 1 if hist[-1].get("counts_kept") else 0
    if kind == "hub":
        agg["hubs"] += len(cases)
        for c in cases:
            for r in [c["adj"]] + [x["lap"] for x in c.get("byorder", [])]:
                if "M" in r:
                    agg["hub_max"] = max([agg["hub_max"]] + [abs(x) for row in r["M"] for x in row])
    if tkind == "hg":
        agg["hgs"] |= {(d["n"], str(d["hyperedges"])) for d in descr}
        agg["tensor"] += sum(1 for c in cases if "tensor" in c)
        agg["weighted"] += sum(1 for d in descr if d["weighted"])
        c = cases[len(cases) // 2]
        if kind == "hg":
            res.sample({"input": descr[len(cases) // 2], "adjacency": c["adj"], "binary_incidence": c["binc"]}, cap=3)
        elif kind == "hgre":
            res.sample({"input": descr[-1], "adjacency": cases[-1]["adj"], "binary_incidence": cases[-1]["binc"]}, cap=6)
    else:
        agg["temporal"] += len(cases)
        res.sample({"input": descr[-1], "temporal_adjacency": cases[-1]["tadj"]}, cap=4 if kind == "temp" else 6)


def _records(c):
    """all logged matrix records of a case"""
    for k in ("binc", "winc", "adj", "dual", "tensor", "lapall", "tadj"):
        if k in c:
            yield c[k]
            for m in c[k].get("mats", []) if isinstance(c[k], dict) else []:
                yield m
    for r in c.get("byorder", []):
        for k in ("incF", "incT", "adj", "deg", "lap"):
            yield r[k]
