"""X06 - temporal correlation measures (hypergraphx/measures/temporal/temporal_correlations.py).

Statements X06-a .. X06-i: spec/ext/TempCorr.tla.  Design: spec/mc/MC_TempCorr.tla (exhaustive, bounded temporal
container).  Validator: spec/trace/Trace_X06.tla.

Real TemporalHypergraph objects are built with histories (insertions in random order, removals and re-insertions,
isolated nodes, weights) under several label families; the INPUT of the functions - {order: {time: adjacency}} over the
times 0..T-1 and the time averages - is built by the harness from the abstract state of the object (the library's own
helpers for it are recorded as broken, X01 F48-F52) and is itself checked by TLC against TempAdjD; the ten functions
are called, what they return is logged as exact rationals and judged by TLC.
"""
import json
import math
import random
import time
from fractions import Fraction

import numpy as np
from scipy import sparse

from checks.c09 import build_temp
from harness import cases as K
from harness import containers as C
from harness import tlc
from harness.binding import Binding, LABEL_FAMILIES, quiet
from harness.verdict import Result

FAMS = ("sparse", "str", "zero", "ident", "neg", "big")
MAXDEN = 5000            # true denominators divide T^2 (T - tau) d1! d2! <= 16 * 4 * 36 = 2304
MAXNUM = 400000          # |M| * 2304 and numerator * q stay below 2^31 in TLC
DESIGN = ["TCInputCentred", "TCLagZeroSymmetric", "TCLagZeroSumOfSquares", "TCCauchySchwarz", "TCGapIdentities",
          "TCLagSumsCancel", "TCConstantOrderVanishes", "TCIntraIsCrossOfEqualOrders", "TCAllOrdersKeys"]
F_IM, F_IF = "intra_order_correlation_matrix_by_order", "intra_order_correlation_function_by_order"
F_IAM, F_IAF = "intra_order_correlation_matrices_all_orders", "intra_order_correlation_functions_all_orders"
F_CM, F_CF = "cross_order_correlation_matrix_two_orders", "cross_order_correlation_function_two_orders"
F_CAM, F_CAF = "cross_order_correlation_matrices_all_orders", "cross_order_correlation_functions_all_orders"
F_GF, F_GAF = "cross_order_gap_function_two_orders", "cross_order_gap_functions_all_orders"
OF_FUNCTION = {"im": F_IM, "ifn": F_IF, "iam": F_IAM, "iaf": F_IAF, "cm": F_CM, "cf": F_CF, "cam": F_CAM, "caf": F_CAF,
               "gf": F_GF, "gaf": F_GAF}


# ---------------------------------------------------------------------------
# logging of what the implementation returns
class Unusable(Exception):
    pass


class Undefined(Exception):
    """NaN / inf: the value of a 0/0 normalisation"""


def _arr(M):
    if not (sparse.issparse(M) or isinstance(M, np.ndarray)):
        raise Unusable("not a matrix: %s" % type(M).__name__)
    A = M.toarray() if hasattr(M, "toarray") else np.asarray(M)
    A = np.asarray(A, dtype=float)
    if A.ndim != 2:
        raise Unusable("not a matrix (ndim %d)" % A.ndim)
    if not np.all(np.isfinite(A)):
        raise Unusable("non-finite entries")
    return A


def frac(x):
    """the float x as the exact fraction it stands for (denominator <= MAXDEN), or Unusable"""
    if isinstance(x, (bool, str, bytes)) or not isinstance(x, (int, float, np.integer, np.floating)):
        raise Unusable("not a number: %r" % (x,))
    x = float(x)
    if not math.isfinite(x):
        raise Undefined("non-finite value")
    f = Fraction(x).limit_denominator(MAXDEN)
    if abs(float(f) - x) > 1e-9 * max(1.0, abs(x)):
        raise Unusable("%r is not a rational with denominator <= %d" % (x, MAXDEN))
    if abs(f.numerator) > MAXNUM:
        raise Unusable("%r is too large" % x)
    return f


def pair(f):
    return [f.numerator, f.denominator]


def rat_mat(M):
    """matrix of floats -> record M (integers) / q: every entry over the common denominator q"""
    A = _arr(M)
    try:
        fr = [[frac(v) for v in row] for row in A.tolist()]
    except Undefined as ex:
        raise Unusable(str(ex))
    q = 1
    for row in fr:
        for f in row:
            q = q * f.denominator // math.gcd(q, f.denominator)
    if q > MAXDEN:
        raise Unusable("entries have no common denominator <= %d" % MAXDEN)
    rows = [[int(f * q) for f in row] for row in fr]
    if any(abs(v) > MAXNUM for row in rows for v in row):
        raise Unusable("entries too large")
    return {"M": rows, "q": q, "shape": [int(A.shape[0]), int(A.shape[1])]}


def call(fn, build, **extra):
    """fn() -> record build(value); a raising call / an unreadable value is logged as such"""
    rec = dict(extra)
    try:
        with quiet():
            r = fn()
    except Exception as ex:
        rec.update({"raised": True, "exc": type(ex).__name__ + ": " + str(ex)[:90]})
        return rec
    try:
        rec.update(build(r))
    except Exception as ex:
        rec.update({"raised": True, "exc": "value unusable: " + type(ex).__name__ + ": " + str(ex)[:90]})
    return rec


def _ikey(k):
    try:
        if isinstance(k, (bool, str)):
            return -1
        return int(k) if float(k) == int(k) else -1
    except Exception:
        return -1


def _pkey(k):
    if isinstance(k, tuple) and len(k) == 2:
        return [_ikey(k[0]), _ikey(k[1])]
    return [-1, -1]


def _need_dict(r):
    if not isinstance(r, dict):
        raise Unusable("not a dictionary: %s" % type(r).__name__)
    return r


def denorm(v, s1, s2):
    """a normalised value times 2 sqrt(s1 s2) (s1, s2: the sigmas the library returned, exact) as a fraction"""
    if isinstance(v, (bool, str, bytes)) or not isinstance(v, (int, float, np.integer, np.floating)):
        raise Unusable("not a number: %r" % (v,))
    x = float(v)
    if not math.isfinite(x):
        raise Undefined("non-finite value")
    return frac(x * 2.0 * math.sqrt(float(s1) * float(s2)))


# ---------------------------------------------------------------------------
# the input of the functions, from the abstract state
def build_input(st, rows, T, D, rng):
    """{d: {t: csc_array}} over d in 1..D, t in 0..T-1: entry (i, j) = number of order-d hyperedges alive at t that
    contain both rows[i] and rows[j] (weights play no role); and {d: time average}"""
    pos = {nd: i for i, nd in enumerate(rows)}
    n = len(rows)
    dense = {d: {t: np.zeros((n, n), dtype=np.int64) for t in range(T)} for d in range(1, D + 1)}
    for e in st["edges"]:
        s, x = e["k"]["s"], e["k"]["x"]
        d = len(s) - 1
        if 1 <= d <= D and 0 <= x < T:
            for a in s:
                for b_ in s:
                    if a != b_:
                        dense[d][x][pos[a], pos[b_]] += 1
    dt = rng.choice([np.int64, np.int64, np.int32, np.float64])
    A = {}
    for d in rng.sample(range(1, D + 1), D):          # insertion order of the dictionary keys is not ascending
        A[d] = {t: sparse.csc_array(dense[d][t].astype(dt)) for t in range(T)}
    if rng.random() < 0.5:
        Abar = {d: sum(A[d].values()) / T for d in A}
    else:
        Abar = {d: sparse.csc_array(np.mean([dense[d][t] for t in range(T)], axis=0)) for d in A}
    return A, Abar, dense


# ---------------------------------------------------------------------------
def observe(b, obj, rng, T, D, ann):
    import hypergraphx.measures.temporal.temporal_correlations as TC
    st = b.state(obj)
    rows = list(st["nodes"])
    rng.shuffle(rows)
    A, Abar, dense = build_input(st, rows, T, D, rng)
    c = {"kind": "tcorr", "st": st, "T": T, "D": D, "rows": rows, "ann": ann}
    c["inA"] = [{"d": d, "t": t, "M": dense[d][t].tolist(), "shape": list(dense[d][t].shape)}
                for d in range(1, D + 1) for t in range(T)]
    c["inAbar"] = [dict(rat_mat(Abar[d]), d=d) for d in range(1, D + 1)] if ann == "given" else []
    given = ann == "given"
    full = given
    orders = list(range(1, D + 1))
    lags = list(range(T))
    pairs = [(a, b_) for a in orders for b_ in orders]

    def kwcall(f, names, vals, **more):
        """f(A, averages, vals...) with the arguments passed positionally, by name, or mixed; on the default path the
        averages are None or left out"""
        style = rng.randrange(3)
        ann_arg = Abar if given else None
        named = dict(zip(names, vals))
        if style == 0:
            return lambda: f(A, ann_arg, *vals, **more)
        if style == 1:
            kw = dict(named, **more)
            if given or rng.random() < 0.5:
                kw["annealed_adjacency_matrices_all_orders"] = ann_arg
            return lambda: f(A, **kw)
        return lambda: f(A, ann_arg, **dict(named, **more))

    def some(items, k):
        return list(items) if len(items) <= k else rng.sample(items, k)

    # X06-a, X06-b
    dl = [(d, tau) for d in orders for tau in lags]
    if not full:
        dl = some(dl, 2)
    c["im"] = [call(kwcall(TC.intra_order_correlation_matrix_by_order, ("order", "tau"), (d, tau)), rat_mat, d=d, tau=tau)
               for d, tau in dl]
    c["ifn"] = [call(kwcall(TC.intra_order_correlation_function_by_order, ("order", "tau"), (d, tau)),
                     lambda r: {"v": pair(frac(r))}, d=d, tau=tau) for d, tau in dl]
    sig = {}
    for r in c["ifn"]:
        if r["tau"] == 0 and "v" in r:
            sig[r["d"]] = Fraction(r["v"][0], r["v"][1])
    if not given:       # the sigmas cannot be read on this path unless the default works: ask for them explicitly
        for d in orders:
            r = call(kwcall(TC.intra_order_correlation_function_by_order, ("order", "tau"), (d, 0)),
                     lambda r: {"v": pair(frac(r))}, d=d, tau=0)
            if "v" in r:
                sig[d] = Fraction(r["v"][0], r["v"][1])
    siglog = [[d, s.numerator, s.denominator] for d, s in sorted(sig.items())]

    def norm_build(d1, d2):
        def build(r):
            if d1 not in sig or d2 not in sig:
                return {"nosigma": True, "v": [0, 1], "s1": [0, 1], "s2": [0, 1]}
            out = {"s1": pair(sig[d1]), "s2": pair(sig[d2])}
            try:
                out["v"] = pair(denorm(r, sig[d1], sig[d2]))
            except Undefined:
                out.update({"undefined": True, "v": [0, 1]})
            return out
        return build

    # X06-d, X06-e
    triples = [(a, b_, tau) for a, b_ in pairs for tau in lags]
    c["cm"] = [call(kwcall(TC.cross_order_correlation_matrix_two_orders, ("order1", "order2", "tau"), t3), rat_mat,
                    d1=t3[0], d2=t3[1], tau=t3[2]) for t3 in some(triples, 14 if full else 1)]
    c["cf"] = [call(kwcall(TC.cross_order_correlation_function_two_orders, ("order1", "order2", "tau"), t3),
                    lambda r: {"v": pair(frac(r))}, d1=t3[0], d2=t3[1], tau=t3[2], norm=False)
               for t3 in some(triples, 24 if full else 1)]
    for t3 in some(triples, 8 if full else 1):
        how = rng.randrange(2)
        fn = kwcall(TC.cross_order_correlation_function_two_orders, ("order1", "order2", "tau", "normalized"), t3 + (True,)) \
            if how else kwcall(TC.cross_order_correlation_function_two_orders, ("order1", "order2", "tau"), t3, normalized=True)
        c["cf"].append(call(fn, norm_build(t3[0], t3[1]), d1=t3[0], d2=t3[1], tau=t3[2], norm=True))

    # the all-orders functions: max_order None (-> D) or explicit
    def maxo_variants(f, tau, **more):
        m = rng.choice([None, None, rng.randint(1, D)])
        if m is None:
            return D, (kwcall(f, ("max_order", "tau"), (None, tau), **more) if rng.random() < 0.5
                       else kwcall(f, (), (), tau=tau, **more))
        return m, kwcall(f, ("max_order", "tau"), (m, tau), **more)

    def mats_by_order(r):
        return {"mats": [dict(rat_mat(M), d=_ikey(k)) for k, M in _need_dict(r).items()]}

    def vals_by_order(r):
        out = []
        for k, v in _need_dict(r).items():
            f = frac(v)
            out.append([_ikey(k), f.numerator, f.denominator])
        return {"vals": out}

    def mats_by_pair(r):
        return {"mats": [dict(rat_mat(M), d1=_pkey(k)[0], d2=_pkey(k)[1]) for k, M in _need_dict(r).items()]}

    def vals_by_pair(norm, diagonal_raw=False):
        def build(r):
            vals, undef = [], []
            missing = False
            for k, v in _need_dict(r).items():
                d1, d2 = _pkey(k)
                try:
                    if not norm or (diagonal_raw and d1 == d2):
                        f = frac(v)
                    elif d1 in sig and d2 in sig:
                        f = denorm(v, sig[d1], sig[d2])
                    else:
                        missing = True
                        f = Fraction(0)
                    vals.append([d1, d2, f.numerator, f.denominator])
                except Undefined:
                    if not norm:
                        raise Unusable("non-finite value")
                    undef.append([d1, d2])
            out = {"vals": vals, "undef": undef, "sig": siglog}
            if missing:
                out["nosigma"] = True
            return out
        return build

    some_lags = some(lags, 2 if full else 1)
    c["iam"], c["iaf"], c["cam"], c["caf"], c["gaf"] = [], [], [], [], []
    for tau in some_lags:
        m, fn = maxo_variants(TC.intra_order_correlation_matrices_all_orders, tau)
        c["iam"].append(call(fn, mats_by_order, tau=tau, maxo=m))
        m, fn = maxo_variants(TC.intra_order_correlation_functions_all_orders, tau)
        c["iaf"].append(call(fn, vals_by_order, tau=tau, maxo=m))
        m, fn = maxo_variants(TC.cross_order_correlation_matrices_all_orders, tau)
        c["cam"].append(call(fn, mats_by_pair, tau=tau, maxo=m))
        for norm in ((False, True) if full else (rng.random() < 0.5,)):
            m, fn = maxo_variants(TC.cross_order_correlation_functions_all_orders, tau, **({"normalized": True} if norm else {}))
            c["caf"].append(call(fn, vals_by_pair(norm), tau=tau, maxo=m, norm=norm))
        m, fn = maxo_variants(TC.cross_order_gap_functions_all_orders, tau)
        c["gaf"].append(call(fn, vals_by_pair(True, diagonal_raw=True), tau=tau, maxo=m))

    # X06-g
    c["gf"] = []
    off = [t3 for t3 in triples if t3[0] != t3[1]]
    same = [t3 for t3 in triples if t3[0] == t3[1]]
    for t3 in some(off, 8 if full else 1) + some(same, 1):
        fn = kwcall(TC.cross_order_gap_function_two_orders, ("order1", "order2", "tau"), t3)
        build = norm_build(t3[0], t3[1]) if t3[0] != t3[1] else (lambda r: {"v": pair(frac(r))})
        c["gf"].append(call(fn, build, d1=t3[0], d2=t3[1], tau=t3[2]))
    return c


# ---------------------------------------------------------------------------
# inputs
SHAPES = ("random", "random", "persistent_order", "alternating", "order_with_gaps", "burst", "two_orders_shifted",
          "pair_in_several_hyperedges")


def _edge(n, z, rng):
    return tuple(sorted(rng.sample(range(1, n + 1), min(n, z))))


def _inputs(tier, rng):
    """(n, records, weighted, family, shape, T, D_extra)"""
    out = []
    count = 150 if tier == "quick" else 2000
    for i in range(count):
        shape = SHAPES[i % len(SHAPES)]
        n = rng.choice([2, 3, 3, 4, 4, 4, 5])
        T = 1 if rng.random() < 0.05 else rng.choice([2, 3, 3, 4, 4, 4])
        recs = []
        if shape == "random":
            for _ in range(rng.randint(1, 8)):
                recs.append((_edge(n, rng.choice([1, 2, 2, 2, 3, 3, 4]), rng), rng.randrange(T)))
        elif shape == "persistent_order":          # one order never changes (sigma = 0), the others move
            e = _edge(n, rng.choice([2, 3]), rng)
            recs += [(e, t) for t in range(T)]
            for _ in range(rng.randint(0, 4)):
                f = _edge(n, rng.choice([2, 3, 4]), rng)
                if len(f) != len(e):
                    recs.append((f, rng.randrange(T)))
        elif shape == "alternating":               # present at the even times, another order at the odd times
            e, f = _edge(n, 2, rng), _edge(n, 3, rng)
            recs += [(e, t) for t in range(0, T, 2)] + [(f, t) for t in range(1, T, 2)]
            if rng.random() < 0.5:
                recs.append((_edge(n, 2, rng), rng.randrange(T)))
        elif shape == "order_with_gaps":           # every time has a hyperedge, each order misses some times
            for t in range(T):
                recs.append((_edge(n, 2 if t % 2 else 3, rng), t))
            for _ in range(rng.randint(0, 3)):
                recs.append((_edge(n, rng.choice([2, 3, 4]), rng), rng.randrange(T)))
        elif shape == "burst":                     # everything at one time, the other times empty (also the last ones)
            t0 = rng.randrange(T)
            for _ in range(rng.randint(1, 5)):
                recs.append((_edge(n, rng.choice([2, 2, 3, 4]), rng), t0))
        elif shape == "two_orders_shifted":        # order 2 repeats what order 1 did one step earlier: the gap is not 0
            T = max(T, 2)
            n = max(n, 3)
            for t in range(T - 1):
                if rng.random() < 0.7:
                    e = _edge(n, 2, rng)
                    extra = rng.choice([x for x in range(1, n + 1) if x not in e])
                    recs += [(e, t), (tuple(sorted(e + (extra,))), t + 1)]
            recs.append((_edge(n, 2, rng), rng.randrange(T)))
        else:                                      # two nodes share several hyperedges of one order at one time
            n = max(n, 4)
            a, b_ = rng.sample(range(1, n + 1), 2)
            others = [x for x in range(1, n + 1) if x not in (a, b_)]
            for t in range(T):
                for x in rng.sample(others, rng.randint(0, len(others))):
                    recs.append((tuple(sorted((a, b_, x))), t))
            recs.append(((min(a, b_), max(a, b_)), rng.randrange(T)))
        recs = sorted(set(recs))[:10]
        # T: last time with a hyperedge + 1, sometimes one more (a trailing time without hyperedge), never above 4
        last = max([t for _, t in recs], default=0)
        TT = min(4, max(last + 1, T if rng.random() < 0.6 else last + 1))
        out.append((n, recs, i % 3 == 0, FAMS[i % len(FAMS)], shape, TT, rng.random() < 0.2))
    return out


def _one(item, key):
    """build the object of one input with its own generator, observe it -> (case, description)"""
    rng = random.Random(key)
    n, recs, weighted, fam, shape, T, extra = item
    b = Binding("temp", LABEL_FAMILIES[fam](n), rng)
    obj = build_temp(b, n, [(tuple(e), t) for e, t in recs], weighted, rng)
    with quiet():
        if rng.random() < 0.3:
            obj.add_node(b.lab(rng.randint(1, n)))      # an isolated node is a row of zeros
        if len(list(obj.get_nodes())) == 0:
            obj.add_node(b.lab(1))
    st0 = b.state(obj)
    top = max([len(e["k"]["s"]) - 1 for e in st0["edges"]], default=0)
    D = max(1, min(3, top + (1 if extra else 0)))
    ann = "default" if int(key.rsplit("/", 1)[1]) % 6 == 5 else "given"
    c = observe(b, obj, rng, T, D, ann)
    d = {"n": len(c["st"]["nodes"]), "hyperedges": [[list(e), t] for e, t in recs], "weighted": weighted, "family": fam,
         "labels": b.labels, "shape": shape, "T": T, "D": D, "annealed": ann,
         "present": sorted([e["k"]["x"], e["k"]["s"]] for e in c["st"]["edges"]),
         "replay": {"item": json.loads(json.dumps(item)), "key": key}}
    return c, d


def _chunk(job):
    seed, start, items = job
    return [_one(it, "tcorr/%d/%d" % (seed, start + off)) for off, it in enumerate(items)]


def _observe(seed, items, pool, start=0):
    jobs = [(seed, start + i, items[i:i + 50]) for i in range(0, len(items), 50)]
    outs = pool.map(_chunk, jobs, chunksize=1) if pool is not None else [_chunk(j) for j in jobs]
    return [c for o in outs for c, _ in o], [d for o in outs for _, d in o]


# ---------------------------------------------------------------------------
def _records(c):
    for k in OF_FUNCTION:
        for r in c.get(k, []):
            yield k, r


def strip(c):
    return {k: v for k, v in c.items() if k not in ("st", "inA", "inAbar")}


def _nmats(r):
    return len(r.get("mats", [])) + (1 if "M" in r else 0)


def _digest(res, seed, cases, descr, v, agg):
    # smallest non-empty failing inputs first: the replay file of a signature holds the first rejection with that signature
    order = sorted(v["rejects"], key=lambda r: (len(descr[r[0]]["present"]) == 0, len(descr[r[0]]["present"]), descr[r[0]]["n"],
                                                 descr[r[0]]["T"], r[0]))
    for idx, failed in order:
        d, c = descr[idx], cases[idx]
        if any(cl.startswith("harness_input:") for cl in failed):
            raise tlc.TLCError("X06: the harness built a wrong input (%s) for %s" % (failed, d))
        byfn = {}
        for cl in failed:
            fn, _, aspect = cl.partition(":")
            byfn.setdefault(fn, []).append(aspect)
        what_in = "the %sTemporalHypergraph (time, nodes) %s on %d nodes labelled %s, T=%d, orders 1..%d" % (
            "weighted " if d["weighted"] else "", d["present"], d["n"], d["labels"], d["T"], d["D"])
        if d["annealed"] == "default":
            # one cause (the functions compute the average themselves), one signature
            raised = sorted({r.get("exc", "") for _, r in _records(c) if r.get("raised")})
            sig = {"annealed": "default", "clauses": sorted({a for asp in byfn.values() for a in asp})}
            res.reject(sig, "annealed_adjacency_matrices_all_orders=None (the default): %s disagree(s) with TempCorr.tla for %s%s"
                       % (",".join(sorted(failed)), what_in, (" [raised: %s]" % "; ".join(raised)[:300]) if raised else ""),
                       {"case": d, "seed": seed, "failed_clauses": failed, "logged": strip(c), "state": c["st"]})
            continue
        for fn, aspects in sorted(byfn.items()):
            raised = sorted({r.get("exc", "") for k, r in _records(c) if OF_FUNCTION[k] == fn and r.get("raised")})
            sig = {"function": fn, "clauses": sorted(aspects), "annealed": "given"}
            lags = sorted({r["tau"] for k, r in _records(c) if OF_FUNCTION[k] == fn})
            res.reject(sig, "%s: %s disagree(s) with TempCorr.tla for %s, called with lags %s%s"
                       % (fn, ",".join(sorted(aspects)), what_in, lags, (" [raised: %s]" % "; ".join(raised)[:300]) if raised else ""),
                       {"case": d, "seed": seed, "failed_clauses": failed, "logged": strip(c), "state": c["st"]})
    agg["cases"] += len(cases)
    agg["states"] += v["states"]
    agg["rejected_cases"] += len(v["rejects"])
    for c, d in zip(cases, descr):
        agg["fams"].add(d["family"])
        agg["weighted"] += 1 if d["weighted"] else 0
        agg["default"] += 1 if d["annealed"] == "default" else 0
        agg["shapes"][d["shape"]] = agg["shapes"].get(d["shape"], 0) + 1
        agg["TD"]["T=%d,D=%d" % (d["T"], d["D"])] = agg["TD"].get("T=%d,D=%d" % (d["T"], d["D"]), 0) + 1
        agg["inputs"].add(json.dumps([d["present"], d["T"], d["D"]]))
        times = {x for x, _ in d["present"]}
        agg["with_empty_time"] += 1 if len(times) < d["T"] else 0
        for k, r in _records(c):
            fn = OF_FUNCTION[k]
            agg["calls"][fn] = agg["calls"].get(fn, 0) + 1
            agg["mats"] += _nmats(r)
            if r.get("raised"):
                agg["raised"][fn] = agg["raised"].get(fn, 0) + 1
            if r.get("undefined"):
                agg["undefined"] += 1
            agg["undefined"] += len(r.get("undef", []))
            if k in ("gf",) and "v" in r and r["v"][0] != 0 and not r.get("raised"):
                agg["gap_nonzero"] += 1
            if k == "cf" and "v" in r and r["v"][0] < 0:
                agg["negative"] += 1


# ---------------------------------------------------------------------------
# the design
def _explore(res, tier):
    if tier == "quick":
        configs = [dict(n=3, xs=[0, 1, 2], maxkeys=3)]
    else:
        configs = [dict(n=3, xs=[0, 1, 2], maxkeys=5), dict(n=3, xs=[0, 1, 2, 3], maxkeys=3),
                   dict(n=3, xs=[0, 2], maxkeys=4), dict(n=4, xs=[0, 1, 2], maxkeys=2)]
    runs = []
    for cf_ in configs:
        c = C.consts("temp", False, n=cf_["n"], maxw=1, batches=False, metaops=False, xs=cf_["xs"])
        c["TCMaxKeys"] = cf_["maxkeys"]
        r = tlc.run("MC_TempCorr", tlc.cfg_text(c, invariants=["TypeOK", "TCDesign"], constraints=["Bound", "TCBound"]),
                    workers=4, timeout=2400, heap="4g")
        if not tlc.ok_exploration(r):
            raise tlc.TLCError("MC_TempCorr %s failed:\n%s" % (cf_, tlc.error_excerpt(r["out"])))
        s = tlc.stats(r["out"])
        res.cov(states=s["distinct"], transitions=s["generated"])
        runs.append(dict(cf_, module="MC_TempCorr", kind="temp", T=max(cf_["xs"]) + 1, states=s["distinct"],
                         transitions=s["generated"], wall_s=round(r["wall"], 1)))
    if tier != "quick":
        # non-vacuity: the exploration refutes an identity that does NOT follow from the definitions (|c(tau)| <= c(0))
        c = C.consts("temp", False, n=4, maxw=1, batches=False, metaops=False, xs=[0, 1, 2])
        c["TCMaxKeys"] = 3
        r = tlc.run("MC_TempCorr", tlc.cfg_text(c, invariants=["TCNaiveBound"], constraints=["Bound", "TCBound"]),
                    workers=4, timeout=2400, heap="4g")
        if tlc.ok_exploration(r) or "Invariant TCNaiveBound is violated" not in r["out"]:
            raise tlc.TLCError("MC_TempCorr: the false identity TCNaiveBound was NOT refuted:\n%s" % tlc.error_excerpt(r["out"]))
        res.cov(false_identities_refuted=["TCNaiveBound (|c_d(tau)| <= c_d(0)) on 4 nodes, 3 times, 3 hyperedges"])
    res.coverage.setdefault("explorations", []).extend(runs)
    res.coverage["invariants"] = ["TypeOK"] + DESIGN


def _validate(cases, procs):
    return K.run_cases("Trace_X06", cases, {"Kind": "temp"}, procs=procs, per_batch=min(60, max(8, len(cases) // procs + 1)))


def run(tier, seed):
    import concurrent.futures as cf
    res = Result("X06", tier, seed, "model_checking")
    rng = random.Random(seed)
    items = _inputs(tier, rng)
    agg = {"cases": 0, "states": 0, "rejected_cases": 0, "mats": 0, "weighted": 0, "default": 0, "fams": set(), "calls": {},
           "raised": {}, "shapes": {}, "TD": {}, "inputs": set(), "with_empty_time": 0, "undefined": 0, "gap_nonzero": 0,
           "negative": 0}
    pool = None
    if tier != "quick":
        import multiprocessing as mp
        pool = mp.get_context("fork").Pool(6)
    t_py = t_tlc = 0.0
    ex = cf.ThreadPoolExecutor(max_workers=2)
    try:
        fexp = ex.submit(_explore, res, tier)
        step = 150 if tier == "quick" else 500
        for start in range(0, len(items), step):
            t0 = time.time()
            cases, descr = _observe(seed * 100000, items[start:start + step], pool, start)
            t_py += time.time() - t0
            t0 = time.time()
            v = _validate(cases, 5 if tier == "quick" else 8)
            t_tlc += time.time() - t0
            _digest(res, seed, cases, descr, v, agg)
            res.sample({"input": descr[len(cases) // 2], "logged": strip(cases[len(cases) // 2])}, cap=3)
        fexp.result()
    finally:
        ex.shutdown(wait=True)
        if pool is not None:
            pool.close()
            pool.join()
    res.cov(traces_validated_against_impl=agg["cases"], cases_with_a_rejected_clause=agg["rejected_cases"],
            matrices_validated=agg["mats"], validator_states=agg["states"], weighted_cases=agg["weighted"],
            cases_with_default_annealed=agg["default"], label_families=len(agg["fams"]),
            distinct_inputs=len(agg["inputs"]), inputs_with_a_time_without_hyperedge=agg["with_empty_time"],
            undefined_normalised_values=agg["undefined"], nonzero_gap_values=agg["gap_nonzero"],
            negative_cross_correlations=agg["negative"], python_wall_s=round(t_py, 1), validator_wall_s=round(t_tlc, 1))
    res.coverage["calls_per_function"] = dict(sorted(agg["calls"].items()))
    res.coverage["calls_that_raised_per_function"] = dict(sorted(agg["raised"].items()))
    res.coverage["cases_per_shape"] = dict(sorted(agg["shapes"].items()))
    res.coverage["cases_per_T_and_D"] = dict(sorted(agg["TD"].items()))
    res.assume(
        "the input {order: {time: csc_array}} (orders 1..D, times 0..T-1, T <= 4, D <= 3, <= 5 nodes, one row numbering - a "
        "random permutation of the nodes - for all matrices) and the time averages are built by the harness from the abstract "
        "state of a real TemporalHypergraph (weights play no role in the counts); TLC checks them against TempAdjD / the "
        "average first ('harness_input:*': a failure there is a machinery failure, not a verdict); the library's helpers "
        "temporal_adjacency_matrices_all_orders / annealed_adjacency_matrices_all_orders are not used (X01 F48-F52)",
        "floats are sent to TLC as the exact fractions they stand for: Fraction(x).limit_denominator(%d) must reproduce x to 1e-9 "
        "(checked in Python; true denominators divide T^2 (T - tau) d1! d2! <= 2304), matrices over their common denominator; a "
        "value that is not such a rational is logged as an unusable return" % MAXDEN,
        "normalised values (cross function with normalized=True, gap function) are irrational in general: the harness multiplies "
        "the returned float by 2 sqrt(s1 s2), s1 and s2 being the sigmas (intra-order function at lag 0) the library itself "
        "returned for the same input, and TLC demands that product to be the exact rational c_{d1,d2}(tau) (resp. "
        "c_{d1,d2} - c_{d2,d1}) only when the logged sigmas are the specification's and both are positive; NaN / inf is accepted "
        "exactly when sigma_d1 sigma_d2 = 0 (0/0 is left open); the factor 2 sqrt(sigma_d1 sigma_d2) itself is the code's (the "
        "parameter 'normalized' has no docstring)",
        "lags 0 <= tau <= T - 1 only (T - tau = 0 divides by zero); max_order None or 1..D; order arguments within 1..D",
        "annealed_adjacency_matrices_all_orders=None (the default) is exercised on every sixth case and judged by the same "
        "clauses (X06-i) under a signature of its own ('annealed': 'default')",
        "the design identities hold for hyperedge COUNTS; |c_d(tau)| <= c_d(0) is not implied by the definitions (refuted by "
        "TLC in the thorough tier), (T - tau) |c_d(tau)| <= T c_d(0) is")
    return res.finish()


def replay(path):
    """re-build the input of a replay file, observe it again and print the failing clauses"""
    with open(path) as f:
        rp = json.load(f)
    r = rp["payload"]["case"]["replay"]
    it = r["item"]
    item = (it[0], [(tuple(e), t) for e, t in it[1]]) + tuple(it[2:])
    c, d = _one(item, r["key"])
    v = K.run_cases("Trace_X06", [c], {"Kind": "temp"}, procs=1)
    failed = [cl for _, fl in v["rejects"] for cl in fl]
    print("X06 replay %s: input %s T=%d D=%d annealed=%s" % (path, d["present"], d["T"], d["D"], d["annealed"]))
    for k, rec in _records(c):
        if rec.get("raised"):
            print("  %s raised: %s" % (OF_FUNCTION[k], rec["exc"]))
    print("  failing clauses: %s" % (failed or "none"))
    return 1 if failed else 0
