"""C02 - DirectedHypergraph faithfully stores (source set, target set) hyperedges."""
from checks.containers import run_container, explore_kimpl
from harness.verdict import Result


def run(tier, seed):
    res = Result("C02", tier, seed, "model_checking")
    explore_kimpl(res, "dir", tier)
    return run_container("C02", "dir", tier, seed, cc=False, res=res)


def replay(path):
    from checks.containers import replay_container
    return replay_container("C02", path)
