from checks.containers import run_container


def run(tier, seed):
    return run_container("C02", "dir", tier, seed, cc=False)


def replay(path):
    from checks.containers import replay_container
    return replay_container("C02", path)
