"""C04 - MultiplexHypergraph keeps (hyperedge, layer) records; aggregation sums layers."""
from checks.containers import run_container, explore, explore_kimpl
from harness.verdict import Result


def run(tier, seed):
    res = Result("C04", tier, seed, "model_checking")
    explore_kimpl(res, "mux", tier)
    explore(res, "mux", tier, module="MC_Derive", invariants=["TypeOK", "AggregatedIsSum"],
            configs=[dict(n=2, maxw=2, batches=False, metaops=False, xs=["L1", "L2"])])
    return run_container("C04", "mux", tier, seed, res=res, plan={"derive": ("mux", 0.6)})


def replay(path):
    from checks.containers import replay_container
    return replay_container("C04", path)
