"""C15 - Hy-MMSBM quantities equal their definitions; EM ascends, fixed inputs stay.

1. explore   TLC, exhaustive: MC_HyMMSBM (closed forms of the code = brute force over all possible
             hyperedges, for ALL integer (u, w) of a small universe) and MC_EMDriver (the monitor
             machine and two must-fail variants of its bookkeeping).
2. validate  closed forms on real HyMMSBM objects: integer (u, w) scaled by powers of two, weighted and
             unweighted hypergraphs under four label maps; TLC (Trace_C15) decides every returned value
             against the definitions of HyMMSBM.tla; Oracle_C15 returns the exact rationals, against which
             the raw floats and the Python transcription of Lambda / kappa are compared.
             Input families: scales near 1 and far from 1 (the same model with its scale moved between u
             and w), full affinities whose off-diagonal entries are tiny next to the diagonal (two-scale),
             and models with many nodes (N up to 64, Trace_C15L: definitions that need no enumeration).
3. monitor   fit() with the same seed and n_iter = 1..T, with u, w, both or none supplied; exact booleans
             and the likelihood computed from its definition are validated by TLC against EMDriver.
"""
import itertools
import json
import math
import random
from fractions import Fraction

import numpy as np

from harness import cases as K_
from harness import emtrace as EM
from harness import tlc
from harness.binding import LABEL_FAMILIES, quiet
from harness.verdict import Result

DEN = 10000          # spec denominators are <= 2160 for N <= 6 (lcm of the kappas times N)
REL = 1e-9
FAMS = ("ident", "sparse", "str", "zero")

MC_CONFIGS = {
    "quick": [dict(N=2, K=2, V=2), dict(N=3, K=2, V=2), dict(N=4, K=2, V=1), dict(N=3, K=3, V=1)],
    "thorough": [dict(N=2, K=2, V=2), dict(N=3, K=2, V=2), dict(N=4, K=2, V=2), dict(N=5, K=2, V=1), dict(N=3, K=3, V=1)],
}
# (eu, ew): u = U * 2^-eu, w = W * 2^-ew with the scale far from 1 (every entry of w, or of u, far below any absolute threshold)
SHIFTS = [(-20, 40), (0, 40), (-15, 45), (-30, 30), (20, -40), (18, 0), (0, -30), (30, -30), (-25, 50), (12, 12), (45, -90), (-45, 90), (40, 0)]
MC_INV = ["ClosedFormsEqualBruteForce", "KappaCountsPairs", "WSymmetric"]
EM_INV = ["BestIsMax", "BestIsEarliest", "Counts", "NeverBelowFirst", "IterationBound", "NoStuck"]


def single_threaded():
    """BLAS / OpenMP pools of 16 spinning threads make the tiny matrix products of the code under test 50x slower on a
    busy machine; the numerical results do not depend on the pool size"""
    try:
        from threadpoolctl import threadpool_limits
        return threadpool_limits(limits=1)
    except Exception:
        import contextlib
        return contextlib.nullcontext()


# ---------------------------------------------------------------------------------------------
# 1. exploration of the design
def explore_em(res):
    """MC_EMDriver: the faithful machine passes, the two bookkeeping mutants must be caught"""
    runs = []
    for consts, expect in ((dict(NReal=3, MaxIter=3, Every=1, MaxObj=2, Mut=0), None),
                           (dict(NReal=2, MaxIter=5, Every=2, MaxObj=2, Mut=0), None),
                           (dict(NReal=3, MaxIter=3, Every=1, MaxObj=2, Mut=1), "BestIs"),
                           (dict(NReal=3, MaxIter=3, Every=1, MaxObj=2, Mut=2), "BestIs")):
        r = tlc.run("MC_EMDriver", tlc.cfg_text(consts, invariants=EM_INV), workers=4, timeout=600)
        s = tlc.stats(r["out"]) or {"generated": 0, "distinct": 0}
        if expect is None:
            if not tlc.ok_exploration(r):
                raise tlc.TLCError("MC_EMDriver %s failed:\n%s" % (consts, tlc.error_excerpt(r["out"])))
            res.cov(states=s["distinct"], transitions=s["generated"])
        elif "Invariant %s" % expect not in r["out"]:          # BestIsMax or BestIsEarliest, whichever a worker meets first
            raise tlc.TLCError("MC_EMDriver mutant %s was not rejected by %s:\n%s" % (consts, expect, tlc.error_excerpt(r["out"])))
        runs.append({"module": "MC_EMDriver", "constants": consts, "states": s["distinct"], "transitions": s["generated"],
                     "expected": "a bookkeeping invariant is violated" if expect else "no error", "wall_s": round(r["wall"], 1)})
    return runs


def explore(res, tier):
    runs = []
    for c in MC_CONFIGS[tier]:
        r = tlc.run("MC_HyMMSBM", tlc.cfg_text(c, invariants=MC_INV), workers=16, timeout=3000, heap="8g")
        if not tlc.ok_exploration(r):
            raise tlc.TLCError("MC_HyMMSBM %s failed:\n%s" % (c, tlc.error_excerpt(r["out"])))
        s = tlc.stats(r["out"])
        want = (c["V"] + 1) ** (c["N"] * c["K"]) * (c["V"] + 1) ** (c["K"] * (c["K"] + 1) // 2)
        if s["distinct"] != want:
            raise tlc.TLCError("MC_HyMMSBM %s explored %d states, the parameter space has %d" % (c, s["distinct"], want))
        res.cov(states=s["distinct"], transitions=s["generated"])
        runs.append({"module": "MC_HyMMSBM", "constants": c, "states": s["distinct"], "transitions": s["generated"],
                     "wall_s": round(r["wall"], 1)})
    runs += explore_em(res)
    res.coverage.setdefault("explorations", []).extend(runs)
    res.coverage["invariants"] = MC_INV + EM_INV


# ---------------------------------------------------------------------------------------------
# Python transcription of the definitions of HyMMSBM.tla (floats; needed for the real-valued likelihood)
def lam_def(G, e):
    """Lambda(e) = sum over node pairs i < j of e of u_i^T w u_j ; G = u w u^T"""
    return sum(G[i, j] for i, j in itertools.combinations(sorted(e), 2))


def kappa_def(N, d):
    return math.comb(N - 2, d - 2) * (d * (d - 1) // 2)


def loglik_def(u, w, edges, weights, D):
    """exact Poisson log-likelihood: every possible hyperedge e with 2 <= |e| <= D is Poisson(Lambda(e) / kappa_|e|)"""
    N = u.shape[0]
    G = u @ w @ u.T
    tot = 0.0
    for d in range(2, D + 1):
        kd = kappa_def(N, d)
        tot -= sum(lam_def(G, e) for e in itertools.combinations(range(N), d)) / kd
    for e, a in zip(edges, weights):
        le = lam_def(G, e)
        if le <= 0:
            return -math.inf
        tot += a * math.log(le / kappa_def(N, len(e))) - math.lgamma(a + 1)
    return tot


def cmb(n, k):
    return math.comb(n, k) if 0 <= k <= n else 0


def exact_stats(U, W, N, ds):
    """the definitions (sums over ALL hyperedges of the sizes ds of Lambda / kappa) by counting, as exact Fractions over integer
    matrices: a pair {i, j} lies in C(N-2, d-2) hyperedges of size d, a node and a pair not containing it in C(N-3, d-3).
    Cross-checked against the brute force of HyMMSBM.tla (oracle mode) on every small case; used by itself where brute force
    is out of reach (many nodes).  -> (per-node expected degrees, average degree, {d: expected number of hyperedges})"""
    K = len(W)
    G = [[sum(U[i][a] * W[a][b] * U[j][b] for a in range(K) for b in range(K)) for j in range(N)] for i in range(N)]
    R = [sum(G[i][j] for j in range(N) if j != i) for i in range(N)]
    S = sum(G[i][j] for i in range(N) for j in range(i + 1, N))
    count = {d: Fraction(cmb(N - 2, d - 2) * S, kappa_def(N, d)) for d in ds}
    deg = [sum((Fraction(cmb(N - 2, d - 2) * R[i] + cmb(N - 3, d - 3) * (S - R[i]), kappa_def(N, d)) for d in ds), Fraction(0))
           for i in range(N)]
    return deg, sum(deg, Fraction(0)) / N, count


# ---------------------------------------------------------------------------------------------
# 2. closed forms on real objects
def frac(x, scale=1):
    """nearest fraction with denominator <= DEN of x * scale; clean iff it reproduces the float at REL"""
    xs = float(x) * scale
    if not math.isfinite(xs):
        return [0, 1], False
    f = Fraction(xs).limit_denominator(DEN)
    if abs(f.numerator) > 2 ** 31 - 1:          # cannot be a value of the specification (32-bit bounds): rejected here, not sent
        return [0, 1], False
    return [f.numerator, f.denominator], abs(float(f) - xs) <= REL * max(1.0, abs(xs))


def build_hypergraph(labels, edges, weights, rng, isolated_ok=True):
    from hypergraphx import Hypergraph
    lab = lambda i: labels[i - 1]
    el = []
    for e in edges:
        e = list(e)
        rng.shuffle(e)
        el.append(tuple(lab(i) for i in e))
    with quiet():
        h = Hypergraph(el, weighted=True, weights=list(weights)) if weights is not None else Hypergraph(el)
        for i in range(1, len(labels) + 1):
            h.add_node(lab(i))
    return h


def rows_of(h, labels):
    """row index of the incidence / membership matrices -> spec node id, through the public mapping"""
    from hypergraphx.linalg.linalg import binary_incidence_matrix
    inc, mapping = binary_incidence_matrix(h, return_mapping=True)
    inv = {l: i + 1 for i, l in enumerate(labels)}
    row2id = [inv[mapping[r]] for r in range(inc.shape[0])]
    return inc, row2id


def closed_form_case(rng, N, K, tier, idx):
    """build one model, call everything, log one case for Trace_C15 (+ the raw floats for the oracle comparison)"""
    from hypergraphx.communities.hy_mmsbm.model import HyMMSBM
    D = rng.randint(2, N)
    U = [[rng.randint(0, 3) for _ in range(K)] for _ in range(N)]
    diag = rng.random() < 0.4
    W = [[0] * K for _ in range(K)]
    for a in range(K):
        for b in range(a, K):
            W[a][b] = W[b][a] = 0 if (diag and a != b) else rng.randint(0, 3)
    # the model is built with u = U * 2^-eu and w = W * 2^-ew: every quantity linear in lambda is 2^-(2 eu + ew) times its
    # value for the integer matrices, EXACTLY (powers of two).  One case in four moves the scale far away from 1, in u, in w,
    # or from one into the other (the same model, e.g. u * 2^20 with w * 2^-40): no absolute threshold may matter
    eu, ew = rng.choice(SHIFTS) if rng.random() < 0.25 else (rng.choice([0, 0, 1, 2]), rng.choice([0, 0, 1, 2]))
    scale = 2.0 ** (2 * eu + ew)
    fam = FAMS[idx % 4]
    labels = LABEL_FAMILIES[fam](N)
    edges = []
    for _ in range(rng.randint(1, 7)):
        z = rng.randint(2, N)
        edges.append(tuple(sorted(rng.sample(range(1, N + 1), z))))
    edges = list(dict.fromkeys(edges))
    weights = [rng.randint(1, 4) for _ in edges] if rng.random() < 0.5 else None
    h = build_hypergraph(labels, edges, weights, rng)
    inc, row2id = rows_of(h, labels)
    id2row = {i: r for r, i in enumerate(row2id)}
    u = np.array([U[row2id[r] - 1] for r in range(N)], dtype=float) * 2.0 ** -eu
    w = np.array(W, dtype=float) * 2.0 ** -ew
    int_dtype = rng.random() < 0.15 and eu == 0 and ew == 0
    if int_dtype:
        u, w = u.astype(int), w.astype(int)
    c = {"N": N, "D": D, "u": U, "w": W, "eu": eu, "ew": ew}
    raw, unclean, raised = {}, [], []

    def fr(name, x, s=scale):
        f, ok = frac(x, s)
        if not ok and name not in unclean:
            unclean.append(name)
        return f

    with quiet():
        m = HyMMSBM(u=u, w=w, max_hye_size=D)
        # edges of the real hypergraph, in the column order of the incidence matrix
        cols = [sorted(row2id[r] for r in inc[:, [j]].nonzero()[0]) for j in range(inc.shape[1])]
        try:
            pp = m.poisson_params(inc if rng.random() < 0.5 else inc.toarray())
            c["edges"] = cols
            c["pp"] = [fr("poisson_params", x) for x in pp]
            raw["pp"] = [float(x) for x in pp]
        except Exception as ex:
            raised.append(("poisson_params", repr(ex)))
        # expected degrees: "all", one size, the non-dyadic sizes, an arbitrary array; degree_sequence(expected)
        asks = [("all", list(range(2, D + 1)))]
        d1 = rng.randint(2, D)
        asks.append((d1, [d1]))
        asks.append((np.arange(3, D + 1), list(range(3, D + 1))))
        sub = sorted(rng.sample(range(2, D + 1), rng.randint(1, D - 1)))
        asks.append((np.array(sub), sub))
        ed = []
        for arg, ds in asks:
            try:
                per = m.expected_degree(per_node=True, d=arg)
                avg = m.expected_degree(per_node=False, d=arg)
                per = [float(per[id2row[i]]) for i in range(1, N + 1)]
                ed.append({"ds": ds, "per": [fr("expected_degree_per_node", x) for x in per], "avg": fr("expected_degree_average", avg)})
                if isinstance(arg, str):
                    raw["deg"], raw["avg"] = per, float(avg)
            except Exception as ex:
                raised.append(("expected_degree(d=%s)" % (ds,), repr(ex)))
        for dy in (True, False):
            try:
                per = m.degree_sequence(include_dyadic=dy, expected=True)
                per = [float(per[id2row[i]]) for i in range(1, N + 1)]
                ed.append({"ds": list(range(2 if dy else 3, D + 1)), "per": [fr("expected_degree_per_node", x) for x in per]})
            except Exception as ex:
                raised.append(("degree_sequence(expected=True)", repr(ex)))
        c["ed"] = ed
        ds_ = []
        for dy in (True, False):
            try:
                got = m.dimension_sequence(include_dyadic=dy, expected=True)
                ds_.append({"dyadic": dy, "got": [[int(k), fr("dimension_sequence", v)] for k, v in got.items()]})
                if dy:
                    raw["count"] = {int(k): float(v) for k, v in got.items()}
            except Exception as ex:
                raised.append(("dimension_sequence", repr(ex)))
        c["dimseq"] = ds_
        kap = []
        try:
            for d in range(2, D + 1):
                kap.append([d, fr("kappa", math.exp(m.log_kappa(d)), 1)])
            arr = m.log_kappa(np.arange(2, D + 1))
            kap += [[d, fr("kappa", math.exp(x), 1)] for d, x in zip(range(2, D + 1), arr)]
            raw["kappa"] = [math.exp(m.log_kappa(d)) for d in range(2, D + 1)]
        except Exception as ex:
            raised.append(("log_kappa", repr(ex)))
        c["kappa"] = kap
        cc = []
        try:
            cc.append({"ds": list(range(2, D + 1)), "val": fr("C_constant", m.C(), 1)})
            cc.append({"ds": [d1], "val": fr("C_constant", m.C(d1), 1)})
            cc.append({"ds": sub, "val": fr("C_constant", m.C(np.array(sub)), 1)})
            for d, x in zip(sub, m.C(np.array(sub), return_summands=True)):
                cc.append({"ds": [d], "val": fr("C_constant", x, 1)})
        except Exception as ex:
            raised.append(("C", repr(ex)))
        c["C"] = cc
    descr = {"N": N, "K": K, "D": D, "u_int": U, "w_int": W, "u_times_2_to_the": -eu, "w_times_2_to_the": -ew, "labels": labels,
             "edges": edges, "weights": weights, "int_dtype": int_dtype}
    return c, raw, unclean, raised, descr


EPS_EXP = 27          # 2^-27 = 7.45e-9


def two_scale_case(rng, idx):
    """a FULL affinity whose off-diagonal entries are tiny next to its diagonal: w = (Wd + 2^-27 Wo) * 2^-ew with Wd diagonal
    (entries 0..2) and Wo off-diagonal (entries 0/1, not all 0).  Every quantity of the statement is linear in w, so its exact
    value is value(Wd) + 2^-27 value(Wo): TLC (oracle mode) evaluates the definitions on the two integer matrices.  The
    memberships are large next to the diagonal affinities so that the off-diagonal part of a result is visible at 1e-9."""
    from hypergraphx.communities.hy_mmsbm.model import HyMMSBM
    N, K = rng.randint(3, 6), rng.choice([2, 2, 3])
    D = rng.randint(2, N)
    U = [[rng.randint(0, 3) for _ in range(K)] for _ in range(N)]
    Wd = [[(rng.choice([0, 1, 1, 2]) if a == b else 0) for b in range(K)] for a in range(K)]
    Wo = [[0] * K for _ in range(K)]
    pairs = [(a, b) for a in range(K) for b in range(a + 1, K)]
    for a, b in pairs:
        Wo[a][b] = Wo[b][a] = rng.randint(0, 1)
    if not any(map(any, Wo)):
        a, b = rng.choice(pairs)
        Wo[a][b] = Wo[b][a] = 1
    eu, ew = rng.choice([(0, 0), (0, 0), (1, 0), (0, 2), (-3, 6)])
    labels = LABEL_FAMILIES[FAMS[idx % 4]](N)
    edges = list(dict.fromkeys(tuple(sorted(rng.sample(range(1, N + 1), rng.randint(2, N)))) for _ in range(rng.randint(1, 6))))
    h = build_hypergraph(labels, edges, None, rng)
    inc, row2id = rows_of(h, labels)
    id2row = {i: r for r, i in enumerate(row2id)}
    u = np.array([U[row2id[r] - 1] for r in range(N)], dtype=float) * 2.0 ** -eu
    w = (np.array(Wd, dtype=float) + np.array(Wo, dtype=float) * 2.0 ** -EPS_EXP) * 2.0 ** -ew
    raw, raised = {}, []
    cols = [sorted(row2id[r] for r in inc[:, [j]].nonzero()[0]) for j in range(inc.shape[1])]
    with quiet():
        m = HyMMSBM(u=u, w=w, max_hye_size=D)
        for name, f in (("pp", lambda: [float(x) for x in m.poisson_params(inc)]),
                        ("deg", lambda: [float(m.expected_degree(per_node=True)[id2row[i]]) for i in range(1, N + 1)]),
                        ("avg", lambda: float(m.expected_degree(per_node=False))),
                        ("count", lambda: {int(k): float(v) for k, v in m.dimension_sequence(include_dyadic=True, expected=True).items()})):
            try:
                raw[name] = f()
            except Exception as ex:
                raised.append((name, repr(ex)))
    alle = [list(e) for d in range(2, D + 1) for e in itertools.combinations(range(1, N + 1), d)]
    oc = [{"N": N, "D": D, "u": U, "w": W_, "edges": alle + cols, "nall": len(alle)} for W_ in (Wd, Wo)]
    descr = {"N": N, "K": K, "D": D, "u_int": U, "w_diagonal_int": Wd, "w_off_diagonal_int_times_2_to_the_minus_27": Wo,
             "u_times_2_to_the": -eu, "w_times_2_to_the": -ew, "labels": labels, "edges": edges, "two_scale": True}
    return descr, raw, raised, oc, 2.0 ** (2 * eu + ew)


def close(x, num, den):
    v = num / den
    return abs(x - v) <= REL * max(1.0, abs(v))


def validate_closed_forms(res, tier, rng):
    n_cases = 400 if tier == "quick" else 4000
    cases, raws, descr, extra = [], [], [], []
    for i in range(n_cases):
        N = 2 if i % 23 == 0 else rng.randint(3, 6)
        K = rng.randint(1, 3)
        c, raw, unclean, raised, d = closed_form_case(rng, N, K, tier, i)
        cases.append(c), raws.append(raw), descr.append(d), extra.append((unclean, raised))
    # self-test of the validator: a corrupted copy of a good case must be rejected, naming the clause
    k0 = next(i for i, c in enumerate(cases) if c.get("pp") and c["N"] > 2)
    bad = json.loads(json.dumps(cases[k0]))
    bad["pp"][0] = [bad["pp"][0][0] + bad["pp"][0][1], bad["pp"][0][1]]          # Lambda + 1
    bad["kappa"][0] = [bad["kappa"][0][0], [bad["kappa"][0][1][0] + 1, 1]]
    v = K_.run_cases("Trace_C15", cases + [bad], {}, procs=12)
    st = [f for i, f in v["rejects"] if i == len(cases)]
    if not st or not {"poisson_params", "kappa"} <= set(st[0]):
        raise tlc.TLCError("Trace_C15 self-test: a corrupted case was not rejected (%s)" % st)
    v["rejects"] = [(i, f) for i, f in v["rejects"] if i < len(cases)]
    rejected = {}
    for idx, failed in v["rejects"]:
        if "harness_bounds" in failed:
            raise tlc.TLCError("Trace_C15: case outside the 32-bit bounds of HyMMSBM.tla: %s" % descr[idx])
        rejected.setdefault(idx, set()).update(failed)
    raised_cases = 0
    for idx, (unclean, raised) in enumerate(extra):
        if unclean:
            rejected.setdefault(idx, set()).update(unclean)
        if raised:
            raised_cases += 1
            d = descr[idx]
            names = {"poisson_params": "poisson_params", "expected_degree": "expected_degree_per_node",
                     "degree_sequence": "expected_degree_per_node", "dimension_sequence": "dimension_sequence",
                     "log_kappa": "kappa", "C": "C_constant"}
            res.reject({"clauses": sorted({names[r[0].split("(")[0]] for r in raised}), "raised": True, "two_nodes": d["N"] == 2},
                       "HyMMSBM call(s) raised on valid parameters (N=%d, D=%d, u=%s*2^%d, w=%s*2^%d): %s"
                       % (d["N"], d["D"], d["u_int"], d["u_times_2_to_the"], d["w_int"], d["w_times_2_to_the"], sorted(set(raised))[:3]), {"case": d})
    # oracle mode: exact rationals from TLC; raw floats and the Python transcription compared in Python
    sel = list(range(len(cases))) if tier == "thorough" else list(range(0, len(cases), 2))
    ocases = []
    for idx in sel:
        c = cases[idx]
        alle = [list(e) for d in range(2, c["D"] + 1) for e in itertools.combinations(range(1, c["N"] + 1), d)]
        ocases.append({"N": c["N"], "D": c["D"], "u": c["u"], "w": c["w"], "edges": alle + c.get("edges", []), "nall": len(alle)})
    n_two = 60 if tier == "quick" else 600
    two = [two_scale_case(rng, i) for i in range(n_two)]
    n_small = len(ocases)
    for t in two:
        ocases += t[3]
    outs = []
    chunks = [ocases[i:i + 110] for i in range(0, len(ocases), 110)]
    import concurrent.futures as cf
    with cf.ThreadPoolExecutor(max_workers=8) as ex:
        for o in ex.map(lambda ch: EM.oracle("Oracle_C15", ch), chunks):
            outs += o
    drift = 0
    for idx, oc, o in zip(sel, ocases, outs):
        c, raw = cases[idx], raws[idx]
        s = 2.0 ** (2 * c["eu"] + c["ew"])
        # (a) the transcription used for the likelihood agrees with TLC on these integer inputs (else: machinery failure)
        G = np.array(c["u"], dtype=float) @ np.array(c["w"], dtype=float) @ np.array(c["u"], dtype=float).T
        for e, l in zip(oc["edges"][:oc["nall"]], o["lam"]):
            if lam_def(G, [i - 1 for i in e]) != l:
                drift += 1
        for d, k in zip(range(2, c["D"] + 1), o["kappa"]):
            if kappa_def(c["N"], d) != k:
                drift += 1
        xdeg, xavg, xcount = exact_stats(c["u"], c["w"], c["N"], range(2, c["D"] + 1))
        if ([Fraction(*x) for x in o["deg"]] != xdeg or Fraction(*o["avg"]) != xavg
                or [Fraction(*x) for x in o["count"]] != [xcount[d] for d in range(2, c["D"] + 1)]):
            drift += 1
        # (b) the implementation's floats against the exact values
        bad = set()
        if "pp" in raw:
            for x, l in zip(raw["pp"], o["lam"][oc["nall"]:]):
                if not close(x * s, l, 1):
                    bad.add("poisson_params")
        if "deg" in raw:
            for x, (n_, d_) in zip(raw["deg"], o["deg"]):
                if not close(x * s, n_, d_):
                    bad.add("expected_degree_per_node")
            if not close(raw["avg"] * s, *o["avg"]):
                bad.add("expected_degree_average")
        if "count" in raw:
            for d, (n_, d_) in zip(range(2, c["D"] + 1), o["count"]):
                got = raw["count"].get(d)
                if (got is None) != (n_ == 0) or (got is not None and not close(got * s, n_, d_)):
                    bad.add("dimension_sequence")
        if "kappa" in raw:
            for x, k in zip(raw["kappa"], o["kappa"]):
                if not close(x, k, 1):
                    bad.add("kappa")
        if bad:
            rejected.setdefault(idx, set()).update(bad)
    # the two-scale affinities: exact value = value(Wd) + 2^-27 value(Wo), floats compared at 1e-9 * max(1, |value|)
    two_rejected = 0
    eps = Fraction(1, 2 ** EPS_EXP)
    for k, (d, raw, raised, oc, s) in enumerate(two):
        od, oo = outs[n_small + 2 * k], outs[n_small + 2 * k + 1]
        mix = lambda a, b: Fraction(*a) + eps * Fraction(*b) if isinstance(a, list) else a + eps * b
        nall, bad = oc[0]["nall"], set()
        cl = lambda x, xv: abs(x * s - float(xv)) <= REL * max(1.0, abs(float(xv)))
        if "pp" in raw and not all(cl(x, mix(a, b)) for x, a, b in zip(raw["pp"], od["lam"][nall:], oo["lam"][nall:])):
            bad.add("poisson_params")
        if "deg" in raw and not all(cl(x, mix(a, b)) for x, a, b in zip(raw["deg"], od["deg"], oo["deg"])):
            bad.add("expected_degree_per_node")
        if "avg" in raw and not cl(raw["avg"], mix(od["avg"], oo["avg"])):
            bad.add("expected_degree_average")
        if "count" in raw:
            for dd, a, b in zip(range(2, d["D"] + 1), od["count"], oo["count"]):
                xv, got = mix(a, b), raw["count"].get(dd)
                if (got is None) != (xv == 0) or (got is not None and not cl(got, xv)):
                    bad.add("dimension_sequence")
        if raised:
            res.reject({"clauses": sorted({"pp": "poisson_params", "deg": "expected_degree_per_node", "avg": "expected_degree_average",
                                           "count": "dimension_sequence"}[r[0]] for r in raised), "raised": True, "two_nodes": False},
                       "HyMMSBM call(s) raised on valid parameters (N=%d, w = diagonal + tiny off-diagonal): %s" % (d["N"], raised[:3]), {"case": d})
        if bad:
            two_rejected += 1
            res.reject({"clauses": sorted(bad), "raised": False, "two_nodes": False},
                       "HyMMSBM value(s) %s differ from the definition for a full affinity with tiny off-diagonal entries: N=%d K=%d D=%d "
                       "u=%s*2^%d w=(%s + 2^-27*%s)*2^%d" % (",".join(sorted(bad)), d["N"], d["K"], d["D"], d["u_int"], d["u_times_2_to_the"],
                                                           d["w_diagonal_int"], d["w_off_diagonal_int_times_2_to_the_minus_27"], d["w_times_2_to_the"]),
                       {"case": d, "returned": raw})
    res.cov(two_scale_cases=len(two), two_scale_cases_rejected=two_rejected,
            scale_shifted_cases=sum(1 for c in cases if abs(2 * c["eu"] + c["ew"]) > 8 or abs(c["ew"]) > 8))
    if drift:
        raise tlc.TLCError("the Python transcription of Lambda / kappa / the counting form of the expected statistics disagrees "
                           "with HyMMSBM.tla on %d integer inputs" % drift)
    for idx, failed in sorted(rejected.items()):
        d = descr[idx]
        res.reject({"clauses": sorted(failed), "raised": False, "two_nodes": d["N"] == 2},
                   "HyMMSBM value(s) %s differ from the definition (sum over all possible hyperedges) for N=%d K=%d D=%d u=%s*2^%d w=%s*2^%d"
                   % (",".join(sorted(failed)), d["N"], d["K"], d["D"], d["u_int"], d["u_times_2_to_the"], d["w_int"], d["w_times_2_to_the"]),
                   {"case": d, "logged": cases[idx]})
    res.cov(traces_validated_against_impl=len(cases), validator_states=v["states"], oracle_cases=len(ocases),
            closed_form_cases_rejected=len(rejected), calls_raised=raised_cases, validator_selftests=1,
            closed_form_values_checked=sum(len(c.get("pp", [])) + sum(len(r["per"]) + 1 for r in c["ed"]) +
                                           sum(len(r["got"]) for r in c["dimseq"]) + len(c["kappa"]) + len(c["C"]) for c in cases))
    res.sample({"closed_form_case": descr[-1], "logged": {k: cases[-1][k] for k in ("pp", "dimseq", "kappa") if k in cases[-1]}})


# ---------------------------------------------------------------------------------------------
# 2b. closed forms with MANY nodes (the statement quantifies over all N; brute force stops at N = 6)
MANY_N = [7, 9, 12, 16, 20, 22, 23, 24, 25, 27, 30, 34, 40, 48, 56, 64]
INT31 = 2 ** 31 - 1


def many_labels(fam, N, rng):
    if fam == "ident":
        return list(range(1, N + 1))
    if fam == "zero":
        return list(range(N))
    if fam == "str":
        out = ["n%d" % i if i % 3 else "node-%02d" % i for i in range(N)]
    else:
        out = rng.sample(range(1, 10 * N), N)
    rng.shuffle(out)
    return out


def kappa_fits(N, d):
    """Kappa(N, d) of HyMMSBM.tla stays within TLC's 32-bit integers (Binom(n, k) multiplies Binom(n-1, k-1) by n first)"""
    return kappa_def(N, d) <= INT31 and cmb(N - 2, d - 2) * max(1, d - 2) <= INT31 and cmb(N - 2, d - 2) * (N - 2) <= INT31


def many_nodes_case(rng, idx):
    from hypergraphx.communities.hy_mmsbm.model import HyMMSBM
    N = MANY_N[idx % len(MANY_N)]
    K = rng.randint(1, 3)
    D = rng.choice([N, N, N - 1, rng.randint(max(2, N - 6), N), rng.randint(2, N)])
    U = [[rng.choice([0, 0, 1, 1, 2, 3]) for _ in range(K)] for _ in range(N)]
    diag = rng.random() < 0.4
    W = [[0] * K for _ in range(K)]
    for a in range(K):
        for b in range(a, K):
            W[a][b] = W[b][a] = 0 if (diag and a != b) else rng.randint(0, 3)
    eu, ew = rng.choice(SHIFTS) if rng.random() < 0.25 else (rng.choice([0, 0, 1, 2]), rng.choice([0, 0, 1, 2]))
    scale = 2.0 ** (2 * eu + ew)
    fam = FAMS[(idx // len(MANY_N)) % 4]
    labels = many_labels(fam, N, rng)
    edges = []
    for _ in range(rng.randint(2, 8)):
        z = rng.choice([2, 3, rng.randint(2, N), rng.randint(max(2, N - 3), N)])
        edges.append(tuple(sorted(rng.sample(range(1, N + 1), z))))
    edges = list(dict.fromkeys(edges))
    weights = [rng.randint(1, 4) for _ in edges] if rng.random() < 0.5 else None
    h = build_hypergraph(labels, edges, weights, rng)
    inc, row2id = rows_of(h, labels)
    id2row = {i: r for r, i in enumerate(row2id)}
    u = np.array([U[row2id[r] - 1] for r in range(N)], dtype=float) * 2.0 ** -eu
    w = np.array(W, dtype=float) * 2.0 ** -ew
    c = {"N": N, "D": D, "u": U, "w": W, "eu": eu, "ew": ew}
    raw, unclean, raised = {}, [], []

    def fr(name, x, s_=scale):
        f, ok = frac(x, s_)
        if not ok and name not in unclean:
            unclean.append(name)
        return f

    d1 = rng.randint(2, D)
    dsel = sorted({2, D, d1, rng.randint(2, D)})
    with quiet():
        m = HyMMSBM(u=u, w=w, max_hye_size=D)
        cols = [sorted(row2id[r] for r in inc[:, [j]].nonzero()[0]) for j in range(inc.shape[1])]
        try:
            pp = m.poisson_params(inc if rng.random() < 0.5 else inc.toarray())
            c["edges"] = cols
            c["pp"] = [fr("poisson_params", x) for x in pp]
        except Exception as ex:
            raised.append(("poisson_params", repr(ex)))
        try:
            one = [float(m.log_kappa(d)) for d in range(2, D + 1)]
            arr = [float(x) for x in m.log_kappa(np.arange(2, D + 1))]
            raw["log_kappa"] = [one, arr]
            c["kappa"] = [[d, fr("kappa", math.exp(x), 1)] for lst in (one, arr) for d, x in zip(range(2, D + 1), lst)
                          if kappa_fits(N, d) and math.isfinite(x) and x < 21.4]          # (a wrong value beyond 31 bits is left to the log-space comparison)
        except Exception as ex:
            raised.append(("log_kappa", repr(ex)))
        try:
            c["C"] = [{"d": d, "val": fr("C_constant", m.C(d), 1)} for d in dsel if kappa_fits(N, d)]
            c["C"] += [{"d": d, "val": fr("C_constant", x, 1)} for d, x in zip(dsel, m.C(np.array(dsel), return_summands=True)) if kappa_fits(N, d)]
        except Exception as ex:
            raised.append(("C", repr(ex)))
        raw["deg"] = []
        c["avg"] = []
        for arg, ds in (("all", list(range(2, D + 1))), (d1, [d1]), (np.array(dsel), dsel)):
            try:
                per = m.expected_degree(per_node=True, d=arg)
                avg = float(m.expected_degree(per_node=False, d=arg))
                raw["deg"].append({"ds": ds, "per": [float(per[id2row[i]]) for i in range(1, N + 1)], "avg": avg})
                if len(ds) == 1:
                    c["avg"].append({"d": ds[0], "val": fr("expected_degree_average", avg)})
            except Exception as ex:
                raised.append(("expected_degree(d=%s)" % (ds,), repr(ex)))
        c["dimseq"] = []
        for dy in (True, False):
            try:
                got = m.dimension_sequence(include_dyadic=dy, expected=True)
                c["dimseq"].append({"dyadic": dy, "got": [[int(k), fr("dimension_sequence", v)] for k, v in got.items()]})
                if dy:
                    raw["count"] = {int(k): float(v) for k, v in got.items()}
            except Exception as ex:
                raised.append(("dimension_sequence", repr(ex)))
    descr = {"N": N, "K": K, "D": D, "u_int": U, "w_int": W, "u_times_2_to_the": -eu, "w_times_2_to_the": -ew, "labels": labels,
             "edges": edges, "weights": weights, "many_nodes": True}
    return c, raw, unclean, raised, descr, scale


def validate_many_nodes(res, tier, rng):
    n_cases = 64 if tier == "quick" else 640
    built = [many_nodes_case(rng, i) for i in range(n_cases)]
    cases = [b[0] for b in built]
    k0 = next(i for i, c in enumerate(cases) if c.get("pp") and c.get("kappa"))
    bad = json.loads(json.dumps(cases[k0]))
    bad["pp"][0] = [bad["pp"][0][0] + bad["pp"][0][1], bad["pp"][0][1]]
    bad["kappa"][0] = [bad["kappa"][0][0], [bad["kappa"][0][1][0] + 1, 1]]
    v = K_.run_cases("Trace_C15L", cases + [bad], {}, procs=4)
    st = [f for i, f in v["rejects"] if i == len(cases)]
    if not st or not {"poisson_params", "kappa"} <= set(st[0]):
        raise tlc.TLCError("Trace_C15L self-test: a corrupted case was not rejected (%s)" % st)
    rejected = {}
    for idx, failed in v["rejects"]:
        if idx < len(cases):
            if "harness_bounds" in failed:
                raise tlc.TLCError("Trace_C15L: case outside the bounds: %s" % built[idx][4])
            rejected.setdefault(idx, set()).update(failed)
    n_kappa = n_big = 0
    for idx, (c, raw, unclean, raised, d, s) in enumerate(built):
        bad = set(unclean)
        N, D = c["N"], c["D"]
        # kappa: exact integer C(N-2, d-2) d (d-1) / 2 (cross-checked with Kappa of HyMMSBM.tla wherever that fits), in log space
        for lst in raw.get("log_kappa", []):
            for dd, x in zip(range(2, D + 1), lst):
                ref = math.log(kappa_def(N, dd))
                n_kappa += 1
                n_big += not kappa_fits(N, dd)
                if not (math.isfinite(x) and abs(x - ref) <= REL * max(1.0, abs(ref))):
                    bad.add("kappa")
        for r in raw.get("deg", []):
            xdeg, xavg, _ = exact_stats(c["u"], c["w"], N, r["ds"])
            if not all(close(x * s, v_.numerator, v_.denominator) for x, v_ in zip(r["per"], xdeg)):
                bad.add("expected_degree_per_node")
            if not close(r["avg"] * s, xavg.numerator, xavg.denominator):
                bad.add("expected_degree_average")
        if "count" in raw:
            xcount = exact_stats(c["u"], c["w"], N, range(2, D + 1))[2]
            for dd in range(2, D + 1):
                got = raw["count"].get(dd)
                if (got is None) != (xcount[dd] == 0) or (got is not None and not close(got * s, xcount[dd].numerator, xcount[dd].denominator)):
                    bad.add("dimension_sequence")
        if bad:
            rejected.setdefault(idx, set()).update(bad)
        if raised:
            names = {"poisson_params": "poisson_params", "expected_degree": "expected_degree_per_node", "dimension_sequence": "dimension_sequence",
                     "log_kappa": "kappa", "C": "C_constant"}
            res.reject({"clauses": sorted({names[r[0].split("(")[0]] for r in raised}), "raised": True, "two_nodes": False},
                       "HyMMSBM call(s) raised on valid parameters (N=%d, D=%d): %s" % (N, D, sorted(set(raised))[:3]), {"case": d})
    for idx, failed in sorted(rejected.items()):
        d = built[idx][4]
        res.reject({"clauses": sorted(failed), "raised": False, "two_nodes": False},
                   "HyMMSBM value(s) %s differ from the definition (sum over all possible hyperedges, by counting) for N=%d K=%d D=%d "
                   "u=%s*2^%d w=%s*2^%d" % (",".join(sorted(failed)), d["N"], d["K"], d["D"], d["u_int"], d["u_times_2_to_the"], d["w_int"],
                                           d["w_times_2_to_the"]),
                   {"case": d, "logged": {k: v_ for k, v_ in cases[idx].items() if k not in ("u", "w")}, "returned": built[idx][1]})
    res.cov(many_nodes_cases=len(cases), many_nodes_cases_rejected=len(rejected), many_nodes_validator_states=v["states"],
            kappa_values_checked_in_log_space=n_kappa, kappa_values_beyond_32_bits=n_big, validator_selftests=1,
            many_nodes_values_decided_by_tlc=sum(len(c.get("pp", [])) + len(c.get("kappa", [])) + len(c.get("C", [])) + len(c.get("avg", []))
                                                 + sum(len(r["got"]) for r in c.get("dimseq", [])) for c in cases))


# ---------------------------------------------------------------------------------------------
# 3. fit() monitor
def fit_config(rng, i, tier):
    N = rng.randint(4, 7)
    K = rng.choice([2, 2, 3])
    n_e = rng.randint(3, 9)
    edges = []
    for _ in range(n_e):
        z = rng.randint(2, min(4, N))
        edges.append(tuple(sorted(rng.sample(range(1, N + 1), z))))
    edges = list(dict.fromkeys(edges))
    weights = [rng.randint(1, 3) for _ in edges] if rng.random() < 0.5 else None
    supplied = ["u", "u", "u", "uw", "w", "none"][i % 6]
    prior_kind = ["one", "zero", "small", "zero", "array", "one"][(i // 6) % 6] if "u" in supplied else rng.choice(["one", "zero"])
    return {"N": N, "K": K, "edges": edges, "weights": weights, "supplied": supplied, "assortative": rng.random() < 0.5,
            "prior_kind": prior_kind, "u_prior": rng.choice([0.0, 0.0, 1.0]), "seed": rng.randrange(10 ** 6),
            "family": FAMS[i % 4], "explicit_D": rng.random() < 0.3,
            "tolerance": 1e-4 if (i % 11 == 10) else None}


def run_fit_config(cfg, T):
    """fit with the same seed and n_iter = 1..T; returns the EMDriver trace, and the float sequences"""
    from hypergraphx.communities.hy_mmsbm.model import HyMMSBM
    N, K = cfg["N"], cfg["K"]
    rng = random.Random(cfg["seed"])
    nrng = np.random.default_rng(cfg["seed"])
    labels = LABEL_FAMILIES[cfg["family"]](N)
    h = build_hypergraph(labels, cfg["edges"], cfg["weights"], rng)
    inc, row2id = rows_of(h, labels)
    E = [tuple(int(r) for r in inc[:, [j]].nonzero()[0]) for j in range(inc.shape[1])]     # row indices per column
    A = [float(x) for x in h.get_weights()]
    u0 = nrng.random((N, K)) + 0.05 if "u" in cfg["supplied"] else None
    w0 = None
    if "w" in cfg["supplied"]:
        w0 = nrng.random((K, K)) + 0.05
        w0 = np.triu(w0, 0) + np.triu(w0, 1).T
        if cfg["assortative"]:
            w0 = np.diag(np.diag(w0))
    if cfg["prior_kind"] == "array":
        p = nrng.random((K, K)) + 0.2
        w_prior = np.triu(p, 0) + np.triu(p, 1).T
    else:
        w_prior = {"one": 1.0, "zero": 0.0, "small": 0.3}[cfg["prior_kind"]]
    Dfix = max(len(e) for e in cfg["edges"]) + (1 if max(len(e) for e in cfg["edges"]) < N else 0) if cfg["explicit_D"] else None
    ev = [{"ev": "start", "r": 0}]
    Ls, Ms, raised = [], [], None
    for t in range(1, T + 1):
        ua = None if u0 is None else u0.copy()
        wa = None if w0 is None else w0.copy()
        with quiet():
            np.random.seed(cfg["seed"] % (2 ** 32))
            random.seed(cfg["seed"])
            try:
                m = HyMMSBM(K=K, u=ua, w=wa, assortative=cfg["assortative"], max_hye_size=Dfix,
                            u_prior=cfg["u_prior"], w_prior=w_prior if not isinstance(w_prior, np.ndarray) else w_prior.copy(),
                            seed=cfg["seed"])
                kw = {} if cfg["tolerance"] is None else {"tolerance": cfg["tolerance"], "check_convergence_every": 2}
                m.fit(h, n_iter=t, **kw)
            except Exception as ex:
                raised = (t, repr(ex))
                break
        u, w = np.asarray(m.u), np.asarray(m.w)
        fin = bool(np.all(np.isfinite(u)) and np.all(np.isfinite(w)))
        wmax = max(1.0, float(np.max(np.abs(w)))) if fin else 1.0
        # symmetry / diagonality are judged on finite matrices only (a NaN is reported once, as finite_nonnegative)
        f = {"uSame": u0 is None or (np.array_equal(u, u0) and np.array_equal(ua, u0) and u.dtype == u0.dtype),
             "wSame": w0 is None or (np.array_equal(w, w0) and np.array_equal(wa, w0) and w.dtype == w0.dtype),
             "finite": fin,
             "nonneg": bool((not fin) or (np.all(u >= -1e-12) and np.all(w >= -1e-12))),
             "wsym": bool(w.shape == (K, K) and ((not fin) or np.all(np.abs(w - w.T) <= 1e-9 * wmax))),
             "wdiag": bool(w.shape == (K, K) and ((not fin) or np.all(np.abs(w - np.diag(np.diag(w))) <= 1e-12 * wmax)))}
        f = {k: bool(v) for k, v in f.items()}
        e = {"ev": "step", "r": 0, "it": t - 1, "conv": False, "f": f, "obj": 0, "objx": 0}
        if u0 is not None and f["finite"]:
            L = loglik_def(u, w, E, A, m.max_hye_size)
            # MAP objective of the EM: likelihood minus the exponential-prior term on the affinity the EM iterates
            # (fit divides the inferred w by C at the end: w_iterated = C * w_returned)
            wt = w * m.C() if w0 is None else w
            M = L - float(np.sum(np.asarray(w_prior) * wt))
            Ls.append(L), Ms.append(M)
        ev.append(e)
    if Ls and len(Ls) == len(ev) - 1 and all(math.isfinite(x) or x == -math.inf for x in Ls + Ms) and not any(math.isnan(x) for x in Ls + Ms):
        o, ox = EM.ranks(Ls)
        a, _ = EM.ranks(Ms)
        for e, o_, ox_, a_ in zip(ev[1:], o, ox, a):
            e["obj"], e["objx"], e["aux"] = o_, ox_, a_
    ev += [{"ev": "end", "r": 0}, {"ev": "return"}]
    ascent = u0 is not None and bool(Ls) and len(Ls) == len(ev) - 3
    tr = {"cfg": {"nReal": 1, "maxIter": len(ev) - 3, "every": 1, "ascent": ascent, "fixedU": u0 is not None,
                  "fixedW": w0 is not None, "assortative": bool(cfg["assortative"])}, "ev": ev}
    info = {"L": Ls, "MAP": Ms, "raised": raised, "w_prior": w_prior.tolist() if isinstance(w_prior, np.ndarray) else w_prior,
            "u": None if u0 is None else u0.tolist(), "w": None if w0 is None else w0.tolist(),
            "w_prior_positive": bool(np.any(np.asarray(w_prior) > 0)), "edges_rows": E, "edge_weights": A}
    return tr, info


def validate_fit(res, tier, rng, only=None, T=None):
    n_cfg = 150 if tier == "quick" else 1600
    T = T or (12 if tier == "quick" else 16)
    cfgs = [fit_config(rng, i, tier) for i in range(n_cfg)] if only is None else only
    traces, infos = [], []
    for cfg in cfgs:
        tr, info = run_fit_config(cfg, T)
        traces.append(tr), infos.append(info)
    # self-test of the validator: corrupted copies of a good trace must be rejected, naming the clause
    selft = []
    k0 = next((i for i, tr in enumerate(traces) if tr["cfg"]["ascent"] and len(tr["ev"]) > 5), None)
    if k0 is not None and only is None:
        a = json.loads(json.dumps(traces[k0]))
        a["ev"][3]["obj"] = a["ev"][2]["obj"] - 1
        b = json.loads(json.dumps(traces[k0]))
        b["ev"][2]["f"]["uSame"] = False
        c = json.loads(json.dumps(traces[k0]))
        del c["ev"][2]                                     # a dropped event: the iteration order breaks
        selft = [(a, "likelihood_ascent"), (b, "fixed_parameters_stay"), (c, "m:iteration_order")]
    v = EM.run_traces(traces + [x for x, _ in selft], procs=12)
    for j, (_, clause) in enumerate(selft):
        if not any(t == len(traces) + j and clause in f for t, _, f in v["rejects"]):
            raise tlc.TLCError("Trace_EM self-test: corrupted trace %d was not rejected with %s" % (j, clause))
    v["rejects"] = [r for r in v["rejects"] if r[0] < len(traces)]
    by_trace = {}
    for t, l, failed in v["rejects"]:
        by_trace.setdefault(t, []).append((l, failed))
    n_known_shape = 0
    for t, cfg in enumerate(cfgs):
        info = infos[t]
        if info["raised"]:
            res.reject({"clauses": ["fit_raised"], "supplied": cfg["supplied"]},
                       "HyMMSBM.fit raised at n_iter=%d: %s" % info["raised"], {"config": cfg})
        if t not in by_trace:
            continue
        rj = by_trace[t]
        map_desc = any("map_ascent" in f for _, f in rj)
        payload = {"config": cfg, "n_iter": list(range(1, len(info["L"]) + 1)), "loglik_from_definition": info["L"],
                   "map_objective": info["MAP"], "w_prior": info["w_prior"], "supplied_u_rows": info["u"], "supplied_w": info["w"],
                   "edges_as_rows": info["edges_rows"], "edge_weights": info["edge_weights"], "rejected_events": rj}
        asc = [(l, f) for l, f in rj if "likelihood_ascent" in f]
        if asc:
            l = asc[0][0]                 # event index: 0 = start, k = step n_iter=k
            sig = {"clauses": ["likelihood_ascent"], "w_prior": "positive" if info["w_prior_positive"] else "zero",
                   "map_objective": "descends" if map_desc else "ascends"}
            if sig["w_prior"] == "positive" and not map_desc:
                n_known_shape += 1
            res.reject(sig, "with u supplied, the exact Poisson log-likelihood (from the definition) under the w inferred by fit() "
                            "drops from %.12g (n_iter=%d) to %.12g (n_iter=%d), same seed %d; w_prior=%s, MAP objective %s"
                       % (info["L"][l - 2], l - 1, info["L"][l - 1], l, cfg["seed"], info["w_prior"],
                          "also decreases" if map_desc else "still ascends"), payload)
        others = sorted({c for _, f in rj for c in f if c not in ("likelihood_ascent",) and not c.startswith("m:")})
        if map_desc and not asc:
            pass                          # reported through `others` (map_ascent)
        if others:
            res.reject({"clauses": others, "supplied": cfg["supplied"]},
                       "fit() broke %s (supplied=%s, assortative=%s, seed=%d)" % (",".join(others), cfg["supplied"], cfg["assortative"], cfg["seed"]),
                       payload)
        model = sorted({c for _, f in rj for c in f if c.startswith("m:")})
        if model:
            raise tlc.TLCError("Trace_EM: the harness produced an ill-formed C15 trace (%s): %s" % (model, cfg))
    n_asc = sum(1 for tr in traces if tr["cfg"]["ascent"])
    res.cov(fit_traces=len(traces), fit_runs=sum(len(tr["ev"]) - 3 for tr in traces), em_events=v["events"], em_validator_states=v["states"],
            ascent_traces=n_asc, ascent_traces_w_prior_zero=sum(1 for tr, i in zip(traces, infos) if tr["cfg"]["ascent"] and not i["w_prior_positive"]),
            likelihood_decreases_with_positive_prior=n_known_shape, validator_selftests=len(selft))
    k = next((i for i, tr in enumerate(traces) if tr["cfg"]["ascent"]), 0)
    res.sample({"fit_config": cfgs[k], "loglik_from_definition": infos[k]["L"], "map_objective": infos[k]["MAP"]})
    return traces, infos


def run(tier, seed):
    res = Result("C15", tier, seed, "model_checking")
    rng = random.Random(seed * 1000003 + 15)
    import time
    t0 = time.time()
    explore(res, tier)
    t1 = time.time()
    with single_threaded():
        validate_closed_forms(res, tier, rng)
        validate_many_nodes(res, tier, random.Random(seed * 1000003 + 1515))
        t2 = time.time()
        validate_fit(res, tier, rng)
    res.coverage["phase_wall_s"] = {"explore": round(t1 - t0, 1), "closed_forms": round(t2 - t1, 1), "fit_monitor": round(time.time() - t2, 1)}
    res.assume(
        "closed forms: parameters are integer matrices (entries 0..3, N <= 6, K <= 3) times powers of two (u * 2^-eu, w * 2^-ew; one case "
        "in four with the scale far from 1, |exponent| up to 90, moved into u, into w or from one into the other); a returned float times the "
        "(power of two) scale is converted to the nearest fraction with denominator <= %d, which must reproduce it within 1e-9*max(1,|x|); "
        "TLC decides equality of the fractions with the definitions exactly" % DEN,
        "two-scale affinities w = (Wd + 2^-27 Wo) * 2^-ew (diagonal Wd, off-diagonal 0/1 Wo): every quantity is linear in w, TLC (oracle mode) "
        "evaluates the definitions on Wd and on Wo, the floats are compared with value(Wd) + 2^-27 value(Wo) at 1e-9*max(1,|x|)",
        "many nodes (N = 7..64, D up to N): brute force over all hyperedges is out of reach. TLC decides (Trace_C15L) the Poisson parameter of "
        "each hyperedge from its definition, kappa_d = C(N-2,d-2) d(d-1)/2 wherever it fits 31 bits, C, and the expected counts / average "
        "degree of ONE size against ExpCountCF / AvgDegCF, which MC_HyMMSBM proves equal to the brute-force definitions on its universes. "
        "log_kappa(d) for every d <= D is compared in log space (1e-9*max(1,|log kappa|)) with the exact integer, and the per-node / average "
        "degrees and counts for sets of sizes with exact Fractions obtained by counting (a pair lies in C(N-2,d-2) hyperedges of size d, a node "
        "and a disjoint pair in C(N-3,d-3)); that transcription is cross-checked against TLC's brute force on every small case",
        "oracle mode: TLC writes the exact rationals; raw floats are compared with them in Python at 1e-9*max(1,|x|), and the Python "
        "transcription of Lambda / kappa used for the likelihood is cross-checked against TLC (disagreement = machinery failure)",
        "fit(): TLC has no reals. The log-likelihood is computed in Python FROM ITS DEFINITION (every possible hyperedge of size 2..D is "
        "Poisson(Lambda/kappa)) and enters TLC as integer ranks: neighbours closer than 1e-9*max(1,|L|) share a tolerance rank (single linkage), "
        "so a rank decrease is a decrease beyond rounding; sub-tolerance drifts are not flagged",
        "fit(): byte-identity of supplied parameters, finiteness, >= -1e-12, |w - w^T| <= 1e-9 max|w|, off-diagonal <= 1e-12 max(1,|w|) are decided "
        "in Python and enter TLC as booleans; TLC decides the shape claims (FixedStay, FiniteNonNeg, WSymmetric, WDiagonalIfAssortative, Ascent) on EMDriver",
        "ascent is claimed only when u is supplied; step t of a trace is a fresh model fitted with the same seed and n_iter = t",
        "supplied memberships are strictly positive (a hyperedge with Poisson parameter 0 makes the likelihood -inf for every w)")
    return res.finish()


def replay(path):
    with open(path) as f:
        rp = json.load(f)
    res = Result("C15", "replay", rp.get("seed", 0), "model_checking")
    cfg = rp["payload"].get("config")
    if cfg is None:
        print("replay: closed-form case, re-run `./run.py check C15` with VERIF_SEED=%s" % rp.get("seed"))
        return 2
    cfg["edges"] = [tuple(e) for e in cfg["edges"]]
    validate_fit(res, "quick", random.Random(0), only=[cfg], T=max(12, len(rp["payload"].get("n_iter", []))))
    return res.finish()
