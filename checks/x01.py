"""X01 - multi-order, annealed and temporal matrix families of hypergraphx.linalg (the functions C09 leaves out).

Statements X01-a .. X01-g: spec/ext/MatricesX.tla.  Design: spec/mc/MC_MatricesX.tla (exhaustive, bounded container).
Validator: spec/trace/Trace_X01.tla.  Real Hypergraph / TemporalHypergraph objects are built with histories (insertions
in random order, removals and re-insertions, isolated nodes) under several label families, the real functions are called,
what they return is logged as exact integers / rationals and judged by TLC.
"""
import itertools
import json
import math
import random
import time
from fractions import Fraction

import numpy as np

from checks.containers import explore
from checks.c09 import build_hg, build_temp, random_edges, log_map
from harness import cases as K
from harness.binding import Binding, LABEL_FAMILIES, quiet
from harness.verdict import Result

FAMS = ("sparse", "str", "zero", "ident", "neg", "big")
HG_INV = ["OrdersPartitionKeys", "IncidenceAllOrdersShape", "MultiLapSymmetricZeroRowSum",
          "MultiLapPlainIsDegreeMinusAdjacency", "MultiLapNormalisedTrace", "MultiLapLinear", "MultiLapIsWeightedSum",
          "AdjFactorIsNeighbourhood", "LaplaciansCommute"]
TEMP_INV = ["TempAdjSplitsByOrder", "AnnealedIsTimeAverage", "AnnFactorIsNeighbourhood", "LaplaciansCommute"]
MAXDEN = 2000            # true common denominators are <= 288 for the inputs generated here (see _hg_inputs)
SIGMAS = (Fraction(0), Fraction(1, 2), Fraction(1), Fraction(1), Fraction(2), Fraction(3))
FUNCTIONS = ("compute_multiorder_laplacian", "incidence_matrices_all_orders", "adjacency_factor", "are_commuting",
             "temporal_adjacency_matrices_all_orders", "temporal_adjacency_matrix_by_order",
             "annealed_adjacency_matrix", "annealed_adjacency_matrices_all_orders", "row_mapping")


# ---------------------------------------------------------------------------
# logging of what the implementation returns
class Unusable(Exception):
    pass


def _arr(M):
    A = M.toarray() if hasattr(M, "toarray") else np.asarray(M)
    A = np.asarray(A, dtype=float)
    if A.ndim != 2:
        raise Unusable("not a matrix (ndim %d)" % A.ndim)
    if not np.all(np.isfinite(A)):
        raise Unusable("non-finite entries")
    return A


def int_mat(M):
    """sparse / dense matrix -> record with rows of python ints"""
    A = _arr(M)
    if not np.all(A == np.floor(A)):
        raise Unusable("non-integral entries")
    return {"M": [[int(v) for v in row] for row in A.tolist()], "shape": [int(A.shape[0]), int(A.shape[1])]}


def frac(x):
    """the float x as the exact fraction it stands for (denominator <= MAXDEN), or Unusable"""
    x = float(x)
    if not math.isfinite(x):
        raise Unusable("non-finite value")
    f = Fraction(x).limit_denominator(MAXDEN)
    if abs(float(f) - x) > 1e-9 * max(1.0, abs(x)):
        raise Unusable("%r is not a rational with denominator <= %d" % (x, MAXDEN))
    return f


def rat_mat(M):
    """matrix of floats -> record M (integers) / q: every entry over the common denominator q"""
    A = _arr(M)
    fr = [[frac(v) for v in row] for row in A.tolist()]
    q = 1
    for row in fr:
        for f in row:
            q = q * f.denominator // math.gcd(q, f.denominator)
    if q > MAXDEN:
        raise Unusable("entries have no common denominator <= %d" % MAXDEN)
    rows = [[int(f * q) for f in row] for row in fr]
    if any(abs(v) > 10 ** 6 for row in rows for v in row):
        raise Unusable("entries too large")
    return {"M": rows, "q": q, "shape": [int(A.shape[0]), int(A.shape[1])]}


def call(fn, build, **extra):
    """fn() -> record build(value); a raising call / an unreadable value is logged as such"""
    rec = dict(extra)
    try:
        with quiet():
            r = fn()
    except Exception as ex:
        rec.update({"raised": True, "exc": type(ex).__name__ + ": " + str(ex)[:90]})
        return rec
    try:
        rec.update(build(r))
    except Exception as ex:
        rec.update({"raised": True, "exc": "value unusable: " + type(ex).__name__ + ": " + str(ex)[:90]})
    return rec


def factor_vals(b, d):
    if not isinstance(d, dict):
        raise Unusable("not a dictionary")
    out = []
    for nd, v in d.items():
        f = frac(v)
        out.append([b.unlab(nd), f.numerator, f.denominator])
    return {"vals": out}


# ---------------------------------------------------------------------------
# observations
def observe_hg(b, obj, rng):
    import hypergraphx.linalg.linalg as L
    st = b.state(obj)
    c = {"kind": "hgx", "st": st}
    c["rowmap"] = call(lambda: L.adjacency_matrix(obj, return_mapping=True),
                       lambda r: {"map": log_map(b, r[1]), "shape": [int(r[0].shape[0]), int(r[0].shape[1])]})
    sizes = [len(e["k"]["s"]) for e in st["edges"]]
    top = (max(sizes) - 1) if sizes else 0
    # X01-b: both node sets, with and without return_mapping (which the function drops)
    recs = []
    for keep in (True, False):
        retmap = rng.random() < 0.5
        recs.append(call(lambda: L.incidence_matrices_all_orders(obj, keep_isolated_nodes=keep, return_mapping=retmap),
                         lambda r: {"mats": [dict(int_mat(M), d=int(d)) for d, M in r.items()]},
                         keep=keep, retmap=retmap))
    if sizes:
        c["incall"] = recs
    # X01-c
    c["factor"] = []
    for t in (0, 1, 2):
        how = rng.randrange(3)
        fn = (lambda: obj.adjacency_factor(t)) if how == 0 else (lambda: L.adjacency_factor(obj, t)) if how == 1 \
            else (lambda: L.adjacency_factor(obj, t=t))
        if t == 0 and rng.random() < 0.5:
            fn = (lambda: obj.adjacency_factor()) if how == 0 else (lambda: L.adjacency_factor(obj))
        c["factor"].append(call(fn, lambda r: factor_vals(b, r), t=t))
    if st["wtd"] or top < 1:
        return c
    # X01-a
    c["multi"] = []
    for j in range(3):
        sig = [rng.choice(SIGMAS) for _ in range(top)]
        sig_arg = [float(s) for s in sig]
        if rng.random() < 0.4:
            sig_arg = np.array(sig_arg)
        elif all(s.denominator == 1 for s in sig):
            sig_arg = [int(s) for s in sig]
        ow, dw = rng.random() < 0.5, rng.random() < 0.6
        if j == 0:          # the tutorial's call: defaults
            ow, dw = False, True
            fn = lambda: L.compute_multiorder_laplacian(obj, sig_arg)
        elif j == 1 and rng.random() < 0.5:       # the call of dynamics.synch
            ow, dw = True, False
            fn = lambda: L.compute_multiorder_laplacian(obj, sig_arg, order_weighted=True, degree_weighted=False)
        else:
            fn = lambda: L.compute_multiorder_laplacian(obj, sig_arg, ow, dw)
        c["multi"].append(call(fn, rat_mat, sig=[[s.numerator, s.denominator] for s in sig], ow=ow, dw=dw))
    # X01-g: the Laplacians the library returns, as lists in several arrangements
    try:
        with quiet():
            la = L.laplacian_matrices_all_orders(obj, weighted=rng.random() < 0.3)
        mats = [la[d] for d in sorted(la)]
        ints = [int_mat(M)["M"] for M in mats]
    except Exception:
        return c                                  # laplacian_matrices_all_orders is C09's
    idx = list(range(len(mats)))
    picks = [idx, idx[::-1], [rng.choice(idx)] * 2, [rng.choice(idx)]]
    if len(idx) >= 2:
        picks.append(rng.sample(idx, 2))
        x = rng.choice(idx)
        picks.append([x, rng.choice(idx), x])
    c["comm"] = []
    for p in picks:
        form = rng.choice(("sparse", "dense", "sparse_array"))
        if form == "sparse":
            arg = [mats[i] for i in p]
        elif form == "dense":
            arg = [mats[i].toarray() for i in p]
        else:
            from scipy import sparse
            arg = [sparse.csr_array(mats[i]) for i in p]
        verbose = rng.random() < 0.3
        fn = (lambda: L.are_commuting(arg)) if verbose else (lambda: L.are_commuting(arg, verbose=False))

        def build(r):
            if not isinstance(r, (bool, np.bool_)):
                raise Unusable("not a boolean: %r" % (r,))
            return {"ret": bool(r)}
        c["comm"].append(call(fn, build, ms=[ints[i] for i in p], form=form))
    return c


def _tmats(b, mats, maps=None, order=None):
    """{time: matrix} (+ {time: mapping}) -> list of records"""
    out = []
    for t, M in mats.items():
        r = dict(int_mat(M), t=int(t))
        if order is not None:
            r["d"] = int(order)
        if maps is not None:
            r["map"] = log_map(b, maps.get(t))
        out.append(r)
    return out


def observe_temp(b, obj, rng):
    import hypergraphx.linalg.linalg as L
    from hypergraphx.utils.labeling import get_inverse_mapping
    st = b.state(obj)
    c = {"kind": "tempx", "st": st}
    sizes = [len(e["k"]["s"]) for e in st["edges"]]
    times = sorted({e["k"]["x"] for e in st["edges"]})
    top = max(sizes) - 1
    try:
        with quiet():
            c["tmap"] = log_map(b, get_inverse_mapping(obj.get_mapping()))
    except Exception:
        c["tmap"] = [[-1, -1]]
    # X01-d
    c["tall"] = call(lambda: L.temporal_adjacency_matrices_all_orders(obj, return_mapping=True),
                     lambda r: {"mats": [x for d in r[0] for x in _tmats(b, r[0][d], r[1][d], order=d)]})
    maxo = rng.choice([0, 0, 1, max(top, 1), top + 1])
    c["tallnm"] = call((lambda: L.temporal_adjacency_matrices_all_orders(obj)) if maxo == 0
                       else (lambda: L.temporal_adjacency_matrices_all_orders(obj, max_order=maxo)),
                       lambda r: {"mats": [x for d in r for x in _tmats(b, r[d], order=d)]}, maxo=maxo)
    c["tby"] = []
    for d in sorted(set(rng.sample(range(1, top + 2), min(2, top + 1)))):
        for retmap in (True, False):
            c["tby"].append(call(lambda: L.temporal_adjacency_matrix_by_order(obj, d, return_mapping=retmap),
                                 lambda r: {"mats": _tmats(b, r[0], r[1]) if retmap else _tmats(b, r)},
                                 d=d, retmap=retmap))
    # X01-e
    via = rng.random() < 0.5
    c["ann"] = call((lambda: obj.annealed_adjacency_matrix(return_mapping=True)) if via
                    else (lambda: L.annealed_adjacency_matrix(obj, return_mapping=True)),
                    lambda r: dict(rat_mat(r[0]), map=log_map(b, r[1])))
    # X01-f
    c["annall"] = call(lambda: L.annealed_adjacency_matrices_all_orders(obj),
                       lambda r: {"mats": [dict(rat_mat(M), d=int(d)) for d, M in r.items()]})
    # X01-c: the code rounds the annealed entries to 3 decimals, which is exact for 1, 2, 4 or 5 snapshots (and spans)
    exact = len(times) in (1, 2, 4, 5) and (times[-1] - times[0] + 1) in (1, 2, 4, 5)
    c["factor"] = []
    for t in ((0, 1, 2) if exact else (0,)):
        fn = (lambda: obj.adjacency_factor(t)) if rng.random() < 0.5 else (lambda: L.adjacency_factor(obj, t))
        c["factor"].append(call(fn, lambda r: factor_vals(b, r), t=t))
    return c


# ---------------------------------------------------------------------------
# inputs
def _hg_inputs(tier, rng):
    """(n, hyperedges, weighted, family, all_nodes): <= 6 nodes, sizes <= 4, <= 7 hyperedges, so that the common
    denominator 2 * lcm_d((d + 1) |K_d|) of a multi-order Laplacian is <= 288"""
    out = []
    # every hypergraph on 3 nodes (orders 0..2)
    e3 = [c for z in (1, 2, 3) for c in itertools.combinations((1, 2, 3), z)]
    for mask in range(1, 1 << len(e3)):
        es = [e3[i] for i in range(len(e3)) if mask >> i & 1]
        fams = FAMS[:4] if tier == "thorough" else (FAMS[mask % len(FAMS)],)
        for f in fams:
            out.append((3 if mask % 3 else 4, es, False, f, True if mask % 2 else None))
    # complete orders (their Laplacian commutes with every other), alone and with a few other hyperedges
    for i in range(10 if tier == "quick" else 120):
        n = rng.randint(3, 5)
        z = rng.choice([2, 2, 3])
        es = list(itertools.combinations(range(1, n + 1), z))
        if len(es) > 6 and i % 2:
            n, z = 4, rng.choice([2, 3])
            es = list(itertools.combinations(range(1, n + 1), z))
        if len(es) <= 6:
            extra = [e for e in random_edges(n, rng, m=rng.randint(0, 2), maxsize=4) if len(e) != z]
            es = sorted(set(es + extra))[:7]
        out.append((n, es, False, FAMS[i % len(FAMS)], True))
    # an order missing between two present ones (sizes 2 and 4, 1 and 3 and 4 ...)
    for i in range(12 if tier == "quick" else 200):
        n = rng.randint(4, 6)
        zs = rng.choice([(2, 4), (2, 4), (1, 2, 4), (3, 1), (2, 4, 4)])
        es = sorted({tuple(sorted(rng.sample(range(1, n + 1), z))) for z in zs for _ in range(rng.randint(1, 2))})[:7]
        out.append((n, es, False, FAMS[i % len(FAMS)], None))
    # random ones, a third of them weighted (incidence and adjacency factor only)
    for i in range(130 if tier == "quick" else 2200):
        n = rng.randint(2, 6)
        out.append((n, random_edges(n, rng, m=rng.randint(1, 7), maxsize=4), i % 3 == 0, FAMS[i % len(FAMS)], None))
    return out


TIME_SETS = ([0, 1], [0, 1], [0, 1, 2], [1, 2], [2], [0], [0, 2], [1, 3, 4], [0, 1, 2, 3], [2, 3, 4, 5, 6], [0, 3], [5, 6])


def _temp_inputs(tier, rng):
    """(n, records, weighted, family, shape)"""
    out = []
    for i in range(180 if tier == "quick" else 2400):
        n = rng.randint(2, 5)
        times = list(rng.choice(TIME_SETS))
        shape = ("same_nodes_at_every_time", "any", "any")[i % 3]
        recs = []
        if shape == "same_nodes_at_every_time":
            # one hyperedge over all nodes at every time (so that every snapshot has the same node set), plus others
            for t in times:
                recs.append((tuple(range(1, n + 1)), t))
        else:
            for t in times:         # every time of the set has a hyperedge
                z = min(n, rng.choice([1, 2, 2, 3, 4]))
                recs.append((tuple(sorted(rng.sample(range(1, n + 1), z))), t))
        for _ in range(rng.randint(0, 5)):
            z = min(n, rng.choice([1, 2, 2, 2, 3, 3, 4]))
            recs.append((tuple(sorted(rng.sample(range(1, n + 1), z))), rng.choice(times)))
        out.append((n, sorted(set(recs))[:9], i % 4 == 0, FAMS[i % len(FAMS)], shape))
    return out


def _one(kind, item, key):
    """build the object of one input with its own generator, observe it -> (case, description) or None"""
    rng = random.Random(key)
    if kind == "hgx":
        n, es, weighted, fam, all_nodes = item
        b = Binding("hg", LABEL_FAMILIES[fam](n), rng)
        obj = build_hg(b, n, [tuple(e) for e in es], weighted, rng, all_nodes=all_nodes)
        c = observe_hg(b, obj, rng)
        d = {"kind": "hgx", "n": len(c["st"]["nodes"]), "hyperedges": [list(e) for e in es], "weighted": weighted,
             "family": fam, "labels": b.labels}
    else:
        n, recs, weighted, fam, shape = item
        b = Binding("temp", LABEL_FAMILIES[fam](n), rng)
        obj = build_temp(b, n, [(tuple(e), t) for e, t in recs], weighted, rng)
        with quiet():
            if obj.num_edges() == 0:        # the history removed everything: nothing to average over
                return None
        c = observe_temp(b, obj, rng)
        d = {"kind": "tempx", "n": len(c["st"]["nodes"]), "hyperedges": [[list(e), t] for e, t in recs],
             "weighted": weighted, "family": fam, "labels": b.labels, "shape": shape}
    d["present"] = sorted([e["k"]["s"], e["k"]["x"]] if kind == "tempx" else e["k"]["s"] for e in c["st"]["edges"])
    d["replay"] = {"kind": kind, "item": json.loads(json.dumps(item)), "key": key}
    return c, d


def _chunk(job):
    kind, seed, start, items = job
    out = []
    for off, it in enumerate(items):
        r = _one(kind, it, "%s/%d/%d" % (kind, seed, start + off))
        if r is not None:
            out.append(r)
    return out


def _observe(kind, seed, items, pool):
    jobs = [(kind, seed, i, items[i:i + 100]) for i in range(0, len(items), 100)]
    outs = pool.map(_chunk, jobs, chunksize=1) if pool is not None else [_chunk(j) for j in jobs]
    return [c for o in outs for c, _ in o], [d for o in outs for _, d in o]


# ---------------------------------------------------------------------------
def _records(c):
    """all logged call records of a case (for counting and for the exceptions shown in a rejection)"""
    for k in ("rowmap", "tall", "tallnm", "ann", "annall"):
        if k in c:
            yield k, c[k]
    for k in ("multi", "incall", "factor", "comm", "tby"):
        for r in c.get(k, []):
            yield k, r


OF_FUNCTION = {"multi": "compute_multiorder_laplacian", "incall": "incidence_matrices_all_orders",
               "factor": "adjacency_factor", "comm": "are_commuting", "tall": "temporal_adjacency_matrices_all_orders",
               "tallnm": "temporal_adjacency_matrices_all_orders", "tby": "temporal_adjacency_matrix_by_order",
               "ann": "annealed_adjacency_matrix", "annall": "annealed_adjacency_matrices_all_orders",
               "rowmap": "row_mapping"}


PER_ORDER_TEMPORAL = ("temporal_adjacency_matrices_all_orders", "temporal_adjacency_matrix_by_order",
                      "annealed_adjacency_matrices_all_orders")


def _nmats(r):
    return len(r.get("mats", [])) + len(r.get("ms", [])) + (1 if "M" in r else 0)


def strip(c):
    return {k: v for k, v in c.items() if k != "st"}


def _digest(res, seed, cases, descr, v, agg):
    # smallest failing inputs first: the replay file of a signature holds the first rejection with that signature
    order = sorted(v["rejects"], key=lambda r: (len(descr[r[0]]["present"]), descr[r[0]]["n"], r[0]))
    for idx, failed in order:
        d, c = descr[idx], cases[idx]
        byfn = {}
        for cl in failed:
            fn, _, aspect = cl.partition(":")
            byfn.setdefault(fn, []).append(aspect)
        for fn, aspects in sorted(byfn.items()):
            raised = sorted({r.get("exc", "") for k, r in _records(c) if OF_FUNCTION[k] == fn and r.get("raised")})
            sig = {"function": fn, "clauses": sorted(aspects)}
            if d["kind"] == "tempx" and fn == "adjacency_factor":
                sig["object"] = "TemporalHypergraph"
            if fn in PER_ORDER_TEMPORAL:
                # the per-order adjacency is built from the WEIGHTED incidence: a weighted object is a corner of its own
                sig["weighted"] = d["weighted"]
            res.reject(sig,
                       "%s: %s disagree(s) with MatricesX.tla for the %s%s with hyperedges %s on %d nodes labelled %s%s"
                       % (fn, ",".join(sorted(aspects)), "weighted " if d["weighted"] else "",
                          "TemporalHypergraph (time, nodes)" if d["kind"] == "tempx" else "Hypergraph",
                          [[t, s] for s, t in d["present"]] if d["kind"] == "tempx" else d["present"], d["n"], d["labels"],
                          (" [raised: %s]" % "; ".join(raised)) if raised else ""),
                       {"case": d, "seed": seed, "failed_clauses": failed, "logged": strip(c), "state": c["st"]})
    agg["cases"] += len(cases)
    agg["states"] += v["states"]
    agg["rejected_cases"] += len(v["rejects"])
    for c, d in zip(cases, descr):
        agg["fams"].add(d["family"])
        agg[d["kind"]] += 1
        agg["weighted"] += 1 if d["weighted"] else 0
        for k, r in _records(c):
            fn = OF_FUNCTION[k]
            agg["calls"][fn] = agg["calls"].get(fn, 0) + 1
            agg["mats"] += _nmats(r)
            if r.get("raised"):
                agg["raised"][fn] = agg["raised"].get(fn, 0) + 1
            if k == "comm" and "ret" in r:
                agg["comm_" + str(r["ret"]).lower()] += 1
        if d["kind"] == "hgx" and any(not r.get("raised") for r in c.get("multi", [])):
            agg["multi_inputs"].add(str(d["present"]))
        if d["kind"] == "tempx":
            agg["time_sets"].add(str(sorted({t for _, t in d["present"]})))


HG_LIGHT = ["OrdersPartitionKeys", "IncidenceAllOrdersShape", "MultiLapPlainIsDegreeMinusAdjacency", "MultiLapNormalisedTrace",
            "AdjFactorIsNeighbourhood", "LaplaciansCommute"]


def _explore_all(res, tier):
    """the design, exhaustively on the bounded container model (runs beside the validation of the implementation)"""
    hg3 = dict(n=3, maxw=1, batches=False, metaops=False, weighted=False)
    if tier == "quick":
        explore(res, "hg", tier, module="MC_MatricesX", invariants=HG_INV, configs=[hg3])
        explore(res, "temp", tier, module="MC_MatricesX", invariants=TEMP_INV,
                configs=[dict(n=2, maxw=1, batches=False, metaops=False, xs=[0, 2], weighted=False)])
    else:
        explore(res, "hg", tier, module="MC_MatricesX", invariants=HG_INV, configs=[hg3])
        # 4 nodes (the smallest universe with Laplacians that do not commute): the integer-valued invariants
        explore(res, "hg", tier, module="MC_MatricesX", invariants=HG_LIGHT,
                configs=[dict(n=4, maxw=1, batches=False, metaops=False, weighted=False)])
        explore(res, "temp", tier, module="MC_MatricesX", invariants=TEMP_INV,
                configs=[dict(n=2, maxw=1, batches=False, metaops=False, xs=[0, 1, 3], weighted=False),
                         dict(n=2, maxw=1, batches=False, metaops=False, xs=[0, 2], weighted=False)])


def _validate(kind, cases, procs):
    return K.run_cases("Trace_X01", cases, {"Kind": "temp" if kind == "tempx" else "hg"}, procs=procs,
                       per_batch=min(150, max(10, len(cases) // procs + 1)))


def run(tier, seed):
    import concurrent.futures as cf
    res = Result("X01", tier, seed, "model_checking")
    rng = random.Random(seed)
    groups = (("hgx", _hg_inputs(tier, rng)), ("tempx", _temp_inputs(tier, rng)))
    agg = {"cases": 0, "states": 0, "rejected_cases": 0, "mats": 0, "hgx": 0, "tempx": 0, "weighted": 0, "fams": set(),
           "calls": {}, "raised": {}, "comm_true": 0, "comm_false": 0, "multi_inputs": set(), "time_sets": set()}
    pool = None
    if tier != "quick":
        import multiprocessing as mp
        pool = mp.get_context("fork").Pool(8)
    t_py = t_tlc = 0.0
    ex = cf.ThreadPoolExecutor(max_workers=3)
    try:
        fexp = ex.submit(_explore_all, res, tier)
        if tier == "quick":
            t0 = time.time()
            obs = [(kind,) + _observe(kind, seed * 100000, items, None) for kind, items in groups]
            t_py += time.time() - t0
            t0 = time.time()
            futs = [ex.submit(_validate, kind, cases, 9 if kind == "hgx" else 5) for kind, cases, _ in obs]
            vs = [f.result() for f in futs]
            t_tlc += time.time() - t0
            for (kind, cases, descr), v in zip(obs, vs):
                _digest(res, seed, cases, descr, v, agg)
                res.sample({"input": descr[len(cases) // 2], "logged": strip(cases[len(cases) // 2])}, cap=4)
        else:
            for kind, items in groups:
                for start in range(0, len(items), 1500):
                    t0 = time.time()
                    cases, descr = _observe(kind, seed * 100000 + start, items[start:start + 1500], pool)
                    t_py += time.time() - t0
                    t0 = time.time()
                    v = _validate(kind, cases, 10)
                    t_tlc += time.time() - t0
                    _digest(res, seed, cases, descr, v, agg)
                    if cases:
                        res.sample({"input": descr[len(cases) // 2], "logged": strip(cases[len(cases) // 2])}, cap=4)
        fexp.result()
    finally:
        ex.shutdown(wait=True)
        if pool is not None:
            pool.close()
            pool.join()
    res.cov(traces_validated_against_impl=agg["cases"], cases_with_a_rejected_clause=agg["rejected_cases"],
            matrices_validated=agg["mats"], validator_states=agg["states"],
            hypergraph_cases=agg["hgx"], temporal_cases=agg["tempx"], weighted_cases=agg["weighted"],
            label_families=len(agg["fams"]), distinct_hypergraphs_with_a_multiorder_laplacian=len(agg["multi_inputs"]),
            distinct_time_sets=len(agg["time_sets"]),
            are_commuting_answers_true=agg["comm_true"], are_commuting_answers_false=agg["comm_false"],
            python_wall_s=round(t_py, 1), validator_wall_s=round(t_tlc, 1))
    res.coverage["calls_per_function"] = dict(sorted(agg["calls"].items()))
    res.coverage["calls_that_raised_per_function"] = dict(sorted(agg["raised"].items()))
    res.assume(
        "floats are sent to TLC as the exact fractions they stand for: Fraction(x).limit_denominator(%d) must reproduce x to "
        "1e-9 (checked in Python), all entries of a matrix are put over their common denominator q and TLC compares M/q with the "
        "specification's rational by cross-multiplication; a value that is not such a rational is logged as an unusable return" % MAXDEN,
        "compute_multiorder_laplacian, are_commuting: unweighted hypergraphs with a hyperedge of size >= 2 only, len(sigmas) = "
        "maximum order, sigmas in {0, 1/2, 1, 2, 3} as list of ints / floats or numpy array; rows are read through the mapping "
        "returned by adjacency_matrix for the same object (the function returns none)",
        "an order without hyperedges below the maximum order, with degree_weighted=True (a 0/0 term in the formula): judged "
        "under the separate clause 'entries_when_an_order_is_absent' (demanded: the term contributes nothing)",
        "incidence_matrices_all_orders returns no mapping whatever return_mapping says: with keep_isolated_nodes=True the rows "
        "are read through the object's own mapping, with False only numbering-independent facts are demanded (shape, column "
        "sizes, distinct columns, bag of row degrees, bag of column weights); orders without hyperedges may be present (empty)",
        "are_commuting is judged on the matrices that were passed to it (the Laplacians returned by "
        "laplacian_matrices_all_orders, logged as integers): TLC multiplies them; they are passed as returned (scipy sparse "
        "matrix), as csr_array and as dense arrays",
        "temporal objects with at least one hyperedge only; the mapping of (order, time) may cover any node set between the "
        "nodes of the order's hyperedges alive at that time and all nodes; results without mapping are read through the mapping "
        "the all-orders call returned for the same (order, time)",
        "annealed matrices: 'average over time' accepts the number of snapshots with a hyperedge or the span first..last time "
        "as the denominator (one choice per matrix); entries outside a too small returned shape are read as 0 by ':entries' and "
        "the N x N shape is demanded by ':shape'; annealed_adjacency_matrices_all_orders returns no mapping: the object's own "
        "numbering, else any one numbering common to all orders (searched for <= 5 rows) is accepted",
        "adjacency_factor of a TemporalHypergraph with t >= 1 only when the numbers of snapshots and the span are in {1, 2, 4, 5} "
        "(the code rounds annealed entries to 3 decimals, which is then exact); t = 0 always",
        "laplacian_matrices_all_orders itself is C09's (Trace_C09 LapAllClauses) and is not judged here")
    return res.finish()


def replay(path):
    """re-build the input of a replay file, observe it again and print the failing clauses"""
    with open(path) as f:
        rp = json.load(f)
    r = rp["payload"]["case"]["replay"]
    item = r["item"]
    item = (item[0], [tuple(e) for e in item[1]] if r["kind"] == "hgx" else [(tuple(e), t) for e, t in item[1]]) + tuple(item[2:])
    out = _one(r["kind"], item, r["key"])
    if out is None:
        print("X01 replay: the history leaves no hyperedge")
        return 0
    c, d = out
    v = K.run_cases("Trace_X01", [c], {"Kind": "temp" if r["kind"] == "tempx" else "hg"}, procs=1)
    failed = [cl for _, fl in v["rejects"] for cl in fl]
    print("X01 replay %s: input %s" % (path, d["present"]))
    for k, rec in _records(c):
        if rec.get("raised"):
            print("  %s raised: %s" % (OF_FUNCTION[k], rec["exc"]))
    print("  failing clauses: %s" % (failed or "none"))
    return 1 if failed else 0
