"""C20 - Centralities are the advertised functionals of the hypergraph's projections.

design     MC_Centrality: the line-graph / bipartite betweenness and closeness operators of Centrality.tla
           (exact rationals) on every small hypergraph: one value per hyperedge / node, relabelling
           equivariance, path-length identities, temporal averages.
code->spec oracle mode (Oracle_C20): TLC decides the key sets of the returned dictionaries and emits the
           exact rationals and the integer structures; floats are compared on this side.
           A fifth of the random static hypergraphs and two thirds of the connected uniform ones are reached by EDITING an
           object on which every centrality has already been computed (per-object memoisation); a fifth of the others by an
           edit that keeps the numbers of nodes and hyperedges, after calls with the same arguments (same_counts).
           Structured inputs with 10-12 nodes (dense core + path; two dense clusters joined by a few triples) exercise the
           sub-hypergraph centrality over dozens of orders of magnitude and CEC / HEC at a small spectral gap.
"""
import concurrent.futures as cf
import contextlib
import io
import itertools
import json
import random
import warnings
from fractions import Fraction

import numpy as np
import scipy.linalg

from harness import oracle as O
from harness import tlc
from harness.binding import Binding, LABEL_FAMILIES
from harness.verdict import Result

TOL = 1e-9
MC_INV = ["OneValuePerEdge", "OneValuePerNode", "RelabellingEquivariance", "GraphIdentities",
          "ProjectionsSymmetric", "AveragedIsMeanOverSnapshots"]

# label families: the shared ones plus strings that contain the letter E (the vertex ids of the
# bipartite projection are "N<i>" / "E<i>": node labels must not be confused with them)
FAMILIES = dict(LABEL_FAMILIES)
FAMILIES["strE"] = lambda n: ["dE", "a", "Eve", "c", "E", "fE1", "b"][:n]
# grid coordinates: labels that are tuples themselves (comparable, hashable), as hyperedges are
FAMILIES["tup"] = lambda n: [(0, 1), (1, 0), (0, 0), (2, 1), (1, 1), (2, 2), (0, 2), (1, 2)][:n]


@contextlib.contextmanager
def captured():
    buf = io.StringIO()
    with warnings.catch_warnings():
        warnings.simplefilter("ignore")
        with contextlib.redirect_stdout(buf):
            yield buf


def _explore_one(job):
    module, consts, invs = job
    r = tlc.run(module, tlc.cfg_text(consts, invariants=invs), workers=8, timeout=3000, heap="6g")
    if not tlc.ok_exploration(r):
        raise tlc.TLCError("%s %s failed:\n%s" % (module, consts, tlc.error_excerpt(r["out"])))
    s = tlc.stats(r["out"])
    c = {k: (sorted(v) if isinstance(v, (set, frozenset)) else v) for k, v in consts.items()}
    return {"module": module, "constants": c, "states": s["distinct"], "transitions": s["generated"],
            "wall_s": round(r["wall"], 1)}


def explore_jobs(tier):
    def mc(n, me):
        return ("MC_Centrality", {"Kind": "hg", "Node": set(range(1, n + 1)), "ZMin": 1, "ZMax": n, "MaxEdges": me}, MC_INV)
    return [mc(3, 7), mc(4, 4)] if tier == "quick" else [mc(3, 7), mc(4, 7), mc(5, 3)]


# ---------------------------------------------------------------------------
def unlab_key(b, k):
    try:
        return sorted(b.unlab(x) for x in k)
    except TypeError:
        return [-1]


def call(fn, *a, **kw):
    """-> (value, None) or (None, 'Type: message'); stdout captured"""
    with captured() as buf:
        try:
            v = fn(*a, **kw)
        except Exception as ex:
            return None, "%s: %s" % (type(ex).__name__, ex), buf.getvalue()
    return v, None, buf.getvalue()


def frac(p):
    return Fraction(p[0], p[1])


def cmp_dict(returned, spec_pairs, keyf):
    """returned: {spec key: float}; spec_pairs: [[key, [num, den]]]. first disagreement or None"""
    spec = {keyf(k): frac(v) for k, v in spec_pairs}
    for k, v in returned.items():
        if k in spec and not abs(float(v) - float(spec[k])) <= TOL:
            return "%s: returned %r, specification %s" % (list(k) if isinstance(k, tuple) else k, float(v), spec[k])
    return None


def build_static(b, edges, rng, extra_nodes=()):
    obj = b.new(False)
    edges = list(edges)
    rng.shuffle(edges)
    with captured():
        for n in extra_nodes:
            obj.add_node(b.lab(n))
        for e in edges:
            obj.add_edge(b._tuple(e))
    return obj


def mutate(b, obj, old, new, rng):
    """edit the SAME object from the hyperedge set `old` into `new` through remove_edge / add_edge (nodes stay)"""
    old, new = {tuple(e) for e in old}, {tuple(e) for e in new}
    ops = [("remove", e) for e in sorted(old - new)] + [("add", e) for e in sorted(new - old)]
    rng.shuffle(ops)
    with captured():
        for op, e in ops:
            if op == "remove":
                obj.remove_edge(b._tuple(e))
            else:
                obj.add_edge(b._tuple(e))


def build_temporal(b, tedges, rng):
    obj = b.new(False)
    tedges = list(tedges)
    rng.shuffle(tedges)
    with captured():
        for tm, e in tedges:
            obj.add_edge(b._tuple(e), tm)
    return obj


# ---------------------------------------------------------------------------
def observe_static(b, obj, ss, eigen_seeds, node_fns=True):
    """every centrality of a static hypergraph; returns (case for TLC, log for this side).  Structured inputs (dozens of
    hyperedges) are observed with ss = () and node_fns = False: TLC then emits the integer structures only"""
    import hypergraphx.measures.s_centralities as SC
    from hypergraphx.measures.sub_hypergraph_centrality import subhypergraph_centrality
    import hypergraphx.measures.eigen_centralities as EC
    case = {"what": "static", "st": b.state(obj), "ss": list(ss), "nodes": bool(node_fns), "ekeys": [], "nkeys": []}
    log = {"edge": [], "node": [], "errors": []}
    for s in ss:
        for name, fn in (("s_betweenness", SC.s_betweenness), ("s_closeness", SC.s_closeness)):
            v, err, _ = call(fn, obj, s)
            if err:
                log["errors"].append([name, s, err])
                continue
            keys = [unlab_key(b, k) for k in v]
            case["ekeys"].append({"fn": name, "s": s, "keys": keys})
            log["edge"].append({"fn": name, "s": s, "values": {tuple(k): float(x) for k, x in zip(keys, v.values())}})
    for name, fn in (("s_betweenness_nodes", SC.s_betweenness_nodes), ("s_closeness_nodes", SC.s_closeness_nodes)) if node_fns else ():
        v, err, _ = call(fn, obj)
        if err:
            log["errors"].append([name, 0, err])
            continue
        keys = [b.unlab(k) for k in v]
        case["nkeys"].append({"fn": name, "keys": keys})
        log["node"].append({"fn": name, "values": {k: float(x) for k, x in zip(keys, v.values())}})
    # sub-hypergraph centrality, through the library's own node mapping
    # (labels that are tuples cannot pass that mapping - a LabelEncoder over a 1-d array of labels - anywhere in the library:
    # not demanded, DESIGN section 5; the s-centralities do not use the mapping and are demanded for them)
    tuple_labels = any(isinstance(x, tuple) for x in b.labels)
    v, err, _ = (None, None, None) if tuple_labels else call(subhypergraph_centrality, obj)
    m, err2, _ = (None, None, None) if tuple_labels else call(obj.adjacency_matrix, return_mapping=True)
    if tuple_labels:
        pass
    elif err or err2:
        log["errors"].append(["subhypergraph_centrality", 0, err or err2])
    else:
        arr = np.asarray(v, dtype=float).ravel()
        mp = m[1]
        log["shc"] = {"n": len(arr), "values": {b.unlab(mp[i]): float(arr[i]) for i in range(len(arr)) if i in mp}}
    # eigenvector centralities (uniform connected hypergraphs labelled 0..N-1 only: decided from TLC's flags)
    if eigen_seeds:
        log["eig"] = []
        for name, fn in (("CEC", EC.CEC_centrality), ("HEC", EC.HEC_centrality)):
            for sd in eigen_seeds:
                np.random.seed(sd)
                v, err, out = call(fn, obj)
                if err:
                    log["eig"].append({"fn": name, "seed": sd, "error": err})
                else:
                    log["eig"].append({"fn": name, "seed": sd, "keys": [b.unlab(k) for k in v],
                                       "values": [float(x) for x in v.values()],
                                       "not_converged": "did not converge" in out})
    if not case["ekeys"]:
        del case["ekeys"]
    if not case["nkeys"]:
        del case["nkeys"]
    return case, log


_EXACT = {}
# structured inputs: tolerance relative to the exact reference value.  An eigendecomposition in doubles resolves the eigenvector
# entries v_i ~ 1e-11 of the far path nodes to a few 1e-16 absolute, i.e. log(exp(lambda_max) v_i^2) to ~1e-7 relative (worst seen
# over 40 node orders per shape: 2.4e-7); the statement promises the value, not more digits than double arithmetic on it gives
STRUCT_RTOL = 1e-5


def exact_log_expm_diagonal(W):
    """log(expm(W)_ii) for a symmetric non-negative INTEGER matrix from the exact integer powers (no cancellation, no eigenvectors):
    expm(W)_ii = sum_k (W^k)_ii / k!,  (W^2h)_ii = |row i of W^h|^2,  (W^(2h+1))_ii = <row i of W^h, row i of W^(h+1)>;
    the tail beyond k = 3 * (largest row sum) + 60 is below 1e-30 of the sum"""
    key = tuple(tuple(int(x) for x in row) for row in W)
    if key not in _EXACT:
        n = len(key)
        A = np.array(key, dtype=object).reshape(n, n)
        H = (3 * max(sum(r) for r in key) + 60) // 2
        K = 2 * H + 1
        f = [1] * (K + 1)
        for k in range(K - 1, -1, -1):
            f[k] = f[k + 1] * (k + 1)             # K! / k!
        P = np.array([[int(i == j) for j in range(n)] for i in range(n)], dtype=object)
        tot = np.array([0] * n, dtype=object)
        for h in range(H + 1):
            Q = P.dot(A)
            tot = tot + (P * P).sum(axis=1) * f[2 * h] + (P * Q).sum(axis=1) * f[2 * h + 1]
            P = Q
        import math
        _EXACT[key] = np.array([math.log(int(t)) - math.lgamma(K + 1) for t in tot])
    return _EXACT[key]


def judge_static(log, val, structured=None):
    bad = {}
    for name, s, err in log["errors"]:
        bad[name + "_returns"] = "s=%s %s" % (s, err)
    by_s = {r["s"]: r for r in val["by_s"]}
    for r in log["edge"]:
        spec = by_s[r["s"]]["betw" if "betweenness" in r["fn"] else "close"]
        d = cmp_dict(r["values"], spec, lambda k: tuple(sorted(k)))
        if d:
            bad[r["fn"] + "_is_line_graph_value"] = "s=%d %s" % (r["s"], d)
    for r in log["node"]:
        spec = val["nbetw" if "betweenness" in r["fn"] else "nclose"]
        d = cmp_dict(r["values"], spec, lambda k: k)
        if d:
            bad[r["fn"] + "_is_bipartite_value"] = d
    nodes = sorted(val["nodes"])
    ix = {n: i for i, n in enumerate(nodes)}
    W = np.zeros((len(nodes), len(nodes)))
    for i, j, w in val["comember"]:
        W[ix[i], ix[j]] = W[ix[j], ix[i]] = w
    if "shc" in log:
        if structured and len(nodes):
            # entries spanning dozens of orders of magnitude: the reference is exact, the tolerance relative to it
            exp, rtol = exact_log_expm_diagonal(W), STRUCT_RTOL
        else:
            exp, rtol = (np.log(np.diag(scipy.linalg.expm(W))) if len(nodes) else np.zeros(0)), 1e-8
        got = log["shc"]["values"]
        if log["shc"]["n"] != len(nodes) or set(got) != set(nodes):
            bad["subhypergraph_centrality_one_value_per_node"] = "%d values for nodes %s" % (log["shc"]["n"], nodes)
        else:
            for n in nodes:
                if not abs(got[n] - exp[ix[n]]) <= rtol * max(1.0, abs(exp[ix[n]])):
                    bad["subhypergraph_centrality_is_log_expm_diagonal"] = "node %d: returned %r, log(expm(Adj))_ii = %r%s" % (
                        n, got[n], float(exp[ix[n]]), " (exact integer series)" if structured else "")
                    break
    return bad, W, nodes


def judge_eigen(log, val, W, nodes, stats, structured=None):
    """CEC / HEC runs on a connected k-uniform hypergraph labelled 0..N-1 (flags decided by TLC)"""
    bad = {}
    k = val["uniform"]
    m = k - 1
    edges = [sorted(e) for e in val["edges"]]
    ix = {n: i for i, n in enumerate(nodes)}
    ev = np.sort(np.abs(np.linalg.eigvalsh(W)))[::-1]
    lam_max = float(np.max(np.linalg.eigvalsh(W)))
    slow = len(ev) > 1 and (ev[1] / ev[0]) ** 1000 > 1e-9
    perron = {}
    for r in log.get("eig", []):
        name = r["fn"]
        if "error" in r:
            bad[name + "_returns"] = "seed %d: %s" % (r["seed"], r["error"])
            continue
        stats[name + "_runs"] = stats.get(name + "_runs", 0) + 1
        if r["not_converged"] or (name == "CEC" and slow):
            stats[name + "_not_converged"] = stats.get(name + "_not_converged", 0) + 1
            continue
        if structured:
            stats[name + "_runs_judged_on_two_cluster_inputs"] = stats.get(name + "_runs_judged_on_two_cluster_inputs", 0) + 1
        if sorted(r["keys"]) != nodes or len(r["keys"]) != len(nodes):
            bad[name + "_one_value_per_node"] = "seed %d: keys %s" % (r["seed"], r["keys"])
            continue
        c = np.zeros(len(nodes))
        for key, x in zip(r["keys"], r["values"]):
            c[ix[key]] = x
        if not np.all(np.isfinite(c)) or c.min() <= 0:
            bad[name + "_positive"] = "seed %d: %s" % (r["seed"], c.tolist())
            continue
        if min(abs(np.abs(c).sum() - 1), abs(np.sqrt((c * c).sum()) - 1)) > 1e-9:
            bad[name + "_normalised"] = "seed %d: L1 %r L2 %r" % (r["seed"], np.abs(c).sum(), np.sqrt((c * c).sum()))
        if name == "CEC":
            lam = float(c @ W @ c / (c @ c))
            resid = float(np.linalg.norm(W @ c - lam * c) / np.linalg.norm(c))
            if resid > 1e-5 * lam_max or abs(lam - lam_max) > 1e-6 * lam_max:
                bad["CEC_eigen_equation"] = "seed %d: |Wc - lambda c| = %.3g, lambda = %r, lambda_max(W) = %r" % (r["seed"], resid, lam, lam_max)
        else:
            T = np.zeros(len(nodes))
            for e in edges:
                for n in e:
                    T[ix[n]] += np.prod([c[ix[o]] for o in e if o != n])
            F = np.power(T, 1.0 / m)
            fp = float(np.abs(F / F.sum() - c / c.sum()).max())
            lam_i = T / np.power(c, m)
            spread = float(np.abs(lam_i / lam_i.mean() - 1).max())
            if fp > 1e-5 or spread > 10 * m * 1e-6 / (c.min() / c.sum()) + 1e-9:
                bad["HEC_eigen_equation"] = ("seed %d: sum over hyperedges of the product of the other scores = lambda_i * c_i^%d with "
                                             "lambda_i/mean-1 up to %.3g; fixed-point residual %.3g" % (r["seed"], m, spread, fp))
        perron.setdefault(name, []).append(c / np.abs(c).sum())
    # all random starts reach the same vector (a statistic: implied by the eigen-equations, not stated)
    for name, lst in perron.items():
        for c in lst[1:]:
            if np.abs(c - lst[0]).max() > 1e-4:
                stats[name + "_starts_disagreeing"] = stats.get(name + "_starts_disagreeing", 0) + 1
                break
    return bad, {name: lst[0] for name, lst in perron.items()}


def observe_temporal(b, obj, ss):
    import hypergraphx.measures.s_centralities as SC
    case = {"what": "temporal", "st": b.state(obj), "ss": list(ss), "nodes": True, "ekeys": [], "nkeys": []}
    log = {"edge": [], "node": [], "errors": []}
    for s in ss:
        for name, fn in (("s_betweenness_averaged", SC.s_betweenness_averaged), ("s_closeness_averaged", SC.s_closeness_averaged)):
            v, err, _ = call(fn, obj, s)
            if err:
                log["errors"].append([name, s, err])
                continue
            keys = [unlab_key(b, k) for k in v]
            case["ekeys"].append({"fn": name, "s": s, "keys": keys})
            log["edge"].append({"fn": name, "s": s, "values": {tuple(k): float(x) for k, x in zip(keys, v.values())}})
    cl = getattr(SC, "s_closeness_nodes_averaged", None) or getattr(SC, "s_closenness_nodes_averaged")
    for name, fn in (("s_betweenness_nodes_averaged", SC.s_betweenness_nodes_averaged), ("s_closeness_nodes_averaged", cl)):
        v, err, _ = call(fn, obj)
        if err:
            log["errors"].append([name, 0, err])
            continue
        keys = [b.unlab(k) for k in v]
        case["nkeys"].append({"fn": name, "keys": keys})
        log["node"].append({"fn": name, "values": {k: float(x) for k, x in zip(keys, v.values())}})
    if not case["ekeys"]:
        del case["ekeys"]
    if not case["nkeys"]:
        del case["nkeys"]
    return case, log


def judge_temporal(log, val):
    bad = {}
    for name, s, err in log["errors"]:
        bad[name + "_returns"] = "s=%s %s" % (s, err)
    by_s = {r["s"]: r for r in val["by_s"]}
    for r in log["edge"]:
        spec = by_s[r["s"]]["betw" if "betweenness" in r["fn"] else "close"]
        d = cmp_dict(r["values"], spec, lambda k: tuple(sorted(k)))
        if d:
            bad[r["fn"] + "_is_mean_over_snapshots"] = "s=%d %s" % (r["s"], d)
    for r in log["node"]:
        which = "nbetw" if "betweenness" in r["fn"] else "nclose"
        d = cmp_dict(r["values"], val[which], lambda k: k)
        # snapshots carrying every node of the temporal hypergraph are accepted as well
        if d and cmp_dict(r["values"], val[which + "_all"], lambda k: k):
            bad[r["fn"] + "_is_mean_over_snapshots"] = d
    return bad


# ---------------------------------------------------------------------------
def rand_edges(rng, n, kmax, zmax):
    es = set()
    for _ in range(rng.randint(0, kmax)):
        z = rng.choice([1, 2, 2, 3, 3, 3, 4, 5])
        z = min(z, n, zmax)
        es.add(tuple(sorted(rng.sample(range(1, n + 1), z))))
    return sorted(es)


def rand_uniform_connected(rng, n, k):
    from checks.c18 import is_connected
    while True:
        es = set()
        for _ in range(rng.randint(max(1, (n - 1) // (k - 1)), n + 1)):
            es.add(tuple(sorted(rng.sample(range(1, n + 1), k))))
        tries = 0
        while not is_connected(n, es) and tries < 30:
            es.add(tuple(sorted(rng.sample(range(1, n + 1), k))))
            tries += 1
        if is_connected(n, es):
            return sorted(es)


def fn_of(clause):
    for suffix in ("_one_value_per_hyperedge", "_returns", "_is_line_graph_value", "_is_bipartite_value", "_is_mean_over_snapshots",
                   "_one_value_per_node", "_is_log_expm_diagonal", "_positive", "_normalised", "_eigen_equation",
                   "_independent_of_start", "_carried_by_relabelling"):
        if clause.endswith(suffix):
            return clause[:-len(suffix)]
    return clause


ASSUMPTIONS = (
    "betweenness / closeness values are emitted by TLC as exact rationals of the specification's own line graph and bipartite "
    "graph (networkx conventions: undirected, normalised; Wasserman-Faust) and compared with the returned floats at 1e-9",
    "NOT decided by TLA+: the matrix exponential (scipy.linalg.expm on the specification's integer adjacency matrix, 1e-8) and the "
    "eigen-equation arithmetic of CEC / HEC (numpy on the specification's clique-expansion matrix and hyperedge list)",
    "CEC: |W c - lambda c| <= 1e-5 lambda_max and lambda = lambda_max(W); HEC: fixed-point residual <= 1e-5 and per-node multiples "
    "equal within 10 (k-1) 1e-6 / min score (the iteration's own tolerance is 1e-6); runs that print 'did not converge' "
    "(or CEC on a matrix whose spectral gap cannot converge in 1000 iterations) are counted, not judged",
    "snapshots of a temporal hypergraph may or may not carry the nodes without hyperedges at that time: both readings accepted",
    "the index -> node correspondence of the sub-hypergraph centrality vector is the library's own adjacency_matrix(return_mapping=True)",
    "unweighted hypergraphs; s in 1..3; line graphs of at most 7 hyperedges, bipartite graphs of at most 11 vertices",
    "history of the OBJECT: a fifth of the random static hypergraphs and two thirds of the connected uniform ones and a sixth of the temporal ones are reached by editing "
    "(remove_edge / add_edge, same nodes) an object on which every centrality has already been computed; the statement speaks about the "
    "hypergraph as it is, so the observation is judged like any other against the state read back through the public API",
    "same_counts: a further fifth of the remaining static and temporal hypergraphs is reached by an edit that keeps the numbers of nodes and hyperedge "
    "records (k replaced by k others of the same sizes, same times) after every centrality was computed on the object with the arguments of the "
    "judged observation (the first argument combination of each function once more at the end), nothing computed in between",
    "structured inputs with 10-12 nodes (not sent through the rational Brandes oracle: TLC emits their integer structures only, s-centralities are "
    "not computed on them): (a) a dense core - all z-subsets of 6-7 nodes, z from {3,4,5} - with a path of 3-5 pairs hanging off it; the "
    "sub-hypergraph centrality of the far path nodes is exp(lambda_max) v_i^2 with v_i down to 1e-11, so the reference there is the EXACT integer "
    "series sum_k (Adj^k)_ii / k! (Python integers, no eigenvectors) and the tolerance is relative to the reference: 1e-5 * max(1, |log expm(Adj)_ii|) "
    "(an eigendecomposition in doubles gives ~1e-7 there; the shape 7 / {3,4,5} / 5 with v_i = 5e-12 is left out); "
    "(b) two clusters of 5 nodes with all triples, joined by 1-3 triples (3-uniform, connected, second eigenvalue of the clique expansion at "
    "0.93-0.99 of the first): CEC / HEC are judged as on every other input - CEC_centrality promises tol=1e-7 within max_iter=1000 steps, demanded is "
    "|W c - lambda c| <= 100 tol lambda_max; shapes on which 1000 steps cannot reach that (ratio^1000 > 1e-9) are counted, not judged",
    "node labels are integers and strings (the families of harness.binding plus strings containing E); tuple-valued labels are not used: the "
    "container's own node mapping (Hypergraph.get_mapping) does not accept them")


# ---------------------------------------------------------------------------
# static hypergraphs.  spec = {kind: "static", n, edges, labelings: [labels, ...], extra, eigen_seeds: [[..], ..], case_seed}
# several labelings of one abstract hypergraph = a relabelling event
def static_specs(tier, seed, rng):
    quick = tier == "quick"
    specs = []
    fams = ("ident", "sparse", "str", "strE", "zero", "tup")

    def add(n, es, labelings, eigen_seeds=None, prev=None):
        i = len(specs)
        specs.append({"kind": "static", "n": n, "edges": [list(e) for e in es], "labelings": labelings,
                      "extra": bool(i % 3 == 0 or eigen_seeds), "eigen_seeds": eigen_seeds or [[] for _ in labelings],
                      "case_seed": seed * 1000211 + i})
        # history of the OBJECT: it had the hyperedges `prev` when every centrality was first computed on it and has been
        # edited (remove_edge / add_edge) into `es` since
        if prev is not None and sorted(tuple(e) for e in prev) != sorted(tuple(e) for e in es):
            specs[-1]["prev_edges"] = [list(e) for e in prev]
    e3 = [e for z in (1, 2, 3) for e in itertools.combinations((1, 2, 3), z)]
    masks = list(range(1 << len(e3)))
    for j, mask in enumerate(rng.sample(masks, 40) if quick else masks):
        add(3, [e3[x] for x in range(len(e3)) if mask >> x & 1], [FAMILIES[fams[j % len(fams)]](3)])
    for i in range(1000 if quick else 4500):
        n = rng.choice([4, 5, 5, 6, 6, 7])
        f1, f2 = rng.sample(fams, 2)
        add(n, rand_edges(rng, n, min(7, 11 - n), 5), [FAMILIES[f1](n), FAMILIES[f2](n)],
            prev=rand_edges(rng, n, min(7, 11 - n), 5) if i % 5 == 3 else None)
    # connected 3- and 4-uniform hypergraphs labelled 0..N-1, and a relabelled twin (a permutation of 0..N-1)
    nstarts = 4 if quick else 12
    for i in range(250 if quick else 1000):
        k = 3 if i % 2 == 0 else 4
        n = rng.choice([4, 5, 6, 7] if k == 3 else [5, 6, 7])
        seeds = [(seed * 97 + i * 131 + j) % (2 ** 31) for j in range(nstarts)]
        perm = list(range(n))
        rng.shuffle(perm)
        add(n, rand_uniform_connected(rng, n, k), [list(range(n)), perm], [seeds, seeds[:2]],
            prev=rand_uniform_connected(rng, n, k) if i % 3 != 0 else None)
    return specs


# ---------------------------------------------------------------------------
# structured inputs with 10-12 nodes for the sub-hypergraph centrality and CEC / HEC (their own generator: the specs above stay
# what they were for a given seed).  They carry dozens of hyperedges, so the s-centralities (exact rational Brandes in TLC on
# the line graph) are NOT computed on them: TLC decodes the logged state and emits the integer structures, numpy decides.
LABELS12 = {"zero": lambda n: list(range(n)), "ident": lambda n: list(range(1, n + 1)),
            "sparse": lambda n: [10, 3, 7, 5, 12, 1, 8, 40, 2, 33, 21, 17][:n],
            "str": lambda n: ["b", "a", "d", "c", "f", "e", "g", "k", "h", "j", "m", "l"][:n]}
CORE_PATH_ALWAYS = [(7, (3, 4), 5), (7, (4,), 5), (6, (3, 4), 5), (7, (3, 4, 5), 4)]
TWO_CLUSTER_CHAINS = {           # a*: nodes of the first cluster, b*: of the second, m*: new nodes 11, 12
    "L1a": [("a1", "b1", "m1")], "L1b": [("a1", "a2", "b1")],
    "L2a": [("a1", "a2", "m1"), ("m1", "b1", "b2")], "L2b": [("a1", "m1", "m2"), ("m2", "b1", "b2")],
    "L2c": [("a1", "m1", "m2"), ("m1", "m2", "b1")],
    "L3a": [("a1", "a2", "m1"), ("m1", "m2", "b1"), ("m2", "b2", "b3")],
    "L3b": [("a1", "a2", "m1"), ("m1", "m2", "b1"), ("m1", "m2", "b2")],
    "L3c": [("a1", "m1", "m2"), ("m1", "m2", "b1"), ("a2", "a3", "m1")]}
TWO_CLUSTER_ALWAYS = ["L1a", "L2b", "L3b", "L3c"]        # second eigenvalue of the clique expansion at 0.95-0.97 of the first


def core_path(c, zs, L):
    """(a) a dense core (all z-subsets of 1..c, z in zs) with a path of L pairs hanging off node c: the far path nodes have
    expm(Adj)_ii = exp(lambda_max) v_i^2 + ... with v_i down to 1e-11"""
    es = [e for z in zs for e in itertools.combinations(range(1, c + 1), z)]
    es += [(c + j, c + j + 1) for j in range(L)]
    return c + L, es


def two_clusters(name, rng):
    """(b) two clusters of 5 nodes (all triples inside each) joined by 1-3 triples: connected, 3-uniform, small spectral gap"""
    a, b_ = rng.sample(range(1, 6), 3), rng.sample(range(6, 11), 3)
    sym = {"a1": a[0], "a2": a[1], "a3": a[2], "b1": b_[0], "b2": b_[1], "b3": b_[2], "m1": 11, "m2": 12}
    chain = [tuple(sorted(sym[x] for x in t)) for t in TWO_CLUSTER_CHAINS[name]]
    es = list(itertools.combinations(range(1, 6), 3)) + list(itertools.combinations(range(6, 11), 3)) + chain
    return max(max(e) for e in es), es


def structured_specs(tier, seed, first_index):
    rng = random.Random(seed * 7919 + 20)
    quick = tier == "quick"
    specs = []

    def add(n, es, labelings, eigen_seeds, what, text):
        i = first_index + len(specs)
        specs.append({"kind": "static", "n": n, "edges": [list(e) for e in es], "labelings": labelings, "extra": True,
                      "eigen_seeds": eigen_seeds or [[] for _ in labelings], "case_seed": seed * 1000211 + i,
                      "structured": what, "shape": text, "ss": []})
    combos = [(c, zs, L) for c in (6, 7) for zs in ((3,), (4,), (5,), (3, 4), (3, 5), (4, 5), (3, 4, 5)) for L in (3, 4, 5)]
    # left out: the one shape with v_i = 5e-12, where the eigendecomposition route is off by up to 2.3e-6 relative depending on the node
    # order (longer paths are off by whole units - reported as a candidate defect, outside the sizes this check builds)
    combos.remove((7, (3, 4, 5), 5))
    if quick:
        rest = [x for x in combos if x not in CORE_PATH_ALWAYS]
        combos = CORE_PATH_ALWAYS + rng.sample(rest, 8)
    for c, zs, L in combos:
        n, es = core_path(c, zs, L)
        f1, f2 = rng.sample(sorted(LABELS12), 2)
        l2 = LABELS12[f2](n)
        rng.shuffle(l2)
        add(n, es, [LABELS12[f1](n), l2], None, "core_path",
            "all %s-subsets of 1..%d and the path %s (%d hyperedges)" % ("/".join(map(str, zs)), c, "-".join(map(str, range(c, c + L + 1))), len(es)))
    names = sorted(TWO_CLUSTER_CHAINS)
    if quick:
        names = TWO_CLUSTER_ALWAYS + rng.sample([x for x in names if x not in TWO_CLUSTER_ALWAYS], 2)
    else:
        names = names * 4
    for j, name in enumerate(names):
        n, es = two_clusters(name, rng)
        seeds = [(seed * 89 + j * 137 + x) % (2 ** 31) for x in range(3 if quick else 8)]
        perm = list(range(n))
        rng.shuffle(perm)
        add(n, es, [list(range(n)), perm], [seeds, seeds[:1]], "two_clusters",
            "all triples of 1..5, all triples of 6..10, joined by %s" % [list(e) for e in es[20:]])
    return specs


# ---------------------------------------------------------------------------
# histories of ONE object that keep the numbers of nodes and hyperedges (same_counts): prev_edges is `edges` with k hyperedges
# replaced by k others of the same sizes over the same nodes; every centrality is computed on the object while it holds
# prev_edges, with the arguments of the judged observation (the first argument combination of each function once more at the
# end), then the object is edited in place and observed - nothing is computed in between
HISTORY_SHARE = 0.2


def swapped(records, universe, hr, ok, size=len, make=None):
    records = list(records)
    if not records:
        return None
    for _ in range(30):
        out = hr.sample(records, hr.randint(1, min(2, len(records))))
        new = []
        for r in out:
            for _ in range(10):
                o = make(r, tuple(sorted(hr.sample(universe, size(r))))) if make else tuple(sorted(hr.sample(universe, size(r))))
                if o not in records and o not in new:
                    new.append(o)
                    break
        if len(new) == len(out):
            before = [r for r in records if r not in out] + new
            if ok(before):
                return sorted(before)
    return None


def add_histories(specs, tspecs, hr):
    from checks.c18 import is_connected
    for sp in specs:
        if sp.get("prev_edges") is not None or hr.random() >= HISTORY_SHARE:
            continue
        edges = [tuple(e) for e in sp["edges"]]
        used = sorted(set().union(*map(set, edges))) if edges else []
        eig = any(sp["eigen_seeds"])
        universe = list(range(1, sp["n"] + 1)) if sp["extra"] else used

        def ok(before, sp=sp, used=used, eig=eig):
            if not sp["extra"] and sorted(set().union(*map(set, before))) != used:
                return False            # the nodes of the object are those of its hyperedges: they must stay the same
            return is_connected(sp["n"], before) if eig else True
        before = swapped(edges, universe, hr, ok)
        if before is not None:
            sp["prev_edges"], sp["same_counts"] = [list(e) for e in before], True
    for sp in tspecs:
        if sp.get("prev_timed_edges") is not None or hr.random() >= HISTORY_SHARE:
            continue
        recs = [(tm, tuple(e)) for tm, e in sp["timed_edges"]]
        used = sorted(set().union(*[set(e) for _, e in recs]))
        before = swapped(recs, used, hr, lambda bf, used=used: sorted(set().union(*[set(e) for _, e in bf])) == used,
                         size=lambda r: len(r[1]), make=lambda r, e: (r[0], e))
        if before is not None:
            sp["prev_timed_edges"], sp["same_counts"] = [[tm, list(e)] for tm, e in before], True


def static_validate(res, specs, stats, procs=8):
    cases, logs, descr = [], [], []
    for si, sp in enumerate(specs):
        rng = random.Random(sp["case_seed"])
        for labels, eseeds in zip(sp["labelings"], sp["eigen_seeds"]):
            b = Binding("hg", labels, rng)
            extra = tuple(range(1, sp["n"] + 1)) if sp["extra"] else ()
            ss, node_fns = tuple(sp.get("ss", (1, 2, 3))), not sp.get("structured")
            if sp.get("prev_edges") is not None:
                obj = build_static(b, [tuple(e) for e in sp["prev_edges"]], rng, extra_nodes=extra)
                observe_static(b, obj, ss, eseeds[:1], node_fns)        # judged on its own elsewhere; here it is the past
                if sp.get("same_counts"):       # the last call of every function before the edit = its first call after it
                    observe_static(b, obj, ss[:1], eseeds[:1], node_fns)
                mutate(b, obj, sp["prev_edges"], sp["edges"], rng)
            else:
                obj = build_static(b, [tuple(e) for e in sp["edges"]], rng, extra_nodes=extra)
            c, log = observe_static(b, obj, ss, eseeds, node_fns)
            cases.append(c)
            logs.append(log)
            descr.append({"n": sp["n"], "hyperedges": sp["edges"] if not sp.get("structured") else sp["shape"], "labels": labels,
                          "all_nodes_added": sp["extra"], "spec": si})
            if sp.get("structured"):
                descr[-1]["structured"] = sp["structured"]
            if sp.get("prev_edges") is not None:
                pe = sp["prev_edges"]
                if sp.get("structured"):
                    now = {tuple(e) for e in sp["edges"]}
                    pe = {"instead_of": [e for e in sp["edges"] if tuple(e) not in {tuple(x) for x in pe}], "it_held": [e for e in pe if tuple(e) not in now]}
                descr[-1]["object_edited_after_earlier_calls_from"] = pe
                if sp.get("same_counts"):
                    descr[-1]["same_numbers_of_nodes_and_hyperedges_and_same_arguments_before_the_edit"] = True
    v = O.run_oracle("Oracle_C20", cases, {"Kind": "hg"}, procs=procs)
    tl = dict(v["rejects"])
    per_spec = {}
    nrej = 0
    for i, (log, val) in enumerate(zip(logs, v["values"])):
        failed = keys_named(tl.get(i, []), cases[i], val["edges"], [val["nodes"]])
        structured = descr[i].get("structured")
        bad, W, nodes = judge_static(log, val, structured)
        failed.update(bad)
        eig = {}
        if "eig" in log:
            if not (val["uniform"] in (3, 4) and val["connected"] and val["zero_based"]):
                raise tlc.TLCError("C20: harness built an input outside the CEC/HEC scope: %s" % descr[i])
            bad, eig = judge_eigen(log, val, W, nodes, stats, structured)
            failed.update(bad)
        per_spec.setdefault(descr[i]["spec"], []).append((i, log, eig))
        if failed:
            nrej += 1
            report(res, descr[i], specs[descr[i]["spec"]], failed, log)
    # relabelling events: the same abstract hypergraph under two label maps
    nrel = 0
    for si, lst in per_spec.items():
        if len(lst) < 2:
            continue
        (i1, l1, e1), (i2, l2, e2) = lst[0], lst[1]
        failed = {}
        for r1 in l1["edge"] + l1["node"]:
            for r2 in l2["edge"] + l2["node"]:
                if r1["fn"] == r2["fn"] and r1.get("s") == r2.get("s"):
                    for k_, x in r1["values"].items():
                        if k_ in r2["values"] and not abs(x - r2["values"][k_]) <= 2 * TOL:
                            failed[r1["fn"] + "_carried_by_relabelling"] = "%s: %r under %s, %r under %s" % (
                                k_, x, descr[i1]["labels"], r2["values"][k_], descr[i2]["labels"])
        if "shc" in l1 and "shc" in l2:
            rtol = 2 * STRUCT_RTOL if descr[i1].get("structured") else 1e-8     # structured: each side within STRUCT_RTOL of the exact value
            for k_, x in l1["shc"]["values"].items():
                y = l2["shc"]["values"].get(k_)
                if y is not None and not abs(x - y) <= rtol * max(1.0, abs(x)):
                    failed["subhypergraph_centrality_carried_by_relabelling"] = "node %s: %r vs %r" % (k_, x, y)
        for name in e1:
            if name in e2 and np.abs(e1[name] - e2[name]).max() > 1e-4:
                failed[name + "_carried_by_relabelling"] = "scores differ by %.3g between labels %s and %s" % (
                    np.abs(e1[name] - e2[name]).max(), descr[i1]["labels"], descr[i2]["labels"])
        nrel += 1
        if failed:
            nrej += 1
            report(res, descr[i2], specs[si], failed, l2)
    return cases, logs, descr, v, nrej, nrel


# ---------------------------------------------------------------------------
# temporal hypergraphs.  spec = {kind: "temporal", n, timed_edges: [[t, [nodes]]], labels, ss, case_seed}
def temporal_specs(tier, seed, rng):
    quick = tier == "quick"
    specs = []
    tf = ("ident", "sparse", "str", "strE", "zero")
    for i in range(1000 if quick else 4500):
        n = rng.choice([3, 4, 4, 5, 5, 6])
        times = rng.sample([0, 1, 2, 3, 5, 9], rng.randint(1, 3))
        te = set()
        for tm in times:
            for e in rand_edges(rng, n, min(5, 10 - n), 4) or [tuple(sorted(rng.sample(range(1, n + 1), 2)))]:
                te.add((tm, e))
        # the same hyperedge at several times: its values add up
        if rng.random() < 0.5 and len(times) > 1:
            tm0, e0 = rng.choice(sorted(te))
            te.add((rng.choice(times), e0))
        specs.append({"kind": "temporal", "n": n, "timed_edges": [[tm, list(e)] for tm, e in sorted(te)],
                      "labels": FAMILIES[tf[i % 5]](n), "ss": [1, 2] if quick else [1, 2, 3], "case_seed": seed * 1000303 + i})
        if i % 6 == 4:
            # the object had other timed hyperedges when the averaged centralities were first computed on it
            prev = {(tm, e) for tm in rng.sample([0, 1, 2, 3, 5, 9], rng.randint(1, 3))
                    for e in (rand_edges(rng, n, min(5, 10 - n), 4) or [tuple(sorted(rng.sample(range(1, n + 1), 2)))])}
            if prev != te:
                specs[-1]["prev_timed_edges"] = [[tm, list(e)] for tm, e in sorted(prev)]
    return specs


def temporal_validate(res, specs, procs=8):
    cases, logs, descr = [], [], []
    for sp in specs:
        rng = random.Random(sp["case_seed"])
        b = Binding("temp", sp["labels"], rng)
        cur = [(tm, tuple(e)) for tm, e in sp["timed_edges"]]
        if sp.get("prev_timed_edges") is not None:
            prev = [(tm, tuple(e)) for tm, e in sp["prev_timed_edges"]]
            obj = build_temporal(b, prev, rng)
            observe_temporal(b, obj, sp["ss"])
            if sp.get("same_counts"):
                observe_temporal(b, obj, sp["ss"][:1])
            ops = [("remove", x) for x in sorted(set(prev) - set(cur))] + [("add", x) for x in sorted(set(cur) - set(prev))]
            rng.shuffle(ops)
            with captured():
                for op, (tm, e) in ops:
                    if op == "remove":
                        obj.remove_edge(b._tuple(e), tm)
                    else:
                        obj.add_edge(b._tuple(e), tm)
        else:
            obj = build_temporal(b, cur, rng)
        c, log = observe_temporal(b, obj, sp["ss"])
        cases.append(c)
        logs.append(log)
        descr.append({"n": sp["n"], "timed_hyperedges": sp["timed_edges"], "labels": sp["labels"], "temporal": True})
        if sp.get("prev_timed_edges") is not None:
            descr[-1]["object_edited_after_earlier_calls_from"] = sp["prev_timed_edges"]
            if sp.get("same_counts"):
                descr[-1]["same_numbers_of_nodes_and_hyperedges_and_same_arguments_before_the_edit"] = True
    v = O.run_oracle("Oracle_C20", cases, {"Kind": "temp"}, procs=procs)
    tl = dict(v["rejects"])
    nrej = 0
    for i, (log, val) in enumerate(zip(logs, v["values"])):
        failed = keys_named(tl.get(i, []), cases[i], val["alive"], [val["touched"], val["nodes"]])
        failed.update(judge_temporal(log, val))
        if failed:
            nrej += 1
            report(res, descr[i], specs[i], failed, log)
    return cases, logs, descr, v, nrej


def run(tier, seed):
    res = Result("C20", tier, seed, "exploration")
    rng = random.Random(seed * 3001 + 20)
    stats = {"CEC_runs": 0, "HEC_runs": 0, "CEC_not_converged": 0, "HEC_not_converged": 0}
    with cf.ThreadPoolExecutor(max_workers=2) as ex:
        futs = [ex.submit(_explore_one, j) for j in explore_jobs(tier)]
        sspecs = static_specs(tier, seed, rng)
        tspecs = temporal_specs(tier, seed, rng)
        # later families and the same_counts histories draw from their own generators: the specs above stay what they were for a seed
        sspecs += structured_specs(tier, seed, len(sspecs))
        add_histories(sspecs, tspecs, random.Random(seed * 7919 + 21))
        cases, logs, descr, v, nrej, nrel = static_validate(res, sspecs, stats)
        tcases, tlogs, tdescr, tv, tnrej = temporal_validate(res, tspecs)
        runs = [f.result() for f in futs]
    res.cov(states=sum(r["states"] for r in runs), transitions=sum(r["transitions"] for r in runs))
    res.coverage["explorations"] = runs
    res.coverage["invariants"] = MC_INV
    # exploration-level keys: one evaluation = one (static or temporal) hypergraph with every centrality compared;
    # non-trivial = the abstract input has at least two hyperedge records; distinct = different logged input
    def _nt(cs):
        keys = set()
        for c in cs:
            st = c.get("st") or c
            edges = st.get("edges") if isinstance(st, dict) else None
            blob = json.dumps(c.get("st", c), sort_keys=True, default=str)
            if edges is None or len(edges) >= 2:
                keys.add(blob)
        return keys
    res.cov(evaluations=len(cases) + len(tcases), distinct_nontrivial=len(_nt(cases) | _nt(tcases)),
            rule=("one evaluation = one static or temporal hypergraph (random, 3-7 nodes, int / sparse-int / string labels incl. labels "
                  "containing E) on which every s-centrality (s=1..3, hyperedge and node versions, temporal averages), the sub-hypergraph "
                  "centrality and, on connected uniform ones, CEC/HEC from random starts are compared; non-trivial = at least two hyperedge "
                  "records; distinct = different logged input"))
    res.cov(static_hypergraphs=len(cases), temporal_hypergraphs=len(tcases), relabelling_events=nrel, rejected_cases=nrej + tnrej,
            s_centrality_dicts_compared=sum(len(l["edge"]) + len(l["node"]) for l in logs + tlogs),
            values_compared=sum(len(r["values"]) for l in logs + tlogs for r in l["edge"] + l["node"]),
            subhypergraph_centrality_vectors=sum(1 for l in logs if "shc" in l),
            temporal_on_edited_objects=sum(1 for d in tdescr if d.get("object_edited_after_earlier_calls_from") is not None),
            static_on_edited_objects=sum(1 for d in descr if d.get("object_edited_after_earlier_calls_from") is not None),
            eigen_on_edited_objects=sum(1 for d, l in zip(descr, logs) if "eig" in l and d.get("object_edited_after_earlier_calls_from") is not None),
            objects_measured_again_after_in_place_edit=sum(1 for d in descr + tdescr if d.get("same_numbers_of_nodes_and_hyperedges_and_same_arguments_before_the_edit")),
            temporal_objects_measured_again_after_in_place_edit=sum(1 for d in tdescr if d.get("same_numbers_of_nodes_and_hyperedges_and_same_arguments_before_the_edit")),
            structured_core_path_cases=sum(1 for d in descr if d.get("structured") == "core_path"),
            structured_two_cluster_cases=sum(1 for d in descr if d.get("structured") == "two_clusters"),
            traces_validated_against_impl=len(cases) + len(tcases), validator_states=v["states"] + tv["states"], **stats)
    plain_cases = [i for i, d in enumerate(descr) if not d.get("structured")]
    if plain_cases:
        descr, logs = [descr[i] for i in plain_cases], [logs[i] for i in plain_cases]
    if cases:
        res.sample({"case": descr[-1], "CEC/HEC": [{k: r[k] for k in ("fn", "seed", "values", "not_converged") if k in r} for r in logs[-1].get("eig", [])][:2]})
    if tcases:
        res.sample({"case": tdescr[-1], "spec_averaged_closeness_s1": tv["values"][-1]["by_s"][0]["close"], "returned": plain(tlogs[-1]["edge"][:2]),
                    "errors": tlogs[-1]["errors"]})
    res.assume(*ASSUMPTIONS)
    return res.finish()


def replay(path):
    """re-execute the one case (all its labelings) of a replay file and validate it again"""
    with open(path) as f:
        rp = json.load(f)
    sp = rp["payload"]["spec"]
    res = Result("C20", "replay", rp.get("seed", 0), "exploration")
    if sp["kind"] == "static":
        static_validate(res, [sp], {}, procs=1)
    else:
        temporal_validate(res, [sp], procs=1)
    for r in res.rejections:
        print("VIOLATION property=C20 replay=%s\n  what: %s" % (path, r["what"]))
    print("C20 replay %s" % ("FAIL" if res.rejections else "PASS"))
    return 1 if res.rejections else 0


def keys_named(tlc_failed, case, edges, node_sets):
    """TLC rejected a key list (one value per hyperedge / node): name the function(s) concerned for the
    signature and the message (the verdict is TLC's)"""
    out = {}
    es = sorted(sorted(e) for e in edges)
    for f in tlc_failed:
        rows = case.get("ekeys", []) if f == "one_value_per_hyperedge" else case.get("nkeys", [])
        for r in rows:
            if f == "one_value_per_hyperedge":
                ok = sorted(sorted(k) for k in r["keys"]) == es
            else:
                ok = any(sorted(r["keys"]) == sorted(ns) for ns in node_sets)
            if not ok:
                out["%s_%s" % (r["fn"], f)] = "keys (spec node ids) %s; decided by TLC" % r["keys"]
        if not any(k.endswith(f) for k in out):
            out[f] = "decided by TLC on the key lists"
    return out


def report(res, d, spec, failed, log):
    fns = sorted({fn_of(f) for f in failed})
    labels = d["labels"]
    lt = "int" if all(isinstance(x, int) for x in labels) else "str"
    hasE = any(isinstance(x, str) and "E" in x for x in labels)
    sig = {"function": fns if len(fns) > 1 else fns[0], "clauses": sorted(failed), "labels": lt, "labels_contain_E": hasE}
    if d.get("object_edited_after_earlier_calls_from") is not None:
        sig["history"] = "object edited after earlier calls"
    res.reject(sig,
               "%s on %s" % ("; ".join("%s [%s]" % (k, x) for k, x in sorted(failed.items())),
                             {k: x for k, x in d.items() if k != "spec"}),
               {"spec": spec, "case": d, "failed": failed, "errors": log.get("errors"),
                "returned": plain(log.get("edge", []) + log.get("node", []))})


def plain(rows):
    return [{k: (x if k != "values" else {str(a): b_ for a, b_ in x.items()}) for k, x in r.items()} for r in rows]
