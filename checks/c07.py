"""C07 - hash_hypergraph is a canonical fingerprint: equal content iff equal hash."""
import json

from checks.containers import run_container
from harness.verdict import Result


def canon(st):
    return json.dumps({"n": sorted(st["nodes"]), "e": sorted(json.dumps(e, sort_keys=True) for e in st["edges"]),
                       "m": sorted(json.dumps(x, sort_keys=True) for x in st["nmd"]), "h": st["hmd"], "w": st["wtd"]},
                      sort_keys=True)


def diamonds(res, kind, traces, meta):
    """how often the same content was reached through different histories (equality direction) and how
    many distinct contents were compared (difference direction) - measured, for the evidence"""
    by_content = {}
    for t, m in zip(traces, meta):
        hist = {}
        for ev in t:
            oid = ev["obj"]
            if ev["op"]["op"] == "copy":
                hist[oid] = list(hist.get(ev["op"]["from"], []))
            hist.setdefault(oid, [])
            if ev["op"]["op"] not in ("hash", "new", "copy"):
                hist[oid].append(json.dumps(ev["op"], sort_keys=True))
            if "digest" in ev:
                st = [p for p in ev["st"] if p[0] == oid][0][1]
                key = (m["family"], m["n"], canon(st))
                by_content.setdefault(key, set()).add(tuple(hist[oid]))
    multi = sum(1 for h in by_content.values() if len(h) >= 2)
    res.cov(distinct_contents_hashed=len(by_content), contents_reached_by_2_or_more_histories=multi,
            history_content_pairs=sum(len(h) for h in by_content.values()))
    ex = next((list(h)[:2] for h in by_content.values() if len(h) >= 2 and all(len(x) >= 2 for x in list(h)[:2])), None)
    if ex:
        res.sample({"kind": kind, "two_histories_same_content": [[json.loads(o) for o in h][:8] for h in ex]})


def twins(kind, tier, seed):
    """weighted / unweighted twins built by the same calls (weights 1 or absent) after the hypergraph-level
    metadata was replaced on both: they differ in weightedness only"""
    import random
    from harness import containers as C
    from harness.binding import UNSUPPORTED
    rng = random.Random(seed * 977 + len(kind))
    traces, meta = [], []
    fams = ("ident", "str", "big")
    for i in range(12 if tier == "quick" else 120):
        n = rng.choice([2, 3, 4])
        ops = [o for o in C.py_behaviour(kind, False, n, rng.randint(3, 8), rng)
               if o["op"] not in ("set_h_md", "set_attr_h", "clear")]
        for o in ops:
            if "w" in o and o["op"] != "set_weight":
                o["w"] = rng.choice([0, 1])
            if o["op"] == "set_weight":
                o["w"] = 1
            for it in o.get("items", []):
                if "w" in it:
                    it["w"] = 0
        ops.insert(0, {"op": "set_h_md", "md": {"a": "1"}})
        r = C.Replayer(kind, True, n, fams[i % 3], seed=seed * 31 + i, queries=False, plan={"hash": 1.0})
        traces.append(r.run_twins(ops))
        meta.append({"family": fams[i % 3], "seed": seed * 31 + i, "labels": r.b.labels, "skipped": r.skipped, "ops": ops,
                     "weighted": True, "n": n, "origin": "weighted-unweighted-twins", "kind": kind, "replay_args": {}})
    return traces, meta


def run(tier, seed):
    res = Result("C07", tier, seed, "model_checking")
    for kind in ["hg", "dir", "temp", "mux"]:
        run_container("C07", kind, tier, seed, res=res, finish=False, do_explore=(kind == "hg"), queries=False,
                      plan={"hash": 1.0}, own_ops={"hash"}, scale=0.4 if tier == "quick" else 1.0, on_traces=diamonds, extra_traces=twins)
    return res.finish()


def replay(path):
    from checks.containers import replay_container
    return replay_container("C07", path)
