"""C07 - hash_hypergraph is a canonical fingerprint: equal content iff equal hash."""
import json

from checks.containers import run_container
from harness.verdict import Result


def canon(st):
    return json.dumps({"n": sorted(st["nodes"]), "e": sorted(json.dumps(e, sort_keys=True) for e in st["edges"]),
                       "m": sorted(json.dumps(x, sort_keys=True) for x in st["nmd"]), "h": st["hmd"], "w": st["wtd"]},
                      sort_keys=True)


def diamonds(res, kind, traces, meta):
    """how often the same content was reached through different histories (equality direction) and how
    many distinct contents were compared (difference direction) - measured, for the evidence"""
    by_content = {}
    for t, m in zip(traces, meta):
        hist = {}
        for ev in t:
            oid = ev["obj"]
            if ev["op"]["op"] == "copy":
                hist[oid] = list(hist.get(ev["op"]["from"], []))
            hist.setdefault(oid, [])
            if ev["op"]["op"] not in ("hash", "new", "copy"):
                hist[oid].append(json.dumps(ev["op"], sort_keys=True))
            if "digest" in ev:
                st = [p for p in ev["st"] if p[0] == oid][0][1]
                key = (m["family"], m["n"], canon(st))
                by_content.setdefault(key, set()).add(tuple(hist[oid]))
    multi = sum(1 for h in by_content.values() if len(h) >= 2)
    res.cov(distinct_contents_hashed=len(by_content), contents_reached_by_2_or_more_histories=multi,
            history_content_pairs=sum(len(h) for h in by_content.values()))
    ex = next((list(h)[:2] for h in by_content.values() if len(h) >= 2 and all(len(x) >= 2 for x in list(h)[:2])), None)
    if ex:
        res.sample({"kind": kind, "two_histories_same_content": [[json.loads(o) for o in h][:8] for h in ex]})


def run(tier, seed):
    res = Result("C07", tier, seed, "model_checking")
    for kind in ["hg", "dir", "temp", "mux"]:
        run_container("C07", kind, tier, seed, res=res, finish=False, do_explore=(kind == "hg"), queries=False,
                      plan={"hash": 1.0}, own_ops={"hash"}, scale=0.4 if tier == "quick" else 1.0, on_traces=diamonds)
    return res.finish()


def replay(path):
    from checks.containers import replay_container
    return replay_container("C07", path)
