"""C07 - hash_hypergraph is a canonical fingerprint: equal content iff equal hash."""
from checks.containers import run_container
from harness.verdict import Result


def run(tier, seed):
    res = Result("C07", tier, seed, "model_checking")
    for kind in ["hg", "dir", "temp", "mux"]:
        run_container("C07", kind, tier, seed, res=res, finish=False, do_explore=(kind == "hg"), queries=False,
                      plan={"hash": 1.0}, own_ops={"hash"}, scale=0.4 if tier == "quick" else 1.0)
    return res.finish()


def replay(path):
    from checks.containers import replay_container
    return replay_container("C07", path)
