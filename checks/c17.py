"""C17 - Hypergraph-MT / spectral clustering: valid reproducible output, EM ascends.

1. explore   TLC, exhaustive: MC_ESP (the incrementally maintained psi / psiBar are the elementary symmetric
             polynomials of the current memberships; two must-fail variants of the recurrence) and MC_EMDriver
             (realisation bookkeeping; two must-fail variants).
2. validate  real fits: the train_info table (and the hook events mt_step / mt_end when hypergraphx/_verif.py is
             installed) re-executed by TLC against EMDriver (Trace_EM); the discrete output contracts of HySC.fit and
             HypergraphMT.fit decided by TLC on flags / integers (Trace_C17); the log-likelihood at the returned
             parameters recomputed from its definition with brute-force e_d in Python.
             Inputs: weights absent / whole / non-integer (0.5, 1.25, ...); in a quarter of the configurations the observed
             model OBJECT has been fitted before on another hypergraph with the same N and K (buffers kept between fits); in part
             of those the earlier fit FAILED after training (unwritable output folder / interrupted) and the error was caught; in half
             of them it is ONE Hypergraph object, fitted, edited in place (same numbers of nodes and hyperedges) and fitted again.
"""
import itertools
import json
import math
import random

import numpy as np

from checks.c15 import explore_em, build_hypergraph, rows_of, single_threaded, EM_INV
from harness import cases as K_
from harness import emtrace as EM
from harness import tlc
from harness.binding import quiet
from harness.verdict import Result

FAMS = ("ident", "sparse", "str", "zero")
# the label maps of harness.binding.LABEL_FAMILIES, extended to 10 nodes
LABELS = {"ident": lambda n: list(range(1, n + 1)),
          "sparse": lambda n: [10, 3, 7, 5, 12, 1, 8, 21, 15, 2][:n],
          "str": lambda n: ["b", "a", "d", "c", "f", "e", "g", "j", "h", "i"][:n],
          "zero": lambda n: list(range(0, n))}
FRACTIONAL_WEIGHTS = (0.5, 1.5, 1.25, 2.5, 0.75, 1.0, 2.0)
ESP_INV = ["PsiIsESP", "BarIsESPWithoutLast", "NonNegative"]
ESP_CONFIGS = {"quick": [dict(N=3, V=2, D=3, Mut=0), dict(N=4, V=2, D=3, Mut=0)],
               "thorough": [dict(N=3, V=2, D=3, Mut=0), dict(N=4, V=2, D=3, Mut=0), dict(N=4, V=2, D=4, Mut=0),
                            dict(N=4, V=3, D=3, Mut=0), dict(N=5, V=1, D=4, Mut=0)]}


def explore(res, tier):
    runs = []
    for c in ESP_CONFIGS[tier] + [dict(N=4, V=2, D=3, Mut=1), dict(N=4, V=2, D=3, Mut=2)]:
        r = tlc.run("MC_ESP", tlc.cfg_text(c, invariants=ESP_INV), workers=4, timeout=900)
        s = tlc.stats(r["out"]) or {"generated": 0, "distinct": 0}
        if c["Mut"] == 0:
            if not tlc.ok_exploration(r):
                raise tlc.TLCError("MC_ESP %s failed:\n%s" % (c, tlc.error_excerpt(r["out"])))
            res.cov(states=s["distinct"], transitions=s["generated"])
        elif "Invariant PsiIsESP is violated" not in r["out"] and "Invariant BarIsESPWithoutLast is violated" not in r["out"]:
            raise tlc.TLCError("MC_ESP mutant %s was not rejected:\n%s" % (c, tlc.error_excerpt(r["out"])))
        runs.append({"module": "MC_ESP", "constants": c, "states": s["distinct"], "transitions": s["generated"],
                     "expected": "no error" if c["Mut"] == 0 else "invariant violated", "wall_s": round(r["wall"], 1)})
    runs += explore_em(res)
    res.coverage.setdefault("explorations", []).extend(runs)
    res.coverage["invariants"] = ESP_INV + EM_INV


# ---------------------------------------------------------------------------------------------
def loglik_def(u, w, edges, weights, D):
    """Hypergraph-MT log-likelihood from its definition: every possible hyperedge e of size d in 2..D is Poisson with
    rate sum_k w[d-2, k] prod_{i in e} u[i, k]; the normalisation uses brute-force elementary symmetric polynomials"""
    N, K = u.shape
    tot = 0.0
    for e, a in zip(edges, weights):
        rate = sum(w[len(e) - 2, k] * math.prod(u[i, k] for i in e) for k in range(K))
        if rate <= 0:
            return None                      # a logged hyperedge has rate 0: -inf by definition, corner not judged
        tot += a * math.log(rate)
    for d in range(2, D + 1):
        for k in range(K):
            col = u[:, k]
            nz = [i for i in range(N) if col[i] != 0]
            e_d = sum(math.prod(col[i] for i in s) for s in itertools.combinations(nz, d))
            tot -= w[d - 2, k] * e_d
    return tot


def rounding_bound(u, w, D):
    """forward bound on the rounding error of the incrementally maintained normalisation sum_{d,k} w_dk psi_dk: the recurrences
    subtract quantities of size e_d'(u_k) * max(u_k)^(d-d'), d' <= d, so that is the scale the 1e-12 (a few thousand ulps: one per
    node visit) applies to; negligible unless memberships reach the cap 100 while w is huge"""
    N, K = u.shape
    tot = 0.0
    for k in range(K):
        col = np.abs(u[:, k])
        umax = max(1.0, float(col.max()))
        nz = [i for i in range(N) if col[i] != 0]
        e = [1.0] + [sum(math.prod(col[i] for i in s) for s in itertools.combinations(nz, d)) for d in range(1, D + 1)]
        for d in range(2, D + 1):
            tot += abs(w[d - 2, k]) * max(e[j] * umax ** (d - j) for j in range(0, d + 1))
    return 1e-12 * tot


# inputs on which the unchanged tree once failed (kept so that the defect is reported again if it returns)
PINNED = [
    # likelihood_ascent raised by the thorough tier on the unchanged tree: with min_value_par = 1e-5 a membership is truncated to zero at
    # iteration 40 and the recorded value falls from -3.00928 to -3.01372 before it recovers (with threshold 0 the same run ascends
    # throughout): known finding F53, the thresholding is part of the algorithm
    {"N": 5, "K": 2, "edges": [(1, 2, 3, 4), (1, 3), (1, 3, 4)], "weights": None, "family": "zero", "seed": 395084, "n_realizations": 1,
     "max_iter": 60, "every": 3, "normalizeU": False, "baseline_r0": True, "min_value_par": 1e-05, "weighted_L": True},
    # fit raised AssertionError: a community with all-zero affinities gave 0/0 in the membership update (fix e1f0483)
    {"N": 8, "K": 3, "edges": [(1, 3, 4), (4, 6), (1, 4, 6), (1, 3, 7), (1, 3, 6)], "weights": None, "family": "zero",
     "seed": 72647, "n_realizations": 2, "max_iter": 25, "every": 1, "normalizeU": False, "baseline_r0": True,
     "min_value_par": 1e-05, "weighted_L": False},
    # likelihood_ascent raised by the thorough tier: realisation 0 is converged at -2.1932 when the affinity of an extinct community
    # explodes (w 1e9 .. 1e28: its psi is rounding residue), the memberships hit the cap max_value_par = 100 and the recorded value
    # falls to -118.6, then -35.1.  Values computed with a membership at the cap / with a rounding bound above 1e-3 are outside the
    # ascent claim (constrained memberships, rounding) and not judged; the numerical defect itself is described in
    # .work/proposed/C17-hypergraphmt-psi-drift-ascent.diff
    {"N": 5, "K": 3, "edges": [(1, 2), (1, 2, 3, 4), (1, 3, 4)], "weights": [0.75, 2.0, 2.0], "family": "sparse", "seed": 202410,
     "n_realizations": 2, "max_iter": 25, "every": 2, "normalizeU": False, "baseline_r0": False, "min_value_par": 1e-05,
     "weighted_L": False},
    # the same degeneration without any clipping (w 1e21, memberships <= 1.5): recorded -4.36 -> -13.47 -> -6.21
    {"N": 6, "K": 3, "edges": [(1, 2, 5), (2, 3, 4), (2, 3), (2, 4), (1, 4, 5), (2, 5)], "weights": [1, 3, 3, 2, 1, 1], "family": "str",
     "seed": 80181, "n_realizations": 1, "max_iter": 60, "every": 1, "normalizeU": False, "baseline_r0": True, "min_value_par": 0.0,
     "weighted_L": False},
]


def config(rng, i, tier):
    N = rng.randint(4, 8)
    D = rng.randint(2, 4)
    edges = []
    for _ in range(rng.randint(2, 9)):
        z = rng.randint(2, min(D, N))
        edges.append(tuple(sorted(rng.sample(range(1, N + 1), z))))
    edges = list(dict.fromkeys(edges))
    n_iso = rng.choice([0, 0, 1, 2])
    covered = len({n for e in edges for n in e})
    K = rng.choice([2, 2, 3])
    while covered < K + 1:                   # k-means needs at least K non-isolated nodes
        extra = tuple(sorted(rng.sample(range(1, N + 1), 2)))
        if extra not in edges:
            edges.append(extra)
        covered = len({n for e in edges for n in e})
    # weights: none, whole numbers, or non-integers (dyadic: 0.5, 1.25, ... are exact floats); a weight is the A_e of the
    # Poisson model and enters the likelihood, the w update and (through the incidence matrix) the u update
    wkind = rng.choice(["none", "none", "int", "frac"])
    weights = None if wkind == "none" else [rng.randint(1, 3) if wkind == "int" else rng.choice(FRACTIONAL_WEIGHTS) for _ in edges]
    normalize = i % 3 == 2
    # normalised memberships are judged on what fit returns: short runs return the early iterates too
    iters = rng.choice([1, 1, 2, 2, 6, 25]) if normalize else rng.choice([1, 2, 6, 25, 60])
    cfg = {"N": N + n_iso, "K": K, "edges": edges, "weights": weights, "family": FAMS[i % 4], "seed": rng.randrange(1, 10 ** 6),
           "n_realizations": rng.choice([1, 2, 3]), "max_iter": iters,
           "every": rng.choice([1, 1, 1, 2, 3]), "normalizeU": normalize, "baseline_r0": rng.random() < 0.5,
           "min_value_par": 0.0 if i % 2 == 0 else 1e-5, "weighted_L": rng.random() < 0.3}
    # history of the MODEL object: in a quarter of the configurations the HySC / HypergraphMT object that is observed has been
    # fitted before, on another hypergraph with the same number of nodes and the same K (the same hyperedges under a permutation
    # of the nodes, sometimes one hyperedge more: other isolated nodes, other clusters, sometimes another D)
    if rng.random() < 0.25:
        perm = list(range(1, cfg["N"] + 1))
        rng.shuffle(perm)
        pe = [tuple(sorted(perm[x - 1] for x in e)) for e in edges]
        pw = None if weights is None else list(weights)
        if rng.random() < 0.5:
            extra = tuple(sorted(rng.sample(range(1, cfg["N"] + 1), rng.randint(2, min(4, cfg["N"])))))
            if extra not in pe:
                pe.append(extra)
                if pw is not None:
                    pw.append(rng.choice(weights))
        if pw is not None:
            rng.shuffle(pw)
        cfg["refit_after"] = {"edges": pe, "weights": pw, "seed": rng.randrange(1, 10 ** 6)}
        # half of these histories happen to ONE Hypergraph object: it is fitted, edited in place (remove_edge / add_edge /
        # set_weight) into the observed hypergraph and fitted again by the same model object.  Nothing derived from the object's
        # earlier content may survive; the edits that keep the numbers of nodes and hyperedges are the interesting ones: the
        # permuted copy above, the same hyperedges with other weights, one hyperedge exchanged for another one
        if rng.random() < 0.5:
            prev = cfg["refit_after"]
            prev["inplace"] = True
            r = rng.random()
            if r < 0.35 and weights is not None and len(set(weights)) > 1:
                pw = list(weights)
                while pw == list(weights):
                    rng.shuffle(pw)
                prev["edges"], prev["weights"] = list(edges), pw
            elif r < 0.7:
                pe = list(edges)
                for _ in range(20):
                    other = tuple(sorted(rng.sample(range(1, cfg["N"] + 1), rng.randint(2, min(4, cfg["N"])))))
                    if other not in pe:
                        pe[rng.randrange(len(pe))] = other
                        break
                if len({n for e in pe for n in e}) >= K + 1:
                    prev["edges"], prev["weights"] = pe, (None if weights is None else list(weights))
    return cfg


def edit_into(h, labels, edges, weights, rng):
    """edit the Hypergraph object in place until it holds exactly `edges` (with `weights`): public calls only"""
    lab = lambda i: labels[i - 1]
    target = {frozenset(lab(i) for i in e): (None if weights is None else weights[j]) for j, e in enumerate(edges)}
    with quiet():
        for e in list(h.get_edges()):
            if frozenset(e) not in target:
                h.remove_edge(e)
        present = {frozenset(e): e for e in h.get_edges()}
        items = list(target.items())
        rng.shuffle(items)
        for fs, w in items:
            if fs in present:
                if w is not None and h.get_weight(present[fs]) != w:
                    h.set_weight(present[fs], w)
            else:
                e = list(fs)
                rng.shuffle(e)
                if w is None:
                    h.add_edge(tuple(e))
                else:
                    h.add_edge(tuple(e), weight=w)


def failed_history(cfg, rng):
    """in part of the configurations whose model object has been fitted before, that earlier fit FAILED after training and the caller
    went on with the object: the results could not be written (out_inference=True with a folder that cannot exist), or the fit was
    interrupted in a later realisation.  What the aborted fit left behind (its best log-likelihood, its parameters) must not reach
    the next fit; it would win when the earlier data were easier, so the earlier hypergraph is often a part of the observed one
    (fewer hyperedges: larger log-likelihood) and the earlier fit uses the seed of the observed one.  Own generator: the
    configurations themselves stay what they were for a given seed."""
    prev = cfg.get("refit_after")
    if not prev or rng.random() >= 0.45:
        return cfg
    edges, weights, K = cfg["edges"], cfg["weights"], cfg["K"]
    prev["failed"] = rng.choice(["output", "output", "interrupt"]) if cfg["n_realizations"] > 1 else "output"
    r = rng.random()
    if r < 0.6:
        keep = [j for j in range(len(edges)) if rng.random() < 0.5]
        sub = [edges[j] for j in keep]
        sw = None if weights is None else [weights[j] for j in keep]
        for j in rng.sample(range(len(edges)), len(edges)):
            if len({n for e in sub for n in e}) >= K + 1:
                break
            if edges[j] not in sub:
                sub.append(edges[j])
                if sw is not None:
                    sw.append(weights[j])
        prev["edges"], prev["weights"] = sub, sw
    if r < 0.8:
        prev["seed"] = cfg["seed"]
    return cfg


def hooks():
    try:
        from hypergraphx import _verif
        return _verif if _verif.ON else None
    except Exception:
        return None


def cond_bound(u, w):
    """cheap forward bound on the rounding error of sum_{d,k} w_dk psi_dk with psi maintained by the recurrences: they subtract
    quantities of size <= max_{d'<=d} C(N, d') * max(1, max u_k)^d, a few thousand ulps of which (1e-12: one per node visit)
    may survive in psi_dk; it matters only when a community dies out and its w explodes"""
    N, K = u.shape
    tot = 0.0
    for k in range(K):
        umax = max(1.0, float(np.max(np.abs(u[:, k]))))
        for d in range(2, w.shape[0] + 2):
            tot += abs(float(w[d - 2, k])) * max(math.comb(N, j) for j in range(0, d + 1)) * umax ** d
    return 1e-12 * tot


class Interrupted(Exception):
    """raised by the observer inside an EARLIER fit of a model object (stands for Ctrl-C / a time limit of the caller)"""


UNWRITABLE = "/dev/null/c17-no-such-folder/"      # below a character device: no implementation can create or write it


ILL_CONDITIONED = 1e-3      # relative rounding bound beyond which a recorded log-likelihood is not judged


def ascent_codes(values, bounds, clipped, ill):
    """integer codes of the recorded log-likelihoods of ONE realisation for the ascent clause (code[j] >= code[j-1]).
    Judged values get their tolerance rank among the judged values (EM.ranks: neighbours in value order are merged, so a huge bound
    on one value says nothing about its distance to the others - such values must be taken out, not ranked).  A pair of consecutive
    values with a value outside the claim is not judged: the codes that follow are shifted by a constant so that the pair ascends;
    pairs of judged values keep their difference.  Returns (codes, pairs not judged: clipped, pairs not judged: ill-conditioned)"""
    out_of_claim = [c or i for c, i in zip(clipped, ill)]
    keep = [j for j in range(len(values)) if not out_of_claim[j]]
    rk, _ = EM.ranks([values[j] for j in keep], extra=[bounds[j] for j in keep])
    raw = dict(zip(keep, rk))
    codes, offset, n_clip, n_ill = [], 0, 0, 0
    for j in range(len(values)):
        if j == 0:
            codes.append(raw.get(0, 0))
            continue
        if out_of_claim[j] or out_of_claim[j - 1]:
            if clipped[j] or clipped[j - 1]:
                n_clip += 1
            else:
                n_ill += 1
        if out_of_claim[j]:
            codes.append(codes[-1])
        else:
            if out_of_claim[j - 1]:
                offset = max(offset, codes[-1] - raw[j])
            codes.append(raw[j] + offset)
    return codes, n_clip, n_ill


def probe_class():
    """HypergraphMT observed from inside fit(): every evaluation of the log-likelihood is recorded together with the
    rounding bound of the parameters at that moment (the table itself has no access to them)"""
    from hypergraphx.communities.hypergraph_mt.model import HypergraphMT

    class Probe(HypergraphMT):
        verif_abort_at = None                # interrupt the fit at the n-th evaluation of the log-likelihood
        verif_calls = 0

        def _LogLikelihood(self, *a, **k):
            v = super()._LogLikelihood(*a, **k)
            self.verif_calls += 1
            if self.verif_abort_at is not None and self.verif_calls == self.verif_abort_at:
                self.verif_abort_at = None
                raise Interrupted("fit interrupted by the caller (evaluation %d of the log-likelihood)" % self.verif_calls)
            try:
                u_, w_ = np.asarray(self.u), np.asarray(self.w)
                # a logged hyperedge with rate 0 (memberships truncated to 0): the log-likelihood is -inf by definition and the
                # number returned is an artefact of the epsilons inside the logarithms
                dead = any(all(w_[len(e) - 2, k] == 0 or any(u_[i, k] == 0 for i in e) for k in range(u_.shape[1]))
                           for e in self.verif_edges)
                # a membership at the model's cap (values above max_value_par are set to the cap): the memberships are constrained
                clipped = bool(np.any(u_ >= float(self.max_value_par)))
                self.verif_cond.append((float(v), cond_bound(u_, w_), dead, clipped, int(np.count_nonzero(u_))))
            except Exception:
                pass
            return v
    return Probe


def fit_mt(cfg, h, probe=False, edges_rows=(), global_offset=0, before=None):
    """before = (hypergraph, seed, failed[, edit]): the SAME model object is first fitted on that hypergraph; what is observed is its
    next fit; edit() is called between the two (it may edit the hypergraph objects and returns the hyperedges as row tuples).  failed = "output": that fit is asked to write its results into a folder that cannot exist (it raises after training);
    "interrupt": it is interrupted in a realisation after the first (observer only); the caller catches the error and goes on"""
    from hypergraphx.communities.hypergraph_mt.model import HypergraphMT
    if probe:
        HypergraphMT = probe_class()
    hk = hooks()
    # the GLOBAL generators are put into a different state for the second run: "same seed" means the
    # seed argument of the method, a result must not depend on numpy's / random's global state
    np.random.seed((cfg["seed"] + 7919 * global_offset) % (2 ** 32))
    random.seed(cfg["seed"] + 7919 * global_offset)
    m = HypergraphMT(verbose=False, n_realizations=cfg["n_realizations"], max_iter=cfg["max_iter"],
                     check_convergence_every=cfg["every"], min_value_par=cfg["min_value_par"])
    if before is not None:
        m.verif_cond, m.verif_edges = [], []
        kw = {}
        if before[2] == "output":
            kw = {"out_inference": True, "out_folder": UNWRITABLE}
        elif before[2] == "interrupt" and probe:
            # evaluations per realisation <= ceil(max_iter / every): this one falls into a later realisation (or nowhere)
            m.verif_abort_at = -(-cfg["max_iter"] // cfg["every"]) + 1
        try:
            m.fit(before[0], K=cfg["K"], seed=before[1], normalizeU=cfg["normalizeU"], baseline_r0=cfg["baseline_r0"], **kw)
        except Exception:
            if not before[2]:
                raise
        if probe:
            m.verif_abort_at = None
        if len(before) > 3 and before[3] is not None:
            edges_rows = before[3]()             # the hypergraph object is edited in place between the two fits
    if hk is not None:
        del hk.EVENTS[:]
    m.verif_cond, m.verif_edges = [], list(edges_rows)
    u, w, L = m.fit(h, K=cfg["K"], seed=cfg["seed"], normalizeU=cfg["normalizeU"], baseline_r0=cfg["baseline_r0"])
    ev = list(hk.EVENTS) if hk is not None else None
    return m, np.array(u), np.array(w), float(L), ev


def same_arrays(a, b):
    return a.shape == b.shape and a.dtype == b.dtype and bool(np.array_equal(a, b, equal_nan=True))


def observe(cfg, idx):
    """one configuration: HySC twice, Hypergraph-MT twice -> (hysc case, mt case, EM trace, info)"""
    from hypergraphx.communities.hy_sc.model import HySC
    rng = random.Random(cfg["seed"])
    labels = LABELS[cfg["family"]](cfg["N"])
    N, K = cfg["N"], cfg["K"]
    prev = cfg.get("refit_after")
    inplace = bool(prev and prev.get("inplace"))
    h_prev = build_hypergraph(labels, [tuple(e) for e in prev["edges"]], prev["weights"], rng) if prev else None
    if inplace:
        # ONE object: it holds the earlier hyperedges now and is edited into the observed hypergraph between the two fits
        h = h_prev
        h_sc = build_hypergraph(labels, [tuple(e) for e in prev["edges"]], prev["weights"], rng)
        inc = row2id = id2row = None
    else:
        h = h_sc = build_hypergraph(labels, cfg["edges"], cfg["weights"], rng)
        inc, row2id = rows_of(h, labels)
        id2row = {i: r for r, i in enumerate(row2id)}
    edges = [list(e) for e in cfg["edges"]]
    info = {"raised": [], "inplace": inplace}
    hy = mt = tr = None
    # ---- HySC
    with quiet():
        try:
            outs = []
            for attempt in range(2):
                np.random.seed((cfg["seed"] + 7919 * attempt) % (2 ** 32))
                model = HySC(seed=cfg["seed"])
                if prev and attempt == 0:            # the observed object has been fitted before; the second one is fresh
                    model.fit(h_sc if inplace else h_prev, K=K, weighted_L=cfg["weighted_L"])
                    if inplace:
                        edit_into(h_sc, labels, cfg["edges"], cfg["weights"], rng)
                outs.append(np.array(model.fit(h_sc, K=K, weighted_L=cfg["weighted_L"])))
            a = outs[0]
            if inplace:
                _, r2 = rows_of(h_sc, labels)
                id2row = {i: r for r, i in enumerate(r2)}
            code = lambda x: 0 if x == 0 else (1 if x == 1 else 2)
            if a.ndim == 2 and a.shape[0] == N:
                out = [[code(float(a[id2row[i], k])) for k in range(a.shape[1])] for i in range(1, N + 1)]
            else:
                out = [[code(float(x)) for x in np.atleast_1d(row)] for row in np.atleast_2d(a)]
            hy = {"kind": "hysc", "N": N, "K": K, "edges": edges, "out": out, "same": same_arrays(outs[0], outs[1])}
        except Exception as ex:
            info["raised"].append(("HySC.fit", repr(ex)))
    # ---- Hypergraph-MT
    with quiet():
        try:
            def e_rows():
                return [tuple(int(r) for r in inc[:, [j]].nonzero()[0]) for j in range(inc.shape[1])]

            def edit():
                nonlocal inc, row2id, id2row
                edit_into(h, labels, cfg["edges"], cfg["weights"], rng)
                inc, row2id = rows_of(h, labels)
                id2row = {i: r for r, i in enumerate(row2id)}
                return e_rows()
            m, u, w, L, ev = fit_mt(cfg, h, probe=True, edges_rows=() if inplace else e_rows(),
                                    before=(h_prev, prev["seed"], prev.get("failed"), edit if inplace else None) if prev else None)
            m2, u2, w2, L2, _ = fit_mt(cfg, h, global_offset=1)
        except Exception as ex:
            info["raised"].append(("HypergraphMT.fit", repr(ex)))
            return hy, None, None, info
    ti = m.train_info
    cols = ["realization", "seed", "iter", "loglik", "reached_convergence"]
    same = same_arrays(u, u2) and same_arrays(w, w2) and (L == L2 or (math.isnan(L) and math.isnan(L2))) and \
        ti[cols].equals(m2.train_info[cols])
    rows = []
    ok2d = u.ndim == 2 and u.shape[0] == N
    for i in range(1, N + 1):
        if ok2d:
            r = u[id2row[i]]
            fin = bool(np.all(np.isfinite(r)))
            rows.append({"zero": bool(np.all(r == 0)), "finite": fin, "nonneg": bool(fin and np.all(r >= 0)),
                         "sumone": bool(fin and abs(float(r.sum()) - 1.0) <= 1e-6 + K * cfg["min_value_par"])})
    mt = {"kind": "mt", "N": N, "K": K, "edges": edges, "normalizeU": bool(cfg["normalizeU"]), "ushape": list(u.shape),
          "wshape": list(w.shape), "rows": rows, "wfinite": bool(np.all(np.isfinite(w))),
          "wnonneg": bool(np.all(np.isfinite(w)) and np.all(w >= 0)), "same": bool(same)}
    D = max(len(e) for e in edges)
    info.update({"maxL": L, "u": u.tolist(), "w": w.tolist(), "row_of_node": id2row})
    if cfg["min_value_par"] == 0.0 and cfg["every"] == 1 and ok2d and w.shape == (D - 1, K) and math.isfinite(L):
        E = [tuple(int(r) for r in inc[:, [j]].nonzero()[0]) for j in range(inc.shape[1])]
        Ld = loglik_def(u, w, E, [float(x) for x in h.get_weights()], D)
        if Ld is not None:
            tol = 1e-8 * max(1.0, abs(Ld)) + rounding_bound(u, w, D)
            mt["lldef"] = bool(abs(Ld - L) <= tol)
            info["loglik_from_definition"], info["loglik_tolerance"] = Ld, tol
    # ---- the training table as a run of EMDriver
    vals = [float(x) for x in ti["loglik"]] + [L]
    if ev is not None:
        vals += [float(e["loglik"]) for e in ev]
    if any(math.isnan(x) for x in vals):
        info["raised"].append(("HypergraphMT.fit", "NaN log-likelihood in train_info"))
        return hy, mt, None, info
    _, exr = EM.ranks(vals)
    xcode = dict(zip(vals, exr))
    # ascent is judged per realisation, with the rounding bound of the parameters each value was computed from
    tl = [float(x) for x in ti["loglik"]]
    cond = m.verif_cond if len(m.verif_cond) == len(tl) and all(a == b[0] for a, b in zip(tl, m.verif_cond)) else None
    info["ascent_judged"] = cond is not None
    tcode = [0] * len(tl)
    info["not_judged"] = {"clipped": 0, "ill_conditioned": 0}
    if cond is not None:
        reals = [int(a) for a in ti["realization"]]
        # a value is outside the claim when it was computed with a membership at the cap max_value_par (constrained memberships) or
        # when its rounding bound leaves it fewer than three digits (w of an extinct community beyond ~1e9): the comparison with
        # its predecessor and with its successor is NOT judged
        clipped = [bool(c_[3]) for c_ in cond]
        ill = [(not c_[2]) and c_[1] > ILL_CONDITIONED * max(1.0, abs(c_[0])) for c_ in cond]
        for r in sorted(set(reals)):
            ix = [j for j, a in enumerate(reals) if a == r]
            codes, n_clip, n_ill = ascent_codes([-math.inf if cond[j][2] else tl[j] for j in ix], [cond[j][1] for j in ix],
                                                [clipped[j] for j in ix], [ill[j] for j in ix])
            info["not_judged"]["clipped"] += n_clip
            info["not_judged"]["ill_conditioned"] += n_ill
            for j, c_ in zip(ix, codes):
                tcode[j] = c_
        # a membership that was positive at the previous evaluation of this realisation is exactly 0 now: the threshold min_value_par
        # truncated it in between (with threshold 0 nothing is truncated)
        trunc = [False] * len(tl)
        for j in range(1, len(tl)):
            trunc[j] = bool(cfg["min_value_par"] > 0 and reals[j] == reals[j - 1] and cond[j][4] < cond[j - 1][4])
        dec = [j for j in range(1, len(tl)) if reals[j] == reals[j - 1] and tcode[j] < tcode[j - 1]]
        info["membership_truncated_in_step"] = trunc
        info["decreasing_steps"] = dec
        info["every_decrease_follows_a_truncation"] = bool(dec) and all(trunc[j] for j in dec)
        info["rounding_bounds"] = [c_[1] for c_ in cond]
        info["impossible_hyperedge"] = [c_[2] for c_ in cond]
        info["membership_at_cap"] = clipped
    events, ends = [], {}
    if ev is not None:
        ends = {e["r"]: e for e in ev if e["kind"] == "mt_end"}
        steps = [(e["r"], e["it"], float(e["loglik"]), bool(e["converged"])) for e in ev if e["kind"] == "mt_step"]
        table = [(int(a), int(b), float(c), bool(d)) for a, b, c, d in zip(ti["realization"], ti["iter"], ti["loglik"], ti["reached_convergence"])]
        info["hook_events_equal_table"] = steps == table
    cur = None
    for j, (a, b, c, d) in enumerate(zip(ti["realization"], ti["iter"], ti["loglik"], ti["reached_convergence"])):
        a, b, c, d = int(a), int(b), float(c), bool(d)
        if a != cur:
            if cur is not None:
                events.append(end_event(cur, ends, xcode))
            events.append({"ev": "start", "r": a})
            cur = a
        events.append({"ev": "step", "r": a, "it": b, "obj": tcode[j], "objx": xcode[c], "conv": d})
    if cur is not None:
        events.append(end_event(cur, ends, xcode))
    ret = {"ev": "return", "maxx": xcode[L]}
    if ends and len(ends) == cfg["n_realizations"]:
        ret["same"] = [bool(same_arrays(np.array(ends[r]["u"]), u) and same_arrays(np.array(ends[r]["w"]), w))
                       for r in range(cfg["n_realizations"])]
    events.append(ret)
    tr = {"cfg": {"nReal": cfg["n_realizations"], "maxIter": cfg["max_iter"], "every": cfg["every"],
                  "ascent": (not cfg["normalizeU"]) and cond is not None, "fixedU": False, "fixedW": False, "assortative": False}, "ev": events}
    info["train_info"] = [[int(a), int(b), float(c), bool(d)] for a, b, c, d in
                          zip(ti["realization"], ti["iter"], ti["loglik"], ti["reached_convergence"])]
    return hy, mt, tr, info


def end_event(r, ends, code):
    e = {"ev": "end", "r": r}
    if r in ends:
        e["objx"] = code[float(ends[r]["loglik"])]
        e["chosen"] = bool(ends[r]["chosen"])
    return e


def validate(res, tier, rng, only=None):
    n_cfg = 480 if tier == "quick" else 6000
    if only is None:
        cfgs = [config(rng, i, tier) for i in range(n_cfg)]
        hrng = random.Random(rng.randrange(1 << 30))          # drawn after the configurations: their stream is unchanged
        cfgs = [failed_history(c, hrng) for c in cfgs] + [dict(c) for c in PINNED]
    else:
        cfgs = only
    cases, cidx, traces, tidx, infos = [], [], [], [], []
    for i, cfg in enumerate(cfgs):
        hy, mt, tr, info = observe(cfg, i)
        infos.append(info)
        for c in (hy, mt):
            if c is not None:
                cases.append(c), cidx.append(i)
        if tr is not None:
            traces.append(tr), tidx.append(i)
    # self-test of the validators: corrupted copies of good observations must be rejected, naming the clause
    selfc, selft = [], []
    if only is None:
        hy0 = next((c for c in cases if c["kind"] == "hysc" and c["N"] > len({n for e in c["edges"] for n in e})), None)
        if hy0 is not None:
            bad = json.loads(json.dumps(hy0))
            iso = next(i for i in range(1, bad["N"] + 1) if all(i not in e for e in bad["edges"]))
            bad["out"][iso - 1][0] = 1                      # an isolated node gets a community
            selfc.append((bad, "hysc_none_for_isolated_node"))
        mt0 = next((c for c in cases if c["kind"] == "mt"), None)
        if mt0 is not None:
            bad = json.loads(json.dumps(mt0))
            bad["wshape"] = [bad["wshape"][0] + 1, bad["wshape"][1]]
            selfc.append((bad, "w_shape"))
        tr0 = next((t for t in traces if t["cfg"]["nReal"] >= 2), None)
        if tr0 is not None:
            a = json.loads(json.dumps(tr0))
            a["ev"][-1]["maxx"] = a["ev"][-1]["maxx"] - 1   # maxL below the best final value
            a["ev"][-1].pop("same", None)
            selft.append((a, "max_loglik_is_best_final"))
    v1 = K_.run_cases("Trace_C17", cases + [x for x, _ in selfc], {}, procs=8)
    v2 = EM.run_traces(traces + [x for x, _ in selft], procs=8)
    for j, (_, clause) in enumerate(selfc):
        if not any(k == len(cases) + j and clause in f for k, f in v1["rejects"]):
            raise tlc.TLCError("Trace_C17 self-test: corrupted case %d was not rejected with %s" % (j, clause))
    for j, (_, clause) in enumerate(selft):
        if not any(t == len(traces) + j and clause in f for t, _, f in v2["rejects"]):
            raise tlc.TLCError("Trace_EM self-test: corrupted trace %d was not rejected with %s" % (j, clause))
    v1["rejects"] = [r for r in v1["rejects"] if r[0] < len(cases)]
    v2["rejects"] = [r for r in v2["rejects"] if r[0] < len(traces)]

    def short(cfg):
        d = {k: cfg[k] for k in ("N", "K", "edges", "weights", "family", "seed", "n_realizations", "max_iter", "every",
                                 "normalizeU", "baseline_r0", "min_value_par")}
        if cfg.get("refit_after"):
            d["model_object_fitted_before_on"] = cfg["refit_after"]
        return d

    def hist(sig, cfg):
        # the history of the model object is part of the signature: a fault that needs a re-used object is another finding
        if cfg.get("refit_after"):
            sig["history"] = ("model object's previous fit failed after training" if cfg["refit_after"].get("failed")
                              else "model object fitted before")
        return sig
    for i, info in enumerate(infos):
        if info["raised"]:
            res.reject(hist({"clauses": sorted({r[0] + "_raised" for r in info["raised"]})}, cfgs[i]),
                       "%s raised on a hypergraph with a hyperedge of size >= 2: %s" % (info["raised"][0][0], info["raised"][0][1][:300]),
                       {"config": cfgs[i]})
        if info.get("hook_events_equal_table") is False:
            res.model_drift("hook events mt_step differ from the rows of train_info (config %s)" % short(cfgs[i]))
    for k, failed in v1["rejects"]:
        i = cidx[k]
        cfg = cfgs[i]
        res.reject(hist({"clauses": failed, "method": cases[k]["kind"]}, cfg),
                   "%s.fit output breaks %s: %s" % ("HySC" if cases[k]["kind"] == "hysc" else "HypergraphMT", ",".join(failed), short(cfg)),
                   {"config": cfg, "logged": cases[k], "returned": {x: infos[i].get(x) for x in ("u", "w", "maxL", "loglik_from_definition", "loglik_tolerance", "row_of_node")}})
    by_trace = {}
    for t, l, failed in v2["rejects"]:
        by_trace.setdefault(t, []).append((l, failed))
    for t, rj in by_trace.items():
        i = tidx[t]
        cfg = cfgs[i]
        prop = sorted({c for _, f in rj for c in f if not c.startswith("m:")})
        model = sorted({c for _, f in rj for c in f if c.startswith("m:")})
        payload = {"config": cfg, "train_info": infos[i].get("train_info"), "maxL": infos[i].get("maxL"), "rejected_events": rj,
                   "events": traces[t]["ev"], "impossible_hyperedge": infos[i].get("impossible_hyperedge"),
                   "membership_at_cap": infos[i].get("membership_at_cap"),
                   "rounding_bounds": infos[i].get("rounding_bounds")}
        if prop:
            sig = {"clauses": prop, "method": "mt", "normalizeU": cfg["normalizeU"]}
            why = ""
            if prop == ["likelihood_ascent"] and infos[i].get("every_decrease_follows_a_truncation"):
                # the only decreases of this run are values computed right after the threshold min_value_par > 0 set a positive
                # membership to zero: a finding of its own (known_findings.json), any other decrease keeps the plain signature
                sig["cause"] = "membership_truncated_to_zero_in_step"
                why = " [every decrease follows a truncation of a membership by min_value_par=%g: steps %s]" % (
                    cfg["min_value_par"], infos[i].get("decreasing_steps"))
                payload["membership_truncated_in_step"] = infos[i].get("membership_truncated_in_step")
            res.reject(hist(sig, cfg),
                       "HypergraphMT.fit train_info breaks %s (first at event %d): %s%s" % (",".join(prop), rj[0][0], short(cfg), why), payload)
        elif model:
            res.model_drift("train_info / hook events deviate from EMDriver in %s: %s" % (",".join(model), short(cfg)))
    # exploration-level keys: one evaluation = one configuration (HySC twice + Hypergraph-MT twice); a configuration is
    # non-trivial when its EM actually iterated (more than one recorded log-likelihood in some realisation); distinct by
    # (hypergraph, K, seed, options)
    def _key(c):
        return json.dumps({k: c[k] for k in sorted(c) if k not in ("ascent",)}, sort_keys=True, default=str)
    nontrivial = {_key(cfgs[i]) for tr, i in zip(traces, tidx) if len(tr["ev"]) > 3}
    res.cov(evaluations=len(cfgs), distinct_nontrivial=len(nontrivial),
            rule=("one evaluation = one seeded configuration (random hypergraph with N 4..10 + isolated nodes, K, D, weights, label "
                  "map, n_realizations, max_iter, normalizeU, baseline_r0, min_value_par) for which HySC.fit and HypergraphMT.fit are "
                  "each run twice; non-trivial = the training trace has more than three recorded events; distinct = different "
                  "configuration record"))
    res.cov(traces_validated_against_impl=len(traces), em_events=v2["events"], em_validator_states=v2["states"],
            output_cases=len(cases), output_validator_states=v1["states"], configurations=len(cfgs),
            fits=2 * len(cfgs), realisations=sum(c["n_realizations"] for c in cfgs),
            ascent_traces=sum(1 for tr in traces if tr["cfg"]["ascent"]),
            ascent_not_judged_no_probe=sum(1 for i_ in infos if i_.get("ascent_judged") is False),
            ascent_steps_not_judged_clipped=sum(i_.get("not_judged", {}).get("clipped", 0) for i_ in infos),
            ascent_steps_not_judged_ill_conditioned=sum(i_.get("not_judged", {}).get("ill_conditioned", 0) for i_ in infos),
            loglik_definition_checked=sum(1 for c in cases if "lldef" in c),
            with_isolated_nodes=sum(1 for c in cfgs if c["N"] > len({n for e in c["edges"] for n in e})),
            model_object_fitted_before=sum(1 for c in cfgs if c.get("refit_after")),
            model_object_previous_fit_failed=sum(1 for c in cfgs if c.get("refit_after") and c["refit_after"].get("failed")),
            hypergraph_object_edited_in_place_between_fits=sum(1 for c in cfgs if c.get("refit_after") and c["refit_after"].get("inplace")),
            non_integer_weights=sum(1 for c in cfgs if c["weights"] and any(x != int(x) for x in c["weights"])),
            hooks_installed=hooks() is not None, validator_selftests=len(selfc) + len(selft))
    if traces:
        res.sample({"config": short(cfgs[tidx[0]]), "train_info_rows": infos[tidx[0]].get("train_info", [])[:6], "maxL": infos[tidx[0]].get("maxL")})


def run(tier, seed):
    res = Result("C17", tier, seed, "exploration")
    rng = random.Random(seed * 1000003 + 17)
    import time
    t0 = time.time()
    explore(res, tier)
    t1 = time.time()
    with single_threaded():
        validate(res, tier, rng)
    res.coverage["phase_wall_s"] = {"explore": round(t1 - t0, 1), "fit_and_validate": round(time.time() - t1, 1)}
    res.assume(
        "TLC has no reals: log-likelihood values enter TLC as integer ranks (exact rank for the bookkeeping of the maximum; for ascent a tolerance "
        "rank per realisation: neighbours closer than 1e-9*max(1,|L|) + the rounding bound of the parameters the value was computed from are "
        "merged by single linkage among the judged values; a value whose bound exceeds 1e-3*max(1,|L|), or that was computed while some membership sat at "
        "the cap max_value_par (constrained memberships), is outside the claim: its comparison with the previous and with the next recorded value is "
        "not judged (counted as ascent_steps_not_judged_*); that bound, 1e-12 * sum_{d,k} w_dk max_{d'<=d} C(N,d') max(1,max u_k)^d, is read by a subclass that observes "
        "_LogLikelihood during fit - when a community dies out w reaches 1e15 and the reported value wobbles by 1e-2 from rounding alone; such "
        "steps are not judged; a value computed while a logged hyperedge has rate 0 (a membership truncated to 0) counts as -inf, its definition, "
        "instead of the epsilon artefact recorded; without the observer ascent is not judged at all and counted), matrices as flags decided in Python "
        "(finite, >= 0, zero row, |row sum - 1| <= 1e-6 + K*min_value_par) and integer entry codes for the HySC matrix",
        "the agreement of maxL with the definition (min_value_par = 0, check_convergence_every = 1) is computed in Python from the definition with "
        "brute-force elementary symmetric polynomials over all node subsets; tolerance 1e-8*max(1,|L|) plus the forward rounding bound "
        "1e-12 * sum_{d,k} w_dk max_{d'<=d} e_d'(u_k) max(1, max u_k)^(d-d') of the incremental recurrences (negligible unless a membership reaches the "
        "cap 100 while w is huge); runs where a logged hyperedge has rate 0 are skipped",
        "ascent is claimed only for normalizeU=False; realisation / iteration order and the stopping rule are model clauses (MODEL-DRIFT, not a violation)",
        "hyperedges have size >= 2 (nodes touched only by singleton hyperedges are an unspecified corner); at least K+1 non-isolated nodes",
        "without hypergraphx/_verif.py only the train_info table is validated; with it the mt_step / mt_end events add: final value of a realisation "
        "= last recorded, chosen iff strictly better, returned parameters are byte-identical to those at the end of the best realisation",
        "reproducibility: two models with the same seed must return bit-identical u, w, maxL and the same train_info (runtime column excluded)",
        "weights are absent, whole numbers 1..3 or dyadic non-integers (0.5 .. 2.5); the definition is evaluated with the weights get_weights() reports",
        "in a quarter of the configurations the observed HySC / HypergraphMT object has been fitted before on another hypergraph with the same number "
        "of nodes and the same K (fit is a function of its arguments: the statement has no clause about the model object's past); its output is "
        "judged like any other and must be identical to that of a fresh object with the same seed; in part of them that earlier fit ended "
        "in an error AFTER training (results to be written into a folder that cannot exist, or an interruption raised by the observer in a "
        "later realisation) which the caller caught before fitting again")
    return res.finish()


def replay(path):
    with open(path) as f:
        rp = json.load(f)
    res = Result("C17", "replay", rp.get("seed", 0), "exploration")
    cfg = rp["payload"]["config"]
    cfg["edges"] = [tuple(e) for e in cfg["edges"]]
    if cfg.get("refit_after"):
        cfg["refit_after"]["edges"] = [tuple(e) for e in cfg["refit_after"]["edges"]]
    validate(res, "quick", random.Random(0), only=[cfg])
    return res.finish()
