"""C06 - Save then load returns the same hypergraph, for every type and format."""
from checks.containers import run_container
from harness.verdict import Result


def run(tier, seed):
    res = Result("C06", tier, seed, "model_checking")
    kinds = ["hg", "dir", "temp", "mux"]
    for i, kind in enumerate(kinds):
        last = i == len(kinds) - 1
        r = run_container("C06", kind, tier, seed, res=res, finish=False, do_explore=(kind == "hg"), queries=False,
                          plan={"saveload": 0.5}, own_ops={"saveload"}, scale=0.35 if tier == "quick" else 1.0)
    from checks import c06_readers
    c06_readers.run(res, tier, seed)
    return res.finish()


def replay(path):
    from checks.containers import replay_container
    return replay_container("C06", path)
