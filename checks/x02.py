"""X02 - interchange writer (write_hif / read_hif round trip), label encoders (get_mapping,
hypergraphx.utils.labeling) and the simplicial closure, against spec/ext/Interchange.tla.

1. explore   TLC, exhaustive, spec/mc/MC_Interchange.tla over the bounded container model: the HIF format
             carries Carried(S) (ReadHif(HifDoc(S)) = Carried(S)), the closure operator is extensive /
             idempotent / monotone / least, the encoder is the unique order-preserving bijection
2. build     real objects under label families, grown by call histories (TLC -simulate over Gen_HGX and
             the biased harness generator: removal detours, re-insertions, metadata calls)
3. observe   write_hif -> the parsed JSON document, read_hif of that file; get_mapping + every function of
             utils/labeling.py; simplicial_complex (twice)
4. validate  TLC evaluates spec/trace/Trace_X02.tla on every logged case
"""
import concurrent.futures as cf
import copy
import json
import os
import random
import shutil

from checks.containers import explore
from harness import cases as K
from harness import containers as C
from harness import tlc
from harness.binding import Binding, LABEL_FAMILIES, md_in, md_out, quiet
from harness.verdict import Result

HIF_INV = ["HifRoundTrip", "HifBareLosesIsolated", "HifDocDiscriminates"]
ENC_INV = ["EncBijective", "EncMonotone", "EncUnique", "EncInverse", "RelabelRoundTrip", "RelabelInjective",
           "RelabelKeepsCanonicalForm"]
CLO_INV = ["ClosureExtensive", "ClosureDownward", "ClosureOnlySubsets", "ClosureIdempotent", "ClosureMonotone",
           "ClosureLeast", "ClosureKeepsNodes", "ClosureWellFormed"]
FAMS = ("ident", "sparse", "str", "zero", "big", "neg", "long", "cat", "scat")
RESERVED = ("node", "edge", "weight", "attrs", "direction")


# ---------------------------------------------------------------------------------------------
# objects with a history
def build(spec):
    """spec = {kind, weighted, n, family, ops, seed, inc}: the object after its call history (calls outside the
    covered corners are skipped exactly as in the container checks), the binding and the generator to go on with"""
    rng = random.Random(spec["seed"])
    b = Binding(spec["kind"], LABEL_FAMILIES[spec["family"]](spec["n"]), rng)
    obj = b.new(spec["weighted"])
    for op in spec["ops"]:
        op = copy.deepcopy(op)
        if not b.supported(op, obj) or b.corner(op, obj):
            continue
        b.apply(obj, op)
    return b, obj, rng


def usable(st):
    if st["err"] or -1 in st["nodes"] or len(set(st["nodes"])) != len(st["nodes"]):
        return False
    for e in st["edges"]:
        k = e["k"]
        if -1 in k["s"] or -1 in k["t"] or not k["s"] or not isinstance(e["w"], int) or e["w"] < 0:
            return False
        if any(x not in st["nodes"] for x in k["s"] + k["t"]):
            return False
    return True


def histories(tier, seed):
    """(kind, weighted, n, ops, origin)"""
    rng = random.Random(seed * 7907 + 2)
    quick = tier == "quick"
    out = []
    jobs = [("hg", True, 3, 8, 25 if quick else 300), ("hg", False, 3, 7, 15 if quick else 200)]
    if not quick:
        jobs += [("dir", True, 3, 7, 120), ("temp", True, 3, 7, 120)]
    with cf.ThreadPoolExecutor(max_workers=4) as ex:
        futs = [(k, w, n, ex.submit(C.tlc_behaviours, k, w, n=n, depth=d, num=num, seed=seed + d, limit=(60 if quick else 700),
                                    metaops=True, batches=False, timeout=900)) for (k, w, n, d, num) in jobs]
        for k, w, n, f in futs:
            for ops in f.result()[0]:
                out.append((k, w, n, ops, "tlc-simulate"))
    plan = ([("hg", 4, 12, 50), ("hg", 5, 16, 40), ("hg", 6, 20, 10), ("dir", 4, 10, 25), ("temp", 4, 10, 25)] if quick else
            [("hg", 4, 12, 700), ("hg", 5, 18, 500), ("hg", 6, 24, 150), ("hg", 3, 10, 300),
             ("dir", 4, 12, 300), ("dir", 5, 16, 150), ("temp", 4, 12, 300), ("temp", 5, 16, 150)])
    for kind, n, length, count in plan:
        for i in range(count):
            w = i % 2 == 0
            out.append((kind, w, n, C.py_behaviour(kind, w, n, length, rng), "harness-biased"))
    # hand-made shapes every check should see: empty, nodes only, one hyperedge, nested, all subsets present
    for w in (False, True):
        out.append(("hg", w, 3, [], "shape"))
        out.append(("hg", w, 3, [{"op": "add_node", "n": 2, "hasmd": False, "md": {}}], "shape"))
        out.append(("hg", w, 4, [{"op": "add_edge", "k": {"s": [1, 2, 3, 4], "t": [], "x": 0}, "w": 3 if w else 0,
                                  "hasmd": True, "md": {"a": "1"}, "bad": ""}], "shape"))
    return out


# ---------------------------------------------------------------------------------------------
# (a) write_hif / read_hif
def _tok(rec):
    """weight field (-1 absent, -2 not an integer) and attributes of a HIF record"""
    if not isinstance(rec, dict):
        return {"w": -1, "md": {}}
    w = rec.get("weight", None)
    if w is None:
        wi = -1
    elif isinstance(w, bool) or not isinstance(w, (int, float)) or w != int(w) or w < 0:
        wi = -2
    else:
        wi = int(w)
    md = {k: v for k, v in rec.items() if k not in RESERVED}
    if isinstance(rec.get("attrs"), dict):
        md.update(rec["attrs"])
    return {"w": wi, "md": md_out(md)}


class Names:
    """node names of a document -> spec ids (a label or its string form; anything else: a fresh negative id);
    edge names -> numbers by first appearance"""

    def __init__(self, b):
        self.b = b
        self.bystr = {str(l): i + 1 for i, l in enumerate(b.labels)}
        self.other = {}
        self.edges = {}

    def node(self, x):
        try:
            i = self.b.inv.get(x)
        except TypeError:
            i = None
        if i is None and isinstance(x, str):
            i = self.bystr.get(x)
        if i is None:
            key = json.dumps(x, sort_keys=True, default=str)
            i = self.other.setdefault(key, -1 - len(self.other))
        return i

    def edge(self, x):
        key = json.dumps(x, sort_keys=True, default=str)
        return self.edges.setdefault(key, 1 + len(self.edges))


def abstract_doc(data, names):
    """(shape ok, abstract document) of a parsed JSON value"""
    empty = {"nodes": [], "edges": [], "incidences": [], "hmd": {}}
    if not isinstance(data, dict) or not isinstance(data.get("incidences"), list):
        return False, empty
    doc = {"nodes": [], "edges": [], "incidences": [], "hmd": {}}
    for r in data["incidences"]:
        if not isinstance(r, dict) or "edge" not in r or "node" not in r:
            return False, empty
        doc["incidences"].append({"edge": names.edge(r["edge"]), "node": names.node(r["node"]), "tok": _tok(r)})
    for arr, fld, fn in (("nodes", "node", names.node), ("edges", "edge", names.edge)):
        if arr not in data:
            continue                     # optional in HIF
        if not isinstance(data[arr], list):
            return False, empty
        for r in data[arr]:
            if not isinstance(r, dict) or fld not in r:
                return False, empty
            doc[arr].append({fld: fn(r[fld]), "tok": _tok(r)})
    if "metadata" in data:
        if not isinstance(data["metadata"], dict):
            return False, empty
        doc["hmd"] = md_out(data["metadata"])
    return True, doc


def read_back(path, names):
    from hypergraphx.readwrite.hif import read_hif
    built = {"nodes": [], "edges": [], "nrec": [], "irec": [], "hmd": {}}
    with quiet():
        R = read_hif(path)
        nodes = list(R.get_nodes())
        ids = {}
        for x in nodes:
            ids.setdefault(x, len(ids) + 1)
        built["nodes"] = [ids[x] for x in nodes]
        for x in nodes:
            try:
                m = R.get_node_metadata(x)
            except Exception:
                m = None
            orig = names.node(m["node"]) if isinstance(m, dict) and "node" in m else 0
            built["nrec"].append({"id": ids[x], "orig": orig, "tok": _tok(m)})
        for e in list(R.get_edges()):
            try:
                m = R.get_edge_metadata(e)
            except Exception:
                m = None
            built["edges"].append({"nodes": [ids.get(x, -99) for x in e], "tok": _tok(m)})
        try:
            for (e, x), m in R.get_all_incidences_metadata().items():
                built["irec"].append({"e": [ids.get(y, -99) for y in e], "n": ids.get(x, -99), "tok": _tok(m)})
        except Exception:
            pass
        built["hmd"] = md_out(R.get_hypergraph_metadata())
    return built


def decorate_incidences(b, obj, rng, how_many):
    """fresh incidence metadata on live (hyperedge, node) pairs: [[node ids of the hyperedge, node, md]]"""
    out = []
    with quiet():
        edges = list(obj.get_edges())
    rng.shuffle(edges)
    for e in edges[:how_many]:
        n = rng.choice(list(e))
        md = {rng.choice(["a", "b"]): rng.choice(["0", "1", "2"])}
        try:
            with quiet():
                obj.set_incidence_metadata(tuple(e), n, md_in(md))
            out.append([sorted(b.unlab(x) for x in e), b.unlab(n), md])
        except Exception:
            pass
    return out


def hif_case(spec, wd, idx):
    from hypergraphx.readwrite.hif import write_hif
    b, obj, rng = build(spec)
    imd = decorate_incidences(b, obj, rng, spec.get("inc", 0))
    st = b.state(obj)
    if not usable(st):
        return None, None
    path = os.path.join(wd, "w%d.hif.json" % idx)
    names = Names(b)
    c = {"kind": "hif", "st": st, "imd": imd, "wrote": True, "shape": False, "read": False,
         "doc": {"nodes": [], "edges": [], "incidences": [], "hmd": {}},
         "built": {"nodes": [], "edges": [], "nrec": [], "irec": [], "hmd": {}}}
    info = {"build": spec, "labels": b.labels, "written": None, "write_error": "", "read_error": ""}
    try:
        with quiet():
            write_hif(obj, path)
        with open(path) as f:
            data = json.load(f)
        info["written"] = data
        c["shape"], c["doc"] = abstract_doc(data, names)
    except Exception as ex:
        c["wrote"] = False
        info["write_error"] = "%s: %s" % (type(ex).__name__, ex)
    c["after"] = b.state(obj)
    if c["wrote"]:
        try:
            c["built"] = read_back(path, names)
            c["read"] = True
        except Exception as ex:
            info["read_error"] = "%s: %s" % (type(ex).__name__, ex)
    return c, info


# ---------------------------------------------------------------------------------------------
# (b) label encoders
def node_tuples(b, obj, rng):
    """the node tuples of the stored hyperedges (canonical when sorted) plus re-listings of some of them"""
    with quiet():
        edges = list(obj.get_edges())
    tups = []
    for e in edges:
        if b.kind == "dir":
            tups += [tuple(e[0]), tuple(e[1])]
        elif b.kind == "temp":
            tups.append(tuple(e[1]))
        else:
            tups.append(tuple(e))
    out = []
    for t in tups:
        try:
            canon = list(t) == sorted(t) and len(set(t)) == len(t)
        except TypeError:
            canon = False
        out.append((t, canon))
        if len(t) > 1 and rng.random() < 0.5:
            l = list(t)
            rng.shuffle(l)
            out.append((tuple(b.lab(b.unlab(x)) for x in l), False))     # fresh label objects, another order
    return out


def enc_case(spec):
    import hypergraphx.utils.labeling as L
    b, obj, rng = build(spec)
    st = b.state(obj)
    if not usable(st) or not st["nodes"]:
        return None, None
    c = {"kind": "enc", "st": st, "ok": True, "lt": [], "codes": [], "bn": [], "batch": [], "back": [], "inv": [],
         "rel": [], "rels": {"r": [], "b": []}, "irel": []}
    info = {"build": spec, "labels": b.labels, "error": ""}
    ids = st["nodes"]
    c["lt"] = [[i, j] for i in ids for j in ids if b.labels[i - 1] < b.labels[j - 1]]
    try:
        with quiet():
            m = obj.get_mapping()
            nodes = list(obj.get_nodes())
            N = len(nodes)
            c["codes"] = [[b.unlab(x), int(L.map_node(m, b.lab(b.unlab(x))))] for x in nodes]
            bn = [rng.choice(nodes) for _ in range(rng.randint(1, N + 2))]
            c["bn"] = [b.unlab(x) for x in bn]
            c["batch"] = [int(v) for v in L.map_nodes(m, bn)]
            c["back"] = [b.unlab(x) for x in L.inverse_map_nodes(m, list(range(N)))]
            c["inv"] = [[int(k), b.unlab(v)] for k, v in L.get_inverse_mapping(m).items()]
            tups = node_tuples(b, obj, rng)
            for t, canon in tups:
                r = L.relabel_edge(m, t)
                back = L.inverse_relabel_edge(m, r)
                c["rel"].append({"e": [b.unlab(x) for x in t], "r": [int(v) for v in r],
                                 "b": [b.unlab(x) for x in back], "canon": canon})
            rs = L.relabel_edges(m, [t for t, _ in tups])
            bs = L.inverse_relabel_edges(m, rs)
            c["rels"] = {"r": [[int(v) for v in r] for r in rs], "b": [[b.unlab(x) for x in e] for e in bs]}
            for _ in range(3):
                q = tuple(rng.sample(range(N), rng.randint(1, N)))
                e = L.inverse_relabel_edge(m, q)
                rr = L.relabel_edge(m, e)
                c["irel"].append({"r": list(q), "e": [b.unlab(x) for x in e], "rr": [int(v) for v in rr]})
    except Exception as ex:
        c["ok"] = False
        info["error"] = "%s: %s" % (type(ex).__name__, ex)
    return c, info


# ---------------------------------------------------------------------------------------------
# (c) simplicial closure
def simp_case(spec):
    from hypergraphx.representations.simplicial_complex import simplicial_complex
    b, obj, rng = build(spec)
    st = b.state(obj)
    if not usable(st):
        return None, None
    c = {"kind": "simp", "st": st, "ok": True, "nodes": [], "edges": [], "twice_ok": False, "twice": []}
    info = {"build": spec, "labels": b.labels, "error": "", "result_weighted": None}
    try:
        with quiet():
            sc = simplicial_complex(obj)
            c["nodes"] = [b.unlab(x) for x in sc.get_nodes()]
            c["edges"] = [b.from_api(e) for e in sc.get_edges()]
            info["result_weighted"] = bool(sc.is_weighted())
        try:
            with quiet():
                sc2 = simplicial_complex(sc)
                c["twice"] = [b.from_api(e) for e in sc2.get_edges()]
            c["twice_ok"] = True
        except Exception as ex:
            info["error"] = "second application: %s: %s" % (type(ex).__name__, ex)
    except Exception as ex:
        c["ok"] = False
        info["error"] = "%s: %s" % (type(ex).__name__, ex)
    c["after"] = b.state(obj)
    return c, info


# ---------------------------------------------------------------------------------------------
PART = {"hif": "write_hif", "enc": "labeling", "simp": "simplicial_complex"}


def describe(st):
    return "nodes %s hyperedges %s%s" % (sorted(st["nodes"]),
                                         [(e["k"]["s"] + (["->"] + e["k"]["t"] if e["k"]["t"] else []), e["w"]) for e in st["edges"]][:8],
                                         " (weighted)" if st["wtd"] else "")


def explorations(res, tier):
    if tier == "quick":
        explore(res, "hg", tier, module="MC_Interchange", invariants=HIF_INV + ENC_INV + CLO_INV,
                configs=[dict(n=3, maxw=1, batches=False, metaops=False),
                         dict(n=2, maxw=2, batches=False, metaops=True, mvals=("1",))])
        explore(res, "dir", tier, module="MC_Interchange", invariants=ENC_INV,
                configs=[dict(n=2, maxw=1, batches=False, metaops=False)])
    else:
        explore(res, "hg", tier, module="MC_Interchange", invariants=HIF_INV + ENC_INV + CLO_INV,
                configs=[dict(n=3, maxw=2, batches=False, metaops=False),
                         dict(n=3, maxw=1, batches=True, metaops=False, weighted=False),
                         dict(n=2, maxw=1, batches=False, metaops=True),
                         dict(n=2, maxw=2, batches=False, metaops=True, mvals=("1",))])
        explore(res, "dir", tier, module="MC_Interchange", invariants=ENC_INV,
                configs=[dict(n=3, maxw=1, batches=False, metaops=False)])
        explore(res, "temp", tier, module="MC_Interchange", invariants=ENC_INV,
                configs=[dict(n=2, maxw=1, batches=False, metaops=False, xs=[0, 1])])


def make_specs(tier, seed):
    specs = []
    for i, (kind, w, n, ops, origin) in enumerate(histories(tier, seed)):
        fam = FAMS[i % len(FAMS)] if origin != "shape" else FAMS[i % 4]
        specs.append({"kind": kind, "weighted": w, "n": n, "family": fam, "ops": ops, "seed": seed * 100003 + i,
                      "inc": (i % 3) if kind == "hg" else 0, "origin": origin})
    return specs


def observe(specs):
    cases, infos = [], []
    skipped = 0
    wd = tlc.workdir("x02")
    try:
        for i, sp in enumerate(specs):
            todo = [enc_case(sp)]
            if sp["kind"] == "hg":
                todo += [hif_case(sp, wd, i), simp_case(sp)]
            for c, info in todo:
                if c is None:
                    skipped += 1
                    continue
                cases.append(c)
                infos.append(info)
    finally:
        shutil.rmtree(wd, ignore_errors=True)
    return cases, infos, skipped


def validate(cases, infos):
    """[(index, failed clauses)] over all cases; one TLC batch family per container kind"""
    rejects, states = [], 0
    by_kind = {}
    for i, (c, info) in enumerate(zip(cases, infos)):
        by_kind.setdefault(info["build"]["kind"], []).append(i)
    for kind, idxs in sorted(by_kind.items()):
        v = K.run_cases("Trace_X02", [cases[i] for i in idxs], {"Kind": kind}, procs=8,
                        per_batch=max(25, len(idxs) // 8 + 1))
        rejects += [(idxs[j], failed) for j, failed in v["rejects"]]
        states += v["states"]
    return sorted(rejects), states


def report(res, cases, infos, rejects):
    for idx, failed in rejects:
        c, info = cases[idx], infos[idx]
        part = PART[c["kind"]]
        sp = info["build"]
        sig = {"part": part, "clauses": failed, "container": sp["kind"]}
        tail = ""
        payload = {"build": sp, "labels": info["labels"], "state": c["st"], "failed": failed}
        if c["kind"] == "hif":
            tail = "; written document: %s%s%s" % (json.dumps(info["written"], default=str)[:500],
                                                    ("; write_hif raised " + info["write_error"]) if info["write_error"] else "",
                                                    ("; read_hif raised " + info["read_error"]) if info["read_error"] else "")
            payload.update({"written": info["written"], "abstract_document": c["doc"], "read_back": c["built"],
                            "incidence_metadata": c["imd"], "write_error": info["write_error"], "read_error": info["read_error"]})
        elif c["kind"] == "enc":
            tail = ("; raised " + info["error"]) if info["error"] else ""
            payload.update({"logged": {k: v for k, v in c.items() if k not in ("st",)}, "error": info["error"]})
        else:
            tail = "; result nodes %s hyperedges %s%s" % (c["nodes"], [e["s"] for e in c["edges"]][:16],
                                                          ("; " + info["error"]) if info["error"] else "")
            payload.update({"result_nodes": c["nodes"], "result_edges": c["edges"], "twice": c["twice"], "error": info["error"]})
        res.reject(sig, "%s: %s fail(s) on a %s with %s under labels %s%s"
                   % (part, ",".join(failed), sp["kind"], describe(c["st"]), info["labels"], tail), payload)


def coverage(res, specs, cases, infos, skipped, states):
    hif = [(c, i) for c, i in zip(cases, infos) if c["kind"] == "hif"]
    enc = [(c, i) for c, i in zip(cases, infos) if c["kind"] == "enc"]
    simp = [(c, i) for c, i in zip(cases, infos) if c["kind"] == "simp"]

    def isolated(st):
        cov = {x for e in st["edges"] for x in e["k"]["s"] + e["k"]["t"]}
        return [x for x in st["nodes"] if x not in cov]

    def canon(st):
        return json.dumps([sorted(st["nodes"]), sorted((e["k"]["s"], e["k"]["t"], e["k"]["x"], e["w"]) for e in st["edges"])], default=str)

    res.cov(traces_validated_against_impl=len(cases), validator_states=states, objects_built=len(specs),
            cases_outside_the_covered_states=skipped,
            distinct_abstract_states=len({canon(c["st"]) for c in cases}),
            hif_cases=len(hif), encoder_cases=len(enc), simplicial_cases=len(simp),
            hif_written_files_parsed=sum(1 for c, _ in hif if c["wrote"]),
            hif_documents_hif_shaped=sum(1 for c, _ in hif if c["wrote"] and c["shape"]),
            hif_files_read_back=sum(1 for c, _ in hif if c["read"]),
            hif_sources_with_isolated_nodes=sum(1 for c, _ in hif if isolated(c["st"])),
            hif_sources_weighted_with_a_weight_other_than_1=sum(1 for c, _ in hif if any(e["w"] != 1 for e in c["st"]["edges"])),
            hif_sources_with_hyperedge_metadata=sum(1 for c, _ in hif if any(e["md"] for e in c["st"]["edges"])),
            hif_sources_with_node_metadata=sum(1 for c, _ in hif if any(p[1] for p in c["st"]["nmd"])),
            hif_sources_with_incidence_metadata=sum(1 for c, _ in hif if c["imd"]),
            encoder_cases_by_container={k: sum(1 for _, i in enc if i["build"]["kind"] == k) for k in ("hg", "dir", "temp")},
            encoder_relabelled_tuples=sum(len(c["rel"]) for c, _ in enc),
            encoder_cases_after_a_node_removal=sum(1 for _, i in enc if any(o["op"] in ("remove_node", "remove_nodes") for o in i["build"]["ops"])),
            simplicial_results_with_the_empty_hyperedge=sum(1 for c, _ in simp if any(not e["s"] for e in c["edges"])),
            simplicial_sources_with_isolated_nodes=sum(1 for c, _ in simp if isolated(c["st"])),
            simplicial_isolated_source_nodes_dropped=sum(1 for c, _ in simp if c["ok"] and set(isolated(c["st"])) - set(c["nodes"])),
            simplicial_weighted_sources=sum(1 for c, _ in simp if c["st"]["wtd"]),
            simplicial_results_weighted=sum(1 for _, i in simp if i["result_weighted"]),
            label_families=sorted({i["build"]["family"] for i in infos}),
            objects_by_origin={o: sum(1 for s in specs if s["origin"] == o) for o in sorted({s["origin"] for s in specs})})
    pick = [k for k, (c, i) in enumerate(hif) if c["wrote"] and i["written"] is not None]
    if pick:
        c, i = hif[max(pick, key=lambda k: len(hif[k][0]["st"]["edges"]))]
        res.sample({"part": "write_hif", "labels": i["labels"], "state": describe(c["st"]), "written": i["written"],
                    "read_back": c["built"]})
    if enc:
        c, i = enc[len(enc) // 2]
        res.sample({"part": "labeling", "container": i["build"]["kind"], "labels": i["labels"], "codes": c["codes"],
                    "inverse_mapping": c["inv"], "relabelled": c["rel"][:4]})
    if simp:
        c, i = simp[len(simp) // 2]
        res.sample({"part": "simplicial_complex", "labels": i["labels"], "state": describe(c["st"]),
                    "result_nodes": c["nodes"], "result_hyperedges": [e["s"] for e in c["edges"]]})
    res.assume("write_hif: Hypergraph only; labels int or str, metadata keys a/b with values 0/1/nested dict (never the "
               "reserved HIF fields node/edge/weight/attrs); a node name in the file is accepted as the label or its "
               "string form; attributes are looked for under 'attrs' and next to the reserved fields, inclusion only; "
               "an absent weight means 1; incidence metadata is demanded only for (hyperedge, node) pairs decorated at "
               "the end of the history",
               "round trip: compared up to a bijection of node names pinned by the 'node' field of the node records "
               "read_hif keeps; node labels, weightedness and weights-as-weights are NOT carried (read_hif builds an "
               "unweighted Hypergraph over 0..n-1) and not demanded",
               "labeling: the order of labels is the input relation `lt` (Python `<` on the labels of one family); "
               "hypergraphs without nodes are not judged; directed hyperedges are relabelled per role, temporal ones "
               "without their time; MultiplexHypergraph has no get_mapping",
               "simplicial_complex: the empty hyperedge the code also emits is tolerated and counted (as in C10); "
               "isolated nodes of the source may or may not be kept (counted); nothing is demanded about weights "
               "(the docstring promises nothing)")


def run(tier, seed):
    res = Result("X02", tier, seed, "model_checking")
    with cf.ThreadPoolExecutor(max_workers=1) as ex:
        fut = ex.submit(explorations, res, tier)         # TLC processes; the Python work below overlaps with them
        specs = make_specs(tier, seed)
        cases, infos, skipped = observe(specs)
        rejects, states = validate(cases, infos)
        fut.result()
    report(res, cases, infos, rejects)
    coverage(res, specs, cases, infos, skipped, states)
    return res.finish()


def replay(path):
    """rebuild the object of a replay file from its call history and judge the same part again"""
    with open(path) as f:
        rp = json.load(f)
    sp = rp["payload"]["build"]
    part = rp["signature"]["part"]
    wd = tlc.workdir("x02r")
    try:
        c, info = {"write_hif": lambda: hif_case(sp, wd, 0), "labeling": lambda: enc_case(sp),
                   "simplicial_complex": lambda: simp_case(sp)}[part]()
    finally:
        shutil.rmtree(wd, ignore_errors=True)
    if c is None:
        print("replay of %s: the object is outside the covered states on the current tree" % path)
        return 0
    v = K.run_cases("Trace_X02", [c], {"Kind": sp["kind"]}, procs=1)
    wanted = set(rp["signature"].get("clauses", []))
    for _, failed in v["rejects"]:
        print("failing clauses: %s" % ",".join(failed))
        if wanted & set(failed):
            print("VIOLATION property=X02 replay=%s" % path)
            return 1
    print("replay of %s: the recorded violation does not reproduce on the current tree" % path)
    return 0
