"""C05 - Sub-hypergraph extraction and copy are faithful and leave the source untouched."""
from checks.containers import run_container, explore
from harness.verdict import Result

OPS = {"derive", "copy"}


def run(tier, seed):
    res = Result("C05", tier, seed, "model_checking")
    explore(res, "hg", tier, module="MC_Derive",
            invariants=["SubIsRestriction", "SelectionsWellFormed", "BySizesPartition", "UpToMonotone", "LargestIsComponent"],
            configs=[dict(n=3, maxw=2 if tier == "thorough" else 1, batches=False, metaops=False),
                     dict(n=2, maxw=1, batches=False, metaops=True, mvals=("1",))])
    explore(res, "dir", tier, module="MC_Derive", invariants=["SelectionsWellFormed", "UpToMonotone"],
            configs=[dict(n=3, maxw=1, batches=False, metaops=False)])
    p = 0.3 if tier == "quick" else 0.6
    run_container("C05", "hg", tier, seed, res=res, finish=False, do_explore=False, queries=False,
                  plan={"derive": ("sub", p)}, own_ops=OPS, always_own=("other_objects_untouched",),
                  scale=0.5 if tier == "quick" else 1.0)
    return run_container("C05", "dir", tier, seed, res=res, do_explore=False, queries=False,
                         plan={"derive": ("sub", p)}, own_ops=OPS, always_own=("other_objects_untouched",),
                         scale=0.5 if tier == "quick" else 1.0)


def replay(path):
    from checks.containers import replay_container
    return replay_container("C05", path)
