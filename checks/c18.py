"""C18 - Random walks are stochastic and stationary; contagion exact when deterministic.

design     MC_RandWalk (exact rational identities on every connected hypergraph of a small universe),
           MC_Contagion (the Sweep action: monotonicity, functional deterministic regimes, horizon)
code->spec random walk: oracle mode (Oracle_C18: TLC emits K and Pi as exact rationals and decides the
           discrete clauses about sampled walks); contagion: trace validation (Trace_C18: the returned
           vector and, with the hook, every sweep as ONE Sweep step from the previous infected set)

A quarter of the random-walk hypergraphs and a fifth of the contagion runs are reached by EDITING an object on which the
functions have already been called (per-object memoisation); a fifth of the others by an edit that keeps the numbers of nodes and
hyperedges, after calls with exactly the arguments of the judged observation (same_counts); starting densities are float- or integer-typed.

Every executed case is described by a small JSON `spec` (hypergraph, labels, arguments, seeds) from
which it can be re-executed exactly: that is the replay payload.
"""
import concurrent.futures as cf
import itertools
import json
import random
from fractions import Fraction

import numpy as np

from harness import oracle as O
from harness import tlc
from harness.binding import Binding, LABEL_FAMILIES, quiet
from harness.verdict import Result

TOL = 1e-9

RW_INV = ["ConnectedMeansDefined", "RowStochastic", "KProportionalToWeight", "PiIsDistribution", "PiStationary",
          "DetailedBalance", "PushKeepsMass"]
CT_INV = ["DeterministicRegimesFunctional", "FractionsInUnit", "StartsAtInitial", "HorizonRespected",
          "OutIsTrajectory", "DeadStaysDead", "OnlyPairsAndTriangles"]
CT_STEP = ["MonotoneUpIfMuZero", "MonotoneDownIfNoInfection", "DeterministicStep", "OnlyOldStateRead"]


# ---------------------------------------------------------------------------
# design exploration
def _explore_one(job):
    module, consts, invs = job
    r = tlc.run(module, tlc.cfg_text(consts, invariants=invs), workers=8, timeout=3000, heap="8g")
    if not tlc.ok_exploration(r):
        raise tlc.TLCError("%s %s failed:\n%s" % (module, consts, tlc.error_excerpt(r["out"])))
    s = tlc.stats(r["out"])
    c = {k: (sorted(v) if isinstance(v, (set, frozenset)) else v) for k, v in consts.items()}
    return {"module": module, "constants": c, "states": s["distinct"], "transitions": s["generated"],
            "wall_s": round(r["wall"], 1)}


def explore_jobs(tier):
    def rw(n, zmin, zmax, me):
        return ("MC_RandWalk", {"Kind": "hg", "Node": set(range(1, n + 1)), "ZMin": zmin, "ZMax": zmax, "MaxEdges": me}, RW_INV)

    def ct(n, zmin, zmax, T, keep):
        return ("MC_Contagion", {"Kind": "hg", "Node": set(range(1, n + 1)), "ZMin": zmin, "ZMax": zmax, "T": T, "KeepOut": keep}, CT_INV)
    if tier == "quick":
        return [rw(4, 2, 4, 11), ct(3, 2, 3, 4, True), ct(4, 2, 3, 2, False)]
    return [ct(4, 2, 3, 4, False), ct(4, 2, 3, 3, True), rw(4, 2, 4, 11), rw(3, 2, 3, 4), rw(5, 2, 5, 4),
            ct(3, 1, 3, 4, True)]


# ---------------------------------------------------------------------------
# hypergraph generation (spec node ids 1..n; hyperedges as sorted tuples)
def all_edges(n, zmin, zmax):
    return [e for z in range(zmin, zmax + 1) for e in itertools.combinations(range(1, n + 1), z)]


def is_connected(n, edges):
    if n == 0:
        return False
    seen, todo = {1}, [1]
    while todo:
        x = todo.pop()
        for e in edges:
            if x in e:
                for y in e:
                    if y not in seen:
                        seen.add(y)
                        todo.append(y)
    return len(seen) == n


def random_connected(rng, n, zmax):
    """random connected hypergraph covering 1..n, sizes 2..zmax"""
    while True:
        edges = set()
        for _ in range(rng.randint(1, n + 2)):
            z = rng.randint(2, min(zmax, n))
            edges.add(tuple(sorted(rng.sample(range(1, n + 1), z))))
        tries = 0
        while not is_connected(n, edges) and tries < 20:      # stitch the components
            z = rng.randint(2, min(zmax, n))
            edges.add(tuple(sorted(rng.sample(range(1, n + 1), z))))
            tries += 1
        if is_connected(n, edges):
            return sorted(edges)


def build(b, edges, rng, extra_nodes=()):
    # every third object is a WEIGHTED hypergraph with weights != 1: the statement's walk and contagion are defined
    # by the hyperedges alone ((size - 1) per shared hyperedge), so nothing else changes
    weighted = rng.random() < 0.34
    obj = b.new(weighted)
    edges = [tuple(e) for e in edges]
    rng.shuffle(edges)
    with quiet():
        for n in extra_nodes:
            obj.add_node(b.lab(n))
        for e in edges:
            if weighted:
                obj.add_edge(b._tuple(e), weight=rng.choice([2, 3, 5]))
            else:
                obj.add_edge(b._tuple(e))
    return obj


def mutate(b, obj, old, new, rng):
    """edit the SAME object from the hyperedge set `old` into `new` through remove_edge / add_edge (nodes stay)"""
    old, new = {tuple(e) for e in old}, {tuple(e) for e in new}
    ops = [("remove", e) for e in sorted(old - new)] + [("add", e) for e in sorted(new - old)]
    rng.shuffle(ops)
    with quiet():
        for op, e in ops:
            if op == "remove":
                obj.remove_edge(b._tuple(e))
            else:
                obj.add_edge(b._tuple(e))


def swapped(edges, n, hr, connected=False):
    """`edges` with 1-2 hyperedges replaced by as many others of the same sizes over 1..n (same number of hyperedges, and - when
    connected is asked - still connected, hence the same nodes); None when no such neighbour is found"""
    edges = [tuple(e) for e in edges]
    if not edges:
        return None
    for _ in range(30):
        out = hr.sample(edges, hr.randint(1, min(2, len(edges))))
        new = []
        for e in out:
            for _ in range(10):
                o = tuple(sorted(hr.sample(range(1, n + 1), len(e))))
                if o not in edges and o not in new:
                    new.append(o)
                    break
        if len(new) != len(out):
            continue
        before = [e for e in edges if e not in out] + new
        if not connected or is_connected(n, before):
            return sorted(before)
    return None


def settle_weights(b, obj, edges, er):
    """after an in-place edit of a WEIGHTED object: one of the hyperedges gets another weight too"""
    with quiet():
        if obj.is_weighted() and edges:
            obj.set_weight(b._tuple(er.choice([tuple(e) for e in edges])), er.choice([2, 3, 4]))


HISTORY_SHARE = 0.2


# ---------------------------------------------------------------------------
# random walk part.  spec = {part, n, edges, case_seed, np_seed, ndens, nwalks [, prev_edges [, same_counts]]}
# prev_edges: the object is first built with these hyperedges (connected, same nodes), every random-walk function is
# called on it, then the SAME object is edited into `edges`; what is observed and judged is the object as it is now.
# same_counts: prev_edges has as many hyperedges as `edges` (k replaced by k others), the functions are first called with
# exactly the arguments of the judged observation (the first argument combination of each once more at the end), and
# nothing is called between the edit and the observation
def rw_observe(RW, obj, n, spec, rng, first_only=False):
    """call the four functions of dynamics/randwalk.py; first_only: the same draws, only the first argument combination of each"""
    nseed = spec["np_seed"]
    log = {}
    with quiet():
        try:
            K = RW.transition_matrix(obj)
            log["K"] = np.asarray(K.todense(), dtype=float).tolist()
        except Exception as ex:
            log["K_error"] = "%s: %s" % (type(ex).__name__, ex)
        try:
            pi = RW.RW_stationary_state(obj)
            log["Pi"] = [float(x) for x in np.asarray(pi, dtype=float).ravel()]
        except Exception as ex:
            log["Pi_error"] = "%s: %s" % (type(ex).__name__, ex)
        dens = []
        # "the walker starts on node j" as a float vector or as an integer-typed one (a row of np.eye(n, dtype=int))
        starts = [np.eye(n, dtype=rng.choice([float, int]))[rng.randrange(n)], np.full(n, 1.0 / n)]
        w = np.array([rng.random() + 0.01 for _ in range(n)])
        starts.append(w / w.sum())
        for s0 in starts[:spec["ndens"]]:
            time = rng.choice([0, 1, 2, 3, 5, 8])
            if first_only and dens:
                continue
            try:
                lst = RW.random_walk_density(obj, np.array(s0), time)
                dens.append({"s0": [float(x) for x in s0], "time": time, "dtype": str(np.asarray(s0).dtype),
                             "list": [[float(x) for x in np.asarray(d, dtype=float).ravel()] for d in lst]})
            except Exception as ex:
                dens.append({"s0": [float(x) for x in s0], "time": time, "error": "%s: %s" % (type(ex).__name__, ex)})
        log["dens"] = dens
        walks = []
        for k in range(spec["nwalks"]):
            s = rng.randrange(n)
            time = rng.choice([0, 1, 2, 6, 12, 25])
            if first_only and walks:
                continue
            np.random.seed(nseed + k)
            try:
                nodes = RW.random_walk(obj, s, time)
                walks.append({"s": s + 1, "time": time, "nodes": [int(x) + 1 for x in nodes], "np_seed": nseed + k})
            except Exception as ex:
                walks.append({"s": s + 1, "time": time, "error": "%s: %s" % (type(ex).__name__, ex), "np_seed": nseed + k})
        log["walks"] = walks
    return log


def rw_execute(spec):
    """build the hypergraph (labels 0..n-1) and call the four functions of dynamics/randwalk.py;
    returns (case for TLC, log); floats stay on this side"""
    import hypergraphx.dynamics.randwalk as RW
    n, nseed = spec["n"], spec["np_seed"]
    rng = random.Random(spec["case_seed"])
    b = Binding("hg", LABEL_FAMILIES["zero"](n), rng)
    if spec.get("prev_edges") is not None and spec.get("same_counts"):
        obj = build(b, spec["prev_edges"], rng)
        for first_only in (False, True):           # a clone of the generator replays the draws of the coming observation
            r = random.Random()
            r.setstate(rng.getstate())
            rw_observe(RW, obj, n, spec, r, first_only)
        er = random.Random(spec["case_seed"] + 7919)
        keep, b.rng = b.rng, er
        mutate(b, obj, spec["prev_edges"], spec["edges"], er)
        settle_weights(b, obj, spec["edges"], er)
        b.rng = keep
    elif spec.get("prev_edges") is not None:
        obj = build(b, spec["prev_edges"], rng)
        with quiet():
            np.random.seed(nseed)
            for fn, args in ((RW.transition_matrix, ()), (RW.RW_stationary_state, ()),
                             (RW.random_walk_density, (np.full(n, 1.0 / n), 2)), (RW.random_walk, (0, 3))):
                try:
                    fn(obj, *args)
                except Exception:
                    pass                           # judged on its own in the cases without a history
        mutate(b, obj, spec["prev_edges"], spec["edges"], rng)
    else:
        obj = build(b, spec["edges"], rng)
    log = rw_observe(RW, obj, n, spec, rng)
    case = {"st": b.state(obj), "walks": [w_ for w_ in log["walks"] if "nodes" in w_]}
    return case, log


def rw_judge(log, val, n):
    """python-side clauses: floats against the exact rationals TLC emitted. returns {clause: detail}"""
    bad = {}
    Kq = [[Fraction(x[0], x[1]) for x in row] for row in val["K"]]
    Ks = np.array([[float(x) for x in row] for row in Kq])
    Pis = np.array([float(Fraction(x[0], x[1])) for x in val["Pi"]])
    if "K" not in log:
        bad["transition_matrix_returned"] = log.get("K_error")
    else:
        K = np.array(log["K"])
        if K.shape != (n, n):
            bad["transition_matrix_entries"] = "shape %s" % (K.shape,)
        else:
            d = np.abs(K - Ks)
            if not np.all(np.isfinite(K)) or d.max() > TOL:
                i, j = np.unravel_index(np.nanargmax(np.where(np.isfinite(d), d, np.inf)), d.shape)
                bad["transition_matrix_entries"] = "K[%d,%d]=%r, specification %s" % (i, j, float(K[i, j]), Kq[i][j])
            if not np.all(np.isfinite(K)) or np.abs(K.sum(axis=1) - 1).max() > TOL or K.min() < 0:
                bad["transition_matrix_row_stochastic"] = "row sums %s" % K.sum(axis=1).tolist()
    if "Pi" not in log:
        bad["stationary_state_returned"] = log.get("Pi_error")
    else:
        pi = np.array(log["Pi"])
        if pi.shape != (n,) or not np.all(np.isfinite(pi)):
            bad["stationary_is_probability_vector"] = "%s" % pi.tolist()
        else:
            if abs(pi.sum() - 1) > 1e-8 or pi.min() < -1e-12:
                bad["stationary_is_probability_vector"] = "sum %r min %r" % (float(pi.sum()), float(pi.min()))
            if np.abs(pi @ Ks - pi).max() > 1e-8:
                bad["stationary_fixed_by_transition_matrix"] = "max |pi K - pi| = %.3g (pi=%s)" % (np.abs(pi @ Ks - pi).max(), pi.tolist())
            if np.abs(pi - Pis).max() > 1e-8:
                bad["stationary_proportional_to_squared_sizes"] = "returned %s, specification %s" % (
                    pi.tolist(), [str(Fraction(x[0], x[1])) for x in val["Pi"]])
    for d in log["dens"]:
        if "error" in d:
            bad["density_returned"] = d["error"]
            continue
        lst = [np.array(x) for x in d["list"]]
        if len(lst) != d["time"] + 1 or any(x.shape != (n,) for x in lst):
            bad["model_density_one_per_time"] = "%d densities for time=%d" % (len(lst), d["time"])
            continue
        if np.abs(lst[0] - np.array(d["s0"])).max() > TOL:
            bad["model_density_starts_at_given"] = "first density %s" % lst[0].tolist()
        for t_ in range(1, len(lst)):
            if not np.all(np.isfinite(lst[t_])) or np.abs(lst[t_] - lst[t_ - 1] @ Ks).max() > TOL:
                bad["density_step_is_previous_times_K"] = "step %d: %s, expected %s" % (t_, lst[t_].tolist(), (lst[t_ - 1] @ Ks).tolist())
                break
        for t_ in range(len(lst)):
            if not abs(lst[t_].sum() - 1) <= TOL:
                bad["density_sums_to_one"] = "step %d sums to %r" % (t_, float(lst[t_].sum()))
                break
    for w in log["walks"]:
        if "error" in w:
            bad["walk_returned"] = w["error"]
    return bad


def rw_validate(res, specs, procs=8):
    """execute, send to TLC, judge; returns (number rejected, cases, logs, values, validator states)"""
    cases, logs = [], []
    for sp in specs:
        c, log = rw_execute(sp)
        cases.append(c)
        logs.append(log)
    v = O.run_oracle("Oracle_C18", cases, {"Kind": "hg"}, procs=procs)
    tl = dict(v["rejects"])
    nrej = 0
    for i, (sp, log, val) in enumerate(zip(specs, logs, v["values"])):
        failed = list(tl.get(i, []))
        if not val.get("ok") or any(f.startswith("spec_") or f == "input_in_scope" for f in failed):
            raise tlc.TLCError("C18 random walk: the harness produced an input outside the statement's scope or the "
                               "specification contradicts itself on %s: %s" % (sp, failed))
        detail = rw_judge(log, val, sp["n"])
        failed += sorted(detail)
        e0 = [[x - 1 for x in e] for e in sp["edges"]]
        prop = [f for f in failed if not f.startswith("model_")]
        if failed and not prop:
            res.model_drift("random walk on %s: only model-detail clauses fail (%s)" % (e0, ",".join(failed)))
        if not prop:
            continue
        nrej += 1
        fn = sorted({"RW_stationary_state" if f.startswith("stationary") else
                     "transition_matrix" if f.startswith("transition") else
                     "random_walk_density" if f.startswith("density") else "random_walk" for f in prop})
        sig = {"part": "randwalk", "function": fn if len(fn) > 1 else fn[0], "clauses": sorted(prop)}
        hist = ""
        if sp.get("prev_edges") is not None:
            sig["history"] = "object edited after earlier calls"
            hist = " [the same object had the hyperedges %s when the functions were first called on it%s]" % (
                [[x - 1 for x in e] for e in sp["prev_edges"]],
                " with the same arguments; it was then edited in place, as many hyperedges removed as added" if sp.get("same_counts") else "")
        res.reject(sig,
                   "random walk on the connected hypergraph %s (nodes 0..%d)%s: %s" % (
                       e0, sp["n"] - 1, hist, "; ".join("%s [%s]" % (f, detail.get(f, "decided by TLC")) for f in sorted(prop))),
                   {"spec": sp, "hyperedges_0_based": e0, "failed": failed, "detail": detail,
                    "logged": {k: log[k] for k in ("K", "Pi", "Pi_error", "K_error", "walks") if k in log}})
    return nrej, cases, logs, v


def randwalk_part(res, tier, seed):
    rng = random.Random(seed * 1009 + 18)
    todo = []          # (n, edges)
    e3 = all_edges(3, 2, 3)
    for mask in range(1 << len(e3)):
        es = [e3[j] for j in range(len(e3)) if mask >> j & 1]
        if is_connected(3, es):
            todo.append((3, es))
    todo.append((2, [(1, 2)]))
    e4 = all_edges(4, 2, 4)
    conn4 = []
    for mask in range(1 << len(e4)):
        es = [e4[j] for j in range(len(e4)) if mask >> j & 1]
        if is_connected(4, es):
            conn4.append(es)
    exhaustive4 = tier != "quick"
    for es in (conn4 if exhaustive4 else rng.sample(conn4, 400)):
        todo.append((4, es))
    # single hyperedges of every size, stars, chains: the shapes on which the historic solver was singular
    for z in (2, 3, 4, 5):
        todo.append((z, [tuple(range(1, z + 1))]))
    todo.append((5, [(1, 2), (2, 3), (3, 4), (4, 5)]))
    todo.append((5, [(1, 2), (1, 3), (1, 4), (1, 5)]))
    for _ in range(400 if tier == "quick" else 6000):
        n = rng.choice([5, 6, 7, 8])
        todo.append((n, random_connected(rng, n, 5)))
    specs = [{"part": "randwalk", "n": n, "edges": [list(e) for e in es],
              "case_seed": seed * 1000003 + i, "np_seed": (seed * 7919 + i * 13) % (2 ** 31),
              "ndens": 2 if tier == "quick" else 3, "nwalks": 3 if tier == "quick" else 5}
             for i, (n, es) in enumerate(todo)]
    # every fourth hypergraph is reached by editing an object on which the functions have already been called
    for i, sp in enumerate(specs):
        if i % 4 == 1 and sp["n"] >= 3:
            prev = rng.choice(conn4) if sp["n"] == 4 else random_connected(rng, sp["n"], 5)
            if sorted(tuple(e) for e in prev) != sorted(tuple(e) for e in sp["edges"]):
                sp["prev_edges"] = [list(e) for e in prev]
    # ... and a fifth of the others by an edit that keeps the numbers of nodes and hyperedges, after calls with the SAME arguments
    hr = random.Random(seed * 7919 + 18)
    for sp in specs:
        if sp.get("prev_edges") is None and sp["n"] >= 3 and hr.random() < HISTORY_SHARE:
            before = swapped(sp["edges"], sp["n"], hr, connected=True)
            if before is not None:
                sp["prev_edges"], sp["same_counts"] = [list(e) for e in before], True
    nrej, cases, logs, v = rw_validate(res, specs)
    res.cov(objects_measured_again_after_in_place_edit=sum(1 for sp in specs if sp.get("same_counts")),
            randwalk_objects_measured_again_after_in_place_edit=sum(1 for sp in specs if sp.get("same_counts")))
    res.cov(randwalk_hypergraphs=len(cases), randwalk_rejected=nrej,
            walks_validated=sum(len(c["walks"]) for c in cases),
            density_steps_validated=sum(max(0, len(d.get("list", [])) - 1) for l in logs for d in l["dens"]),
            connected_4_node_hypergraphs_exhaustive=exhaustive4,
            randwalk_on_edited_objects=sum(1 for sp in specs if sp.get("prev_edges") is not None),
            integer_typed_starting_densities=sum(1 for l in logs for d in l["dens"] if d.get("dtype", "").startswith("int")),
            traces_validated_against_impl=len(cases), validator_states=v["states"])
    res.sample({"part": "randwalk", "spec": specs[-1], "K_spec_row0": v["values"][-1]["K"][0], "Pi_spec": v["values"][-1]["Pi"],
                "Pi_returned": logs[-1].get("Pi", logs[-1].get("Pi_error")), "walk": logs[-1]["walks"][0]})


# ---------------------------------------------------------------------------
# contagion part.  spec = {part, n, edges, family, I0, T, rates, np_seed, case_seed}
def level(x):
    return "0" if x == 0 else ("1" if x >= 1 else "mid")


def drain():
    try:
        from hypergraphx import _verif
    except Exception:
        return None
    if not getattr(_verif, "ON", False):
        return None
    ev = list(_verif.EVENTS)
    del _verif.EVENTS[:]
    return ev


def ct_execute(spec):
    """one call of simplicial_contagion -> (trace, labels, error)"""
    from hypergraphx.dynamics.contagion import simplicial_contagion
    n, T, rates = spec["n"], spec["T"], spec["rates"]
    rng = random.Random(spec["case_seed"])
    b = Binding("hg", LABEL_FAMILIES[spec["family"]](n), rng)
    I0 = set(spec["I0"])
    I_0 = {b.lab(x): (1 if x in I0 else 0) for x in range(1, n + 1)}
    if spec.get("prev_edges") is not None:
        # the same object, with other hyperedges, has been through a run before
        obj = build(b, spec["prev_edges"], rng, extra_nodes=range(1, n + 1))
        np.random.seed(spec["np_seed"] + 1)
        try:
            with quiet():
                simplicial_contagion(obj, dict(I_0), T, rates[0], rates[1], rates[2])
        except Exception:
            pass
        mutate(b, obj, spec["prev_edges"], spec["edges"], rng)
        if spec.get("same_counts"):
            settle_weights(b, obj, spec["edges"], rng)
    else:
        obj = build(b, spec["edges"], rng, extra_nodes=range(1, n + 1))
    drain()
    np.random.seed(spec["np_seed"])
    try:
        with quiet():
            out = simplicial_contagion(obj, I_0, T, rates[0], rates[1], rates[2])
        out = [float(x) for x in np.asarray(out, dtype=float).ravel()]
    except Exception as ex:
        drain()
        return None, b.labels, "%s: %s" % (type(ex).__name__, ex)
    hooked = drain()
    counts = [int(round(x * n)) if np.isfinite(x) else -1 for x in out]
    integral = all(np.isfinite(x) and abs(x * n - round(x * n)) < 1e-9 for x in out)
    run = {"kind": "run", "st": b.state(obj), "I0": sorted(I0), "T": T,
           "r": {"beta": level(rates[0]), "betaD": level(rates[1]), "mu": level(rates[2])},
           "out": counts, "integral": integral, "feas": n <= 6}
    trace = [run]
    for e in hooked or []:
        if e.get("kind") == "contagion_sweep":
            trace.append({"kind": "sweep", "t": int(e["t"]), "I": sorted(b.unlab(x) for x in e["infected"])})
    return trace, b.labels, None


def ct_validate(res, specs, procs=8):
    traces, descr = [], []
    for sp in specs:
        tr, labels, err = ct_execute(sp)
        d = dict(sp, labels=labels)
        if tr is None:
            res.reject({"part": "contagion", "clauses": ["call_returns"]},
                       "simplicial_contagion raised %s on %s" % (err, d), {"spec": sp})
            continue
        traces.append(tr)
        descr.append(d)
    v = O.run_traces("Trace_C18", traces, {"Kind": "hg"}, procs=procs)
    first, drift = {}, {}
    for (ti, li, failed) in v["rejects"]:
        if "input_in_scope" in failed:
            raise tlc.TLCError("C18 contagion: the harness produced an input outside the statement's scope: %s" % descr[ti])
        prop = [f for f in failed if not f.startswith("model_")]
        if prop:
            first.setdefault(ti, (li, prop, failed))
        else:
            drift.setdefault(ti, (li, failed))
    for ti, (li, prop, failed) in first.items():
        d, ev = descr[ti], traces[ti][li]
        regime = "deterministic" if all(x in ("0", "1") for x in traces[ti][0]["r"].values()) else "stochastic"
        show = {k: d[k] for k in ("n", "edges", "labels", "I0", "T", "rates", "np_seed", "prev_edges", "same_counts") if k in d}
        sig = {"part": "contagion", "clauses": sorted(prop), "regime": regime, "event": ev["kind"]}
        if d.get("prev_edges") is not None:
            sig["history"] = "object edited after an earlier run"
        res.reject(sig,
                   "simplicial_contagion: %s fail(s) at %s of the run %s (rates = beta, beta_D, mu); returned counts %s" % (
                       ",".join(sorted(prop)),
                       "the returned vector" if li == 0 else "sweep event %d (infected %s)" % (li, ev.get("I")),
                       show, traces[ti][0]["out"]),
                   {"spec": {k: x for k, x in d.items() if k != "labels"}, "labels": d["labels"], "failed": failed,
                    "event_index": li, "event": {k: x for k, x in ev.items() if k != "st"},
                    "returned_counts": traces[ti][0]["out"], "sweeps": traces[ti][1:]})
    only_drift = [ti for ti in drift if ti not in first]
    for ti in only_drift:
        li, failed = drift[ti]
        res.model_drift("contagion %s: only model-detail clauses fail (%s) at event %d" % (
            {k: descr[ti][k] for k in ("n", "edges", "labels", "I0", "T", "rates", "np_seed")}, ",".join(failed), li))
    return traces, descr, v, first, only_drift


def contagion_part(res, tier, seed):
    rng = random.Random(seed * 2003 + 18)
    fams = ("ident", "sparse", "str", "zero")
    det_vals = {"0": [0, 0.0], "1": [1, 1.0]}
    plans = []   # (n, edges, I0, T, rates)
    # (i) every hypergraph on 3 nodes (sizes 2..3) x every initial set x the eight deterministic regimes
    e3 = all_edges(3, 2, 3)
    for mask in range(1 << len(e3)):
        es = [e3[j] for j in range(len(e3)) if mask >> j & 1]
        for imask in range(8):
            I0 = {x for x in (1, 2, 3) if imask >> (x - 1) & 1}
            for reg in itertools.product("01", repeat=3):
                plans.append((3, es, I0, 4, tuple(rng.choice(det_vals[c]) for c in reg)))
    # (ii) larger hypergraphs, deterministic regimes and random rates
    nrand = 2500 if tier == "quick" else 30000
    for i in range(nrand):
        n = rng.choice([2, 3, 4, 4, 5, 5, 6, 6, 7, 7])
        es = set()
        for _ in range(rng.randint(0, n + 3)):
            z = rng.choice([1, 2, 2, 2, 3, 3, 3, 4, 5])
            if z <= n:
                es.add(tuple(sorted(rng.sample(range(1, n + 1), z))))
        es = sorted(es)
        if i % 6 == 5:
            # no pairs and no triangles at all: nodes only in hyperedges of size 4-5, in singletons, or isolated
            es = [e for e in es if len(e) not in (2, 3)]
        if rng.random() < 0.2:
            I0 = set(rng.choice([[], list(range(1, n + 1))]))
        else:
            I0 = {x for x in range(1, n + 1) if rng.random() < rng.choice([0.15, 0.4, 0.7])}
        T = rng.choice([1, 2, 3, 4, 5, 6, 8, 10])
        if i % 2 == 0:
            rates = tuple(rng.choice(det_vals[rng.choice("01")]) for _ in range(3))
        else:
            rates = [rng.choice([0, 1, round(rng.uniform(0.05, 0.95), 3), round(rng.uniform(0.05, 0.95), 3)]) for _ in range(3)]
            if all(x in (0, 1) for x in rates):
                rates[rng.randrange(3)] = round(rng.uniform(0.05, 0.95), 3)
            rates = tuple(rates)
        plans.append((n, es, I0, T, rates))
    specs = [{"part": "contagion", "n": n, "edges": [list(e) for e in es], "family": fams[i % 4], "I0": sorted(I0), "T": T,
              "rates": list(rates), "np_seed": (seed * 104729 + i * 31) % (2 ** 31), "case_seed": seed * 1000033 + i}
             for i, (n, es, I0, T, rates) in enumerate(plans)]
    # every fifth run happens on an object that had other hyperedges during an earlier run
    for i, sp in enumerate(specs):
        if i % 5 == 2:
            n = sp["n"]
            prev = set()
            for _ in range(rng.randint(1, n + 3)):
                z = rng.choice([2, 2, 3, 3, 4])
                if z <= n:
                    prev.add(tuple(sorted(rng.sample(range(1, n + 1), z))))
            if sorted(prev) != sorted(tuple(e) for e in sp["edges"]):
                sp["prev_edges"] = [list(e) for e in sorted(prev)]
    # ... and a fifth of the others on an object that had AS MANY hyperedges (k of them others) during an earlier run with the same arguments
    hr = random.Random(seed * 7919 + 19)
    for sp in specs:
        if sp.get("prev_edges") is None and hr.random() < HISTORY_SHARE:
            before = swapped(sp["edges"], sp["n"], hr)
            if before is not None:
                sp["prev_edges"], sp["same_counts"] = [list(e) for e in before], True
    traces, descr, v, first, only_drift = ct_validate(res, specs)
    res.cov(objects_measured_again_after_in_place_edit=sum(1 for d in descr if d.get("same_counts")),
            contagion_objects_measured_again_after_in_place_edit=sum(1 for d in descr if d.get("same_counts")))
    det = sum(1 for t_ in traces if all(x in ("0", "1") for x in t_[0]["r"].values()))
    hooked_runs = sum(1 for t_ in traces if len(t_) > 1)
    res.cov(contagion_runs=len(traces), contagion_deterministic_regime_runs=det, contagion_stochastic_runs=len(traces) - det,
            contagion_runs_with_hook_events=hooked_runs, contagion_sweep_events=sum(len(t_) - 1 for t_ in traces),
            events=v["events"], contagion_rejected_runs=len(first), contagion_model_drift_runs=len(only_drift),
            hook_active=hooked_runs > 0, contagion_on_edited_objects=sum(1 for d in descr if d.get("prev_edges") is not None),
            contagion_runs_without_pairs_and_triangles=sum(1 for d in descr if not any(len(e) in (2, 3) for e in d["edges"])))
    res.cov(traces_validated_against_impl=len(traces), validator_states=v["states"])
    if traces:
        k = max(range(len(traces)), key=lambda x: len(traces[x]))
        res.sample({"part": "contagion", "spec": descr[k], "returned_counts": traces[k][0]["out"], "sweeps": traces[k][1:]})


ASSUMPTIONS = (
    "K and Pi are emitted by TLC as exact rationals (Oracle_C18); the comparison with the returned floats "
    "(tolerance 1e-9; 1e-8 for the solved stationary vector) and the product s_t K with the SPECIFICATION's K are done in numpy",
    "random_walk / simplicial_contagion draw from numpy's global generator: it is seeded before every call (seed in the replay)",
    "rates are abstracted to 0 / mid / 1; at intermediate rates only bounds and monotonicity are verdict-bearing, the "
    "may-relation of a sweep, the hook bookkeeping, the length of the returned vector / walk / density list and their first entries "
    "are model detail (MODEL-DRIFT)",
    "without hook events (HGX_VERIF off or hook not installed) only the returned vector is judged",
    "hypergraphs for the random walk are unweighted, connected, labelled 0..N-1, sizes 2..5; horizon T >= 1 for the contagion",
    "history of the OBJECT: every fourth random-walk hypergraph and every fifth contagion run is reached by editing (remove_edge / add_edge) an "
    "object on which the functions have already been called; the statement speaks about the hypergraph as it is, so the observation is judged "
    "like any other against the state read back through the public API",
    "a further fifth of the remaining random-walk hypergraphs and contagion runs (same_counts) is reached by an edit that keeps the numbers of nodes and "
    "hyperedges (k hyperedges replaced by k others of the same sizes, weighted objects also set_weight) after the functions were called on the object "
    "with exactly the arguments of the judged observation (the first argument combination of each once more at the end), nothing called in between",
    "starting densities: one-node (float or integer-typed unit vector), uniform, random; contagion hyperedges have sizes 1..5")


def run(tier, seed):
    res = Result("C18", tier, seed, "model_checking")
    with cf.ThreadPoolExecutor(max_workers=2) as ex:
        futs = [ex.submit(_explore_one, j) for j in explore_jobs(tier)]
        randwalk_part(res, tier, seed)
        contagion_part(res, tier, seed)
        runs = [f.result() for f in futs]
    res.cov(states=sum(r["states"] for r in runs), transitions=sum(r["transitions"] for r in runs))
    res.coverage["explorations"] = runs
    res.coverage["invariants"] = RW_INV + CT_INV + ["step:" + s for s in CT_STEP]
    res.assume(*ASSUMPTIONS)
    return res.finish()


def replay(path):
    """re-execute the one case of a replay file and validate it again (evidence is not rewritten)"""
    with open(path) as f:
        rp = json.load(f)
    sp = rp["payload"]["spec"]
    res = Result("C18", "replay", rp.get("seed", 0), "model_checking")
    if sp["part"] == "randwalk":
        rw_validate(res, [sp], procs=1)
    else:
        ct_validate(res, [sp], procs=1)
    for r in res.rejections:
        print("VIOLATION property=C18 replay=%s\n  what: %s" % (path, r["what"]))
    for d in res.drift:
        print("MODEL-DRIFT property=C18 %s" % d)
    print("C18 replay %s" % ("FAIL" if res.rejections else "PASS"))
    return 1 if res.rejections else 0
