"""X08 - the group attractiveness model (hypergraphx/generation/GAM.py) as a state machine.

Statements X08-a .. X08-g: top of spec/ext/GAM.tla.

1. explore   TLC, exhaustive, MC_GAM: 2-3 agents on a 3x3 / 4x4 periodic grid, every placement, activity and attribute vector,
             every outcome of every random choice of iteration(): state partition, group well-formedness, per-agent
             transitions, groups formed around a centre in the iteration that records them, append-only histories,
             non-decreasing times, projection = pairs of the hyperedges; the relational clauses of the validator accept
             every behaviour of the model.  Negative controls (statements the code does NOT keep: mutual proximity,
             symmetric / disjoint groups, the centre keeps its group) and four spec mutants must be REJECTED by TLC.
2. validate  the real class is driven through its public methods; a subclass made by the harness snapshots the public
             attributes around every iteration().  Two regimes:
               seeded  numpy's global generator, seeded; positions are doubles - the harness decides the neighbourhood
                       relation with exact rational arithmetic on them and the geometric bounds, TLC everything else;
               driven  the harness puts the agents on an integer grid, sets a / r to multiples of 1/4 and replaces the
                       module attribute `np` of GAM.py by a stand-in whose random.rand() / random.random() return
                       multiples of 1/4 (angles are quarter turns: the agents stay on the grid), so that TLC decides
                       the geometry and every threshold exactly - including u == threshold.
             Trace_X08 judges every logged step against the action (ONE OF the successors; THE successor when the
             variates are known), every run() against its stopping rule, the getters against the history, and
             distance_in_a_periodic_box against the exact minimum-image distance on rational grids.
"""
import concurrent.futures as cf
import contextlib
import io
import json
import math
import random
import sys
import time
from fractions import Fraction as Fr

import numpy as np

from harness import oracle as O
from harness import tlc
from harness.verdict import Result

QD = 4                                     # variates, a, r and h of the driven runs are multiples of 1/QD
CRASH = "no_active_agent_raises"
MC_INV = ["TypeOK", "PartitionInv", "WellFormedInv", "HistoryInv", "TimesInRange", "InBoxInv", "SizesInv",
          "DefaultJoinDeterministic"]
MC_STEP = ["AgentTransitions", "MustMoveIsolated", "GroupsFormedNow", "AppendOnly", "RecordsAreGroups", "GroupsAreRecorded",
           "TimesNonDecreasing", "MoveLength", "IsSuccessor"]
KEYS1 = ("00", "01", "10", "11")
KEYS2 = ("000", "001", "011", "100", "101", "111")


# ---------------------------------------------------------------------------
# 1. the design
def _mc(name, consts, workers=2, timeout=1500):
    base = {"N": 3, "P": 3, "R2N": 3, "R2D": 2, "V": 1, "HMode": "default", "AL": "mid", "RL": "mid", "MaxIt": 2, "Hist": False,
            "Mutant": "none", "Control": "none", "Attrs": "same", "Dirs": {0, 1, 2, 3}, "CheckSucc": True}
    base.update(consts)
    r = tlc.run("MC_GAM", tlc.cfg_text(base, invariants=MC_INV), workers=workers, timeout=timeout)
    s = tlc.stats(r["out"]) or {"generated": 0, "distinct": 0}
    violated = [l.split()[2] for l in r["out"].splitlines() if l.startswith("Error: Invariant ") and "is violated" in l]
    if "The first argument of Assert evaluated to FALSE" in r["out"]:
        i = r["out"].index("The first argument of Assert evaluated to FALSE")
        import re
        m = re.search(r'<<\s*"(\w+)"', r["out"][i:i + 300])
        violated.append("Assert:" + (m.group(1) if m else "?"))
    consts = {k: (sorted(v) if isinstance(v, set) else v) for k, v in consts.items()}
    return {"module": "MC_GAM", "name": name, "constants": consts, "ok": tlc.ok_exploration(r), "violated": violated,
            "states": s["distinct"], "transitions": s["generated"], "wall_s": round(r["wall"], 1),
            "excerpt": "" if tlc.ok_exploration(r) else tlc.error_excerpt(r["out"], 14)}


def explore(res, tier):
    q = tier == "quick"
    pos = [("3 agents, 3x3, default homophily" + (", quarter turns 0 and 1" if q else ""), {"N": 3, "Dirs": {0, 1} if q else {0, 1, 2, 3}}, 4),
           ("2 agents, 4x4, radius 3/2, every attribute vector, histories kept 3 iterations",
            {"N": 2, "P": 4, "R2N": 9, "R2D": 4, "Hist": True, "MaxIt": 3, "Attrs": "all"}, 2),
           ("2 agents, 3x3, free homophily, a = 1 (nobody with neighbours moves), r = 1", {"N": 2, "HMode": "mid", "AL": "1", "RL": "1"}, 1),
           ("2 agents, 3x3, a = 0 (everybody moves), r = 0", {"N": 2, "AL": "0", "RL": "0"}, 1)]
    if not q:
        pos += [("3 agents, 3x3, free homophily, quarter turns 0 and 1 (IsSuccessor not asserted)",
                 {"N": 3, "HMode": "mid", "Dirs": {0, 1}, "CheckSucc": False}, 3),
                ("3 agents, 3x3, every attribute vector, quarter turns 0 and 1", {"N": 3, "Attrs": "all", "Dirs": {0, 1}}, 3),
                ("3 agents, 3x3, histories kept 2 iterations", {"N": 3, "Hist": True, "MaxIt": 2}, 3),
                ("3 agents, 4x4, radius 3/2, quarter turns 0 and 1", {"N": 3, "P": 4, "R2N": 9, "R2D": 4, "Dirs": {0, 1}}, 3),
                ("3 agents, 3x3, steps of 2", {"N": 3, "V": 2}, 3),
                ("4 agents, 2x2, a = 1, r = 1, quarter turn 0", {"N": 4, "P": 2, "Dirs": {0}, "AL": "1", "RL": "1"}, 1)]
    neg = [("control: groups[.] is symmetric", {"N": 2, "Control": "symmetric"}),
           ("control: the groups of one iteration are disjoint", {"N": 3, "Control": "disjoint"}),
           ("control: members are mutually within the radius", {"N": 3, "Control": "mutual"}),
           ("control: the centre keeps the group it formed", {"N": 3, "Control": "centre_keeps"}),
           ("mutant no_reset", {"N": 3, "Mutant": "no_reset"}),
           ("mutant keep_groups_when_inactive", {"N": 2, "Hist": True, "Mutant": "keep_groups_when_inactive"}),
           ("mutant emit_singletons", {"N": 2, "Hist": True, "Mutant": "emit_singletons"}),
           ("mutant time_plus_one", {"N": 2, "Hist": True, "Mutant": "time_plus_one"})]
    with cf.ThreadPoolExecutor(max_workers=4 if q else 6) as ex:
        fp = [ex.submit(_mc, nm, c, w) for nm, c, w in pos]
        fn = [ex.submit(_mc, nm, c, 1) for nm, c in neg]
        pos_r = [f.result() for f in fp]
        neg_r = [f.result() for f in fn]
    for r in pos_r:
        if not r["ok"]:
            raise tlc.TLCError("MC_GAM %s failed:\n%s" % (r["name"], r["excerpt"]))
    for r in neg_r:
        if r["ok"] or not r["violated"]:
            raise tlc.TLCError("MC_GAM %s was NOT rejected by TLC: the invariants are vacuous\n%s" % (r["name"], r["excerpt"]))
    res.cov(states=sum(r["states"] for r in pos_r), transitions=sum(r["transitions"] for r in pos_r))
    for r in pos_r + neg_r:
        r.pop("excerpt", None)
    res.coverage["explorations"] = pos_r
    res.coverage["refuted_by_tlc"] = [{"name": r["name"], "violated": r["violated"]} for r in neg_r]
    res.coverage["invariants"] = MC_INV + ["step:" + s for s in MC_STEP]


# ---------------------------------------------------------------------------
# 2. the pure function
def dist_events(rng, tier):
    from hypergraphx.generation.GAM import GroupAttractivenessModel as G
    evs = []
    for c in range(151 if tier == "quick" else 1501):
        q = rng.choice([1, 2, 4, 8])
        P = rng.choice([1, 2, 3, 4, 5, 8, 10]) * rng.choice([1, q])
        k = rng.choice([1, 2, 2, 3, 3, 4, 5]) if c else 0          # once: no point at all
        pts = [[rng.randint(0, P), rng.randint(0, P)] for _ in range(k)]
        if rng.random() < 0.3 and k >= 2:                      # exactly half a box apart / on opposite walls
            pts[1] = [(pts[0][0] + P // 2) % (P + 1), pts[0][1]]
        ev = {"kind": "dist", "k": k, "pts": pts, "P": P, "q": q, "ok": True, "rows": 0, "cols": 0, "sq": [], "exact": [], "err": ""}
        try:
            out = np.asarray(G.distance_in_a_periodic_box(np.array(pts, dtype=float).reshape(k, 2) / q, P / q), dtype=float)
            ev["rows"], ev["cols"] = (int(out.shape[0]), int(out.shape[1])) if out.ndim == 2 else (-1, -1)
            if out.shape == (k, k):
                sq = [[int(round((float(x) * q) ** 2)) for x in row] for row in out]
                ev["sq"] = sq
                ev["exact"] = [[bool(abs(float(out[i][j]) * q - math.sqrt(sq[i][j])) <= 1e-9) for j in range(k)] for i in range(k)]
        except Exception as ex:
            ev.update(ok=False, err="%s: %s" % (type(ex).__name__, ex))
        evs.append(ev)
    return evs


# ---------------------------------------------------------------------------
# 3. driving the class
class _RandProxy:
    """stands in for numpy.random inside GAM.py during the iterations of a driven run"""

    def __init__(self, seed):
        self.rng, self.log, self.odd = random.Random(seed), [], 0

    def _u(self):
        j = self.rng.choice([0, 0, 1, 2, 3, 3])
        self.log.append(j)
        return j / QD

    def rand(self, *a):
        if a:
            self.odd += 1
            return np.random.rand(*a)
        return self._u()

    def random(self, *a):
        if a:
            self.odd += 1
            return np.random.random(*a)
        return self._u()

    def __getattr__(self, name):
        self.odd += 1
        return getattr(np.random, name)


class _NPProxy:
    def __init__(self, seed):
        self.random = _RandProxy(seed)

    def __getattr__(self, name):
        return getattr(np, name)


def _level(x):
    return "0" if x <= 0 else ("1" if x >= 1 else "mid")


def _num(x):
    """numerator over QD (exact or None)"""
    f = Fr(float(x)) * QD
    return int(f) if f.denominator == 1 and abs(f) < 10 ** 6 else None


def _grp(g):
    return sorted(sorted(int(x) + 1 for x in s) for s in g)


def _hist(g):
    return {"traj": sorted([int(t), [int(x) + 1 for x in e]] for t, e in g.trajectories),
            "proj": sorted([int(t), [int(x) + 1 for x in e]] for t, e in g.projected_trajectories),
            "edges": sorted([int(x) + 1 for x in e] for e in g.edges)}


def _gpos(pos, P):
    """integer grid coordinates, or [] when some agent is off the grid"""
    out = []
    for x, y in pos:
        if abs(x - round(x)) > 1e-9 or abs(y - round(y)) > 1e-9:
            return []
        out.append([int(round(x)) % P, int(round(y)) % P])
    return out


def _snap(g, P=0):
    s = {"act": [bool(x) for x in g.active], "grp": [_grp(g.groups[i]) for i in range(g.n)], "it": int(g.iterations),
         "gpos": _gpos(g.positions, P) if P else []}
    s.update(_hist(g))
    return s


def _pd2(p, q, L):
    """exact squared minimum-image distance of two points given as doubles"""
    tot = Fr(0)
    for a, b in zip(p, q):
        c = abs(Fr(float(a)) - Fr(float(b)))
        if c > L / 2:
            c = L - c
        tot += c * c
    return tot


def _nbr_exact(pos, act, L, d):
    n = len(pos)
    L, d2 = Fr(float(L)), Fr(float(d)) ** 2
    nb, tie = [[] for _ in range(n)], False
    for i in range(n):
        for j in range(i + 1, n):
            if act[i] and act[j]:
                x = _pd2(pos[i], pos[j], L)
                if abs(float(x) - float(d2)) <= 1e-9 * max(1.0, float(d2)):
                    tie = True
                if x < d2:
                    nb[i].append(j + 1)
                    nb[j].append(i + 1)
    return nb, tie


def make_logged(G):
    class Logged(G):
        def iteration(self):
            pre = self.positions.copy()
            act = [bool(x) for x in self.active]
            k0 = len(self._px.log) if self._px is not None else 0
            nbr, tie = _nbr_exact(pre, act, self.L, self.d)
            it = int(self.iterations)
            G.iteration(self)
            post = self.positions
            L, v = float(self.L), float(self.v)
            moved = [i + 1 for i in range(self.n) if not (pre[i] == post[i]).all()]
            gpre = _gpos(pre, self._P) if self._P else []
            gpost = _gpos(post, self._P) if self._P else []
            ev = {"kind": "step", "it": it, "post": _snap(self, self._P), "moved": moved, "nbr": nbr, "tie": tie,
                  "cnbr": [sorted(int(x) + 1 for x in self.current_neighborhood[i]) for i in range(self.n)],
                  "grid": bool(self._P and gpre and gpost),
                  "geo": {"inbox": bool(((post >= 0) & (post <= L)).all()),
                          "steplen": all(float(_pd2(pre[i - 1], post[i - 1], Fr(L))) <= v * v * (1 + 1e-9) for i in moved)},
                  "driven": False, "draws": [], "ngl": [[] for _ in range(self.n)]}
            if self._px is not None:
                ev.update(driven=True, draws=list(self._px.log[k0:]),
                          ngl=[[sorted(int(x) + 1 for x in grp) for grp in self.current_neighboring_groups[i]]
                               for i in range(self.n)])
            self._events.append(ev)
    return Logged


def plan(rng, tier):
    specs = []
    for i in range(200 if tier == "quick" else 2400):
        driven = i % 2 == 0
        n = rng.choice([2, 3, 3, 4, 4, 5]) if driven else rng.choice([2, 3, 4, 5, 6, 8])
        hom = i % 3
        sp = {"driven": driven, "n": n, "np_seed": rng.randrange(2 ** 31), "px_seed": rng.randrange(2 ** 31),
              "balance": 1 if hom == 0 else rng.choice([0, 0.25, 0.5, 0.5, 0.75, 1]),
              "h1": 1 if hom == 0 else rng.choice([1, 0.5, (0.75, 0.5), (1.0, 0.0), (0.25, 1.0)]),
              "h2": 1 if hom == 0 else rng.choice([1, 0.5, (0.5, 0.25, 0.25, 0.5), (1.0, 0.0, 0.0, 1.0), (0.25, 0.5, 0.0, 0.75)]),
              "runs": [[rng.choice([1, 2, 3, 4, 6]), rng.choice([-1, -1, 0, 1, 2, 3])] for _ in range(rng.choice([1, 2, 2, 3]))]}
        if driven:
            P = rng.choice([3, 4, 4, 5])
            sp.update(P=P, L=P, v=rng.choice([1.0, 1.0, 2.0]) if P >= 4 else 1.0, d=rng.choice([1.5, 1.2, 1.5, 2.5 if P >= 5 else 1.5]),
                      pos=[[rng.randrange(P), rng.randrange(P)] for _ in range(n)],
                      a=[rng.choice([0, 1, 2, 2, 3, 4, 4]) for _ in range(n)],
                      r=[rng.choice([0, 2, 3, 3, 4, 4, 4]) for _ in range(n)],
                      act=[rng.random() < 0.75 for _ in range(n)])
        else:
            L = rng.choice([2, 3, 4, 6])
            sp.update(P=0, L=L, v=rng.choice([0.5, 1.0, 0.3]), d=rng.choice([1.0, 0.8, 1.5]) if L > 2 else rng.choice([0.8, 0.9]),
                      extreme=rng.choice(["", "", "", "a1r1", "a0", "r1"]))
        specs.append(sp)
    return specs


def _q(fn, *a, **kw):
    buf = io.StringIO()
    try:
        with contextlib.redirect_stdout(buf):
            return True, fn(*a, **kw), ""
    except Exception as ex:
        return False, None, "%s: %s" % (type(ex).__name__, ex)


def execute(sp):
    """one object -> (trace, info)"""
    import hypergraphx.generation.GAM as M
    Logged = make_logged(M.GroupAttractivenessModel)
    n = sp["n"]
    np.random.seed(sp["np_seed"])
    random.seed(sp["np_seed"])
    ok, g, err = _q(Logged, n=n, balance=sp["balance"], h_1_ii=sp["h1"], h_2_iii=sp["h2"], d=sp["d"], v=sp["v"], L=sp["L"])
    h1a = sp["h1"] if isinstance(sp["h1"], tuple) else (sp["h1"], sp["h1"])
    h2a = sp["h2"] if isinstance(sp["h2"], tuple) else (sp["h2"], 0, 0, sp["h2"])
    init = {"kind": "init", "ok": ok, "err": err, "n": n, "n0": int(Fr(float(sp["balance"])) * n // 1),
            "hargs": [[_num(x) for x in h1a], [_num(x) for x in h2a]]}
    info = {"crash": None, "steps": 0}
    if not ok:
        return [init], info
    g._px, g._P, g._events = None, sp["P"], []
    made = _snap(g)
    made["attr"] = [str(x) for x in g.attribute]
    init.update(made=made, inbox=bool(((g.positions >= 0) & (g.positions <= float(sp["L"]))).all()),
                hq={"Q": QD, "h1": {k: _num(g.h_1[k]) for k in KEYS1}, "h2": {k: _num(g.h_2[k]) for k in KEYS2}})
    # the harness places the agents / sets the rates through the public attributes
    if sp["driven"]:
        g.positions = np.array(sp["pos"], dtype=float)
        g.a = np.array(sp["a"], dtype=float) / QD
        g.r = np.array(sp["r"], dtype=float) / QD
        g.active = np.array(sp["act"], dtype=bool)
        g.groups = {i: ({frozenset([i])} if g.active[i] else set()) for i in range(n)}
    elif sp.get("extreme"):
        if "a1" in sp["extreme"]:
            g.a = np.ones(n)
        if "a0" in sp["extreme"]:
            g.a = np.zeros(n)
        if "r1" in sp["extreme"]:
            g.r = np.ones(n)
    d2, v2 = Fr(repr(float(sp["d"]))) ** 2, Fr(repr(float(sp["v"]))) ** 2   # decimal literals: small integers for TLC
    init["start"] = _snap(g, sp["P"])
    init["world"] = {"N": n, "P": sp["P"] or 1, "r2": [d2.numerator, d2.denominator] if sp["driven"] else [1, 1],
                     "v2": [v2.numerator, v2.denominator] if sp["driven"] else [1, 1], "v": int(sp["v"]) if sp["driven"] else 0,
                     "attr": made["attr"], "h1": {k: _level(g.h_1[k]) for k in KEYS1}, "h2": {k: _level(g.h_2[k]) for k in KEYS2},
                     "al": [_level(x) for x in g.a], "rl": [_level(x) for x in g.r],
                     "X": {"Q": QD, "a": [_num(x) or 0 for x in g.a], "r": [_num(x) or 0 for x in g.r],
                           "h1": init["hq"]["h1"], "h2": init["hq"]["h2"]}}
    trace = [init]
    real_np = M.__dict__.get("np")
    for T, maxe in sp["runs"]:
        proxy = _NPProxy(sp["px_seed"] + len(trace)) if (sp["driven"] and real_np is np) else None
        g._px = proxy.random if proxy else None
        it0, k0 = int(g.iterations), len(g._events)
        if proxy:
            M.np = proxy
        try:
            ok, _, err = _q(g.run, T, max_edges=maxe) if maxe >= 0 else _q(g.run, T)
        finally:
            if proxy:
                M.np = real_np
        steps = g._events[k0:]
        if proxy and proxy.random.odd:
            info["odd"] = True
            for s in steps:
                s["driven"] = False
        if any(s.pop("tie") for s in steps):
            info["tie"] = True
            break                                              # a distance within rounding of the radius: not judged
        trace += steps
        info["steps"] += len(steps)
        trace.append({"kind": "run", "ok": ok, "err": err, "T": T, "hasmax": maxe >= 0, "maxe": max(maxe, 0), "done": len(steps),
                      "ecounts": [len(s["post"]["edges"]) for s in steps], "it_before": it0, "it_after": int(g.iterations)})
        ok2, got, err2 = _q(lambda: (list(g.get_temporal_hyperedges()), list(g.get_temporal_projected_network()), g.get_max_time(),
                                     g.get_attributes()))
        ge = {"kind": "get", "ok": bool(ok2 and sorted(got[3]) == list(range(n))), "err": err2, "hyper": [], "proj": [], "maxtime": 0, "attrs": []}
        if ge["ok"]:
            ge.update(hyper=[[int(t), [int(x) + 1 for x in e]] for t, e in got[0]], proj=[[int(t), [int(x) + 1 for x in e]] for t, e in got[1]],
                      maxtime=int(got[2]), attrs=[str(got[3][i]) for i in range(n)])
        trace.append(ge)
        if not ok:
            info["crash"] = {"err": err, "active": int(np.sum(g.active)), "iterations": int(g.iterations)}
            break
    return trace, info


# ---------------------------------------------------------------------------
# 4. TLC judges
def validate(traces, tier):
    return O.run_traces("Trace_X08", traces, {}, procs=4 if tier == "quick" else 8, timeout=1500)


def _is_model(c):
    return c.startswith("model_")


def judge(res, specs, traces, infos, rejects):
    first, drift = {}, {}
    for ti, li, failed in rejects:
        if "input_in_scope" in failed:
            raise tlc.TLCError("X08: the harness produced a step outside the scope of the validator: %s event %d" % (specs[ti], li))
        prop = sorted(f for f in failed if not _is_model(f))
        if prop:
            first.setdefault(ti, (li, prop, failed))
        else:
            drift.setdefault(ti, (li, failed))
    for ti, (li, prop, failed) in sorted(first.items()):
        sp, ev = specs[ti], traces[ti][li]
        crash = infos[ti].get("crash") if sp else None
        if ev["kind"] == "dist":
            sig = {"function": "distance_in_a_periodic_box", "clauses": prop}
            if ev["k"] == 0 and prop == ["distance_matrix_is_k_by_k"]:
                sig = {"function": "distance_in_a_periodic_box", "finding": CRASH}       # the mechanism of the crash of run()
            what = ("distance_in_a_periodic_box(points=%s / %d, boundary=%d / %d): %s fail(s); returned shape (%d, %d), squared entries "
                    "(x %d^2) %s%s" % (ev["pts"], ev["q"], ev["P"], ev["q"], ",".join(prop), ev["rows"], ev["cols"], ev["q"], ev["sq"],
                                       (" raised " + ev["err"]) if ev["err"] else ""))
            if "finding" in sig:
                what += (" - scipy's squareform of an empty vector is 1 x 1; this is why run() raises IndexError as soon as no agent is "
                         "active (same defect, patch .work/proposed/x08_no_active_agent.diff)")
        elif ev["kind"] == "run" and not ev["ok"] and crash and crash["active"] == 0 and crash["err"].startswith("IndexError"):
            sig = {"function": "run", "finding": CRASH}
            what = ("GroupAttractivenessModel(n=%d, L=%s, d=%s, v=%s).run(%d) (numpy seed %d%s) raises %s in update_neighborhood at "
                    "iteration %d, when no agent is active: distance_in_a_periodic_box returns a 1 x 1 matrix for zero points, so the "
                    "loop over its rows indexes the empty array of active agents (the model itself only asks every inactive agent to "
                    "try to_active); every run of a small population dies this way sooner or later.  Proposed patch: "
                    ".work/proposed/x08_no_active_agent.diff" % (sp["n"], sp["L"], sp["d"], sp["v"], ev["T"], sp["np_seed"],
                                                                  ", driven" if sp["driven"] else "", crash["err"], crash["iterations"]))
        else:
            sig = {"function": {"init": "__init__", "step": "iteration", "run": "run", "get": "getters"}[ev["kind"]], "clauses": prop,
                   "regime": "driven" if sp["driven"] else "seeded"}
            shown = {k: v for k, v in ev.items() if k not in ("made", "start", "world")}
            what = ("GroupAttractivenessModel %s: %s fail(s) at event %d (%s) - %s%s; state before: %s" % (
                {k: v for k, v in sp.items() if k != "runs"}, ",".join(prop), li, ev["kind"], json.dumps(shown)[:900],
                (" raised " + ev.get("err", "")) if ev.get("err") else "",
                json.dumps(_before(traces[ti], li))[:600]))
        res.reject(sig, what, {"spec": sp, "failed": failed, "event_index": li, "event": ev, "trace": traces[ti][:li + 1] if sp else [ev]})
    for ti in sorted(set(drift) - set(first)):
        li, failed = drift[ti]
        res.model_drift("%s: only model-detail clauses fail (%s) at event %d" % (
            {k: v for k, v in (specs[ti] or {}).items() if k in ("n", "np_seed", "px_seed", "driven", "L", "d", "v")}, ",".join(failed), li))
    return first, drift


def _before(trace, li):
    for k in range(li - 1, -1, -1):
        if trace[k]["kind"] == "step":
            return trace[k]["post"]
        if trace[k]["kind"] == "init":
            return trace[k].get("start")
    return None


def _collect(res, specs, traces, infos):
    steps = [e for t in traces for e in t if e["kind"] == "step"]
    res.cov(objects=sum(1 for s in specs if s), events=sum(len(t) for t in traces), iterations_validated=len(steps),
            iterations_with_known_variates=sum(1 for e in steps if e["driven"]), iterations_on_the_grid=sum(1 for e in steps if e["grid"]),
            variates_validated=sum(len(e["draws"]) for e in steps if e["driven"]),
            iterations_with_moves=sum(1 for e in steps if e["moved"]),
            iterations_with_groups_of_three_or_more=sum(1 for e in steps if any(len(x) >= 3 for gs in e["post"]["grp"] for x in gs)),
            iterations_with_asymmetric_groups=sum(1 for e in steps if any(x not in e["post"]["grp"][m - 1]
                                                                        for gs in e["post"]["grp"] for x in gs for m in x)),
            iterations_with_overlapping_groups=sum(1 for e in steps if any(len(gs) >= 2 for gs in e["post"]["grp"])),
            iterations_with_inactive_agents=sum(1 for e in steps if not all(e["post"]["act"])),
            run_calls=sum(1 for t in traces for e in t if e["kind"] == "run"),
            runs_stopped_by_max_edges=sum(1 for t in traces for e in t if e["kind"] == "run" and e["ok"] and e["done"] < e["T"]),
            runs_that_raised=sum(1 for i in infos if i and i.get("crash")),
            temporal_hyperedges=sum(len(e["hyper"]) for t in traces for e in t if e["kind"] == "get"),
            distance_calls=sum(1 for t in traces for e in t if e["kind"] == "dist"),
            objects_dropped_for_a_distance_tie=sum(1 for i in infos if i and i.get("tie")))


ASSUMPTIONS = (
    "black box plus public attributes: the harness subclasses GroupAttractivenessModel (iteration() is wrapped, nothing in /repo is "
    "touched) and reads positions, active, groups, iterations, trajectories, projected_trajectories, edges, current_neighborhood, "
    "current_neighboring_groups, a, r, h_1, h_2, attribute",
    "seeded regime: positions are IEEE doubles; the neighbourhood relation handed to TLC is computed by the harness with exact "
    "rational arithmetic on the doubles (an object with a pair within 1e-9 of the radius is dropped), and `inside the box` (closed: "
    "x %% L can round to L) and `a move is at most v long` (relative tolerance 1e-9) are float comparisons in Python",
    "driven regime: the harness places the agents on integer grid points (L = P, v integer, d^2 never attained on the grid), sets a, r, "
    "active, groups through the public attributes and replaces the module attribute `np` of GAM.py during run() by a stand-in whose "
    "random.rand() / random.random() return multiples of 1/4; positions are read back as grid points (|x - round(x)| <= 1e-9: sin and "
    "cos of quarter turns are exact to 1e-16); when the code stops drawing this way the check degrades to the seeded clauses",
    "`the logged state is a successor` binds the code to the processing order 0..n-1 and, with known variates, to the thresholds "
    "move iff 1 - mean(prod a) > u, activate iff u < r, deactivate iff u < 1 - r, join iff u < h and to the order of the draws: "
    "model detail (MODEL-DRIFT); the verdict-bearing clauses are X08-a..g",
    "homophily of groups of three or more neighbours depends on the iteration order of a frozenset: such thresholds are accepted both "
    "ways unless all candidate entries of h_2 agree",
    "n >= 1, d < L / 2 is not required; n * balance is computed exactly (balance dyadic); h entries are multiples of 1/4",
    "numpy's global generator is seeded before every constructor call; seeds are in the replay payload")


def _work(tier, seed):
    rng = random.Random(seed * 1000003 + 1008)
    specs = plan(rng, tier)
    out = [execute(sp) for sp in specs]
    traces, infos = [t for t, _ in out], [i for _, i in out]
    dev = dist_events(rng, tier)
    per = 50
    for k in range(0, len(dev), per):
        traces.append(dev[k:k + per])
        specs.append(None)
        infos.append(None)
    return specs, traces, infos


def run(tier, seed):
    res = Result("X08", tier, seed, "model_checking")
    t0 = time.time()
    with cf.ThreadPoolExecutor(max_workers=1) as bg:
        fut = bg.submit(explore, res, tier)
        specs, traces, infos = _work(tier, seed)
        t1 = time.time()
        v = validate(traces, tier)
        fut.result()
    print("[X08] run code %.1fs, total %.1fs (%d objects)" % (t1 - t0, time.time() - t0, len(specs)), file=sys.stderr)
    judge(res, specs, traces, infos, v["rejects"])
    _collect(res, specs, traces, infos)
    res.cov(validator_states=v["states"], traces_validated_against_impl=len(traces))
    if any(i and i.get("odd") for i in infos):
        res.model_drift("GAM.py no longer draws through np.random.rand() / np.random.random() only: variates are not attributed")
    k = max((i for i, s in enumerate(specs) if s), key=lambda i: infos[i]["steps"], default=None)
    if k is not None:
        st = [e for e in traces[k] if e["kind"] == "step"]
        res.sample({"spec": specs[k], "steps": [{"it": e["it"], "moved": e["moved"], "act": e["post"]["act"], "grp": e["post"]["grp"],
                                                  "gpos": e["post"]["gpos"], "draws": e["draws"]} for e in st[:4]],
                    "hyperedges": [e for e in traces[k] if e["kind"] == "get"][-1]["hyper"][:10]})
    res.assume(*ASSUMPTIONS)
    return res.finish()


def replay(path):
    with open(path) as f:
        rp = json.load(f)
    sp = rp["payload"]["spec"]
    res = Result("X08", "replay", rp.get("seed", 0), "model_checking")
    if sp:
        for k in ("h1", "h2"):
            if isinstance(sp[k], list):
                sp[k] = tuple(sp[k])
        tr, info = execute(sp)
    else:
        tr, info = [rp["payload"]["event"]], None
    v = validate([tr], "quick")
    judge(res, [sp], [tr], [info], v["rejects"])
    for r in res.rejections:
        print("VIOLATION property=X08 replay=%s\n  what: %s" % (path, r["what"]))
    for d in res.drift:
        print("MODEL-DRIFT property=X08 %s" % d)
    print("X08 replay %s" % ("FAIL" if res.rejections else "PASS"))
    return 1 if res.rejections else 0
