"""C19, second half - get_svh against spec/measures/SVH.tla.

Design: spec/mc/MC_SVH.tla explored exhaustively (all exact-regime instances over a small node set, the
step-up rule on arbitrary p-value vectors).  Binding: real Hypergraph objects under several label families,
get_svh(max_order, mp), per-size DataFrame rows logged; spec/trace/Trace_C19S.tla decides the tested set, the
lower-set property, and - where the binomial tails fit TLC's 32-bit integers (exact regime) - the p-values and
the validated set.  Outside the exact regime TLC prints the parameters (w, N, K_i, spanned nodes) and the
same tail / threshold definitions are evaluated here over Python integers / Fractions.
`run(res, tier, seed)` only adds to the shared Result; checks/c19.py finishes it.
"""
import concurrent.futures as cf
import json
import math
import os
import random
import shutil
from fractions import Fraction

from harness import tlc
from harness.binding import Binding, LABEL_FAMILIES, quiet

INT_MAX = 2147483647
INVARIANTS = ["KoccSum", "KoccBounds", "ProbInUnit", "TestedPartition", "TailTotal", "TailMonotone",
              "TailMonotoneInP", "LowerSetInv", "StepUpRule"]
RTOL = 1e-9


def exact_regime(N, n):
    """SVH.tla ExactRegime: N^(n*N+1) fits a 32-bit integer"""
    return N >= 1 and N ** (n * N + 1) <= INT_MAX


# ---------------------------------------------------------------------------------------------
def explore_design(res, tier):
    cfgs = [dict(n=4, sizes={2, 3, 4}, mixed=False, maxtotal=0), dict(n=3, sizes={2}, mixed=True, maxtotal=3)]
    if tier != "quick":
        cfgs += [dict(n=5, sizes={2, 3, 4, 5}, mixed=False, maxtotal=0), dict(n=4, sizes={2}, mixed=True, maxtotal=3)]

    def one(c):
        cfg = tlc.cfg_text({"Kind": "hg", "Node": set(range(1, c["n"] + 1)), "Sizes": c["sizes"], "Mixed": c["mixed"],
                            "MaxTotal": c["maxtotal"], "PD": 6, "Levels": {2, 3, 4, 6}}, invariants=INVARIANTS)
        r = tlc.run("MC_SVH", cfg, workers=4 if tier == "quick" else 8, timeout=3000, heap="4g")
        if not tlc.ok_exploration(r):
            raise tlc.TLCError("MC_SVH %s failed:\n%s" % (c, tlc.error_excerpt(r["out"])))
        s = tlc.stats(r["out"])
        return {"module": "MC_SVH", "kind": "hg", "n": c["n"], "sizes": sorted(c["sizes"]), "mixed_sizes": c["mixed"],
                "states": s["distinct"], "transitions": s["generated"], "wall_s": round(r["wall"], 1)}

    with cf.ThreadPoolExecutor(max_workers=2) as ex:
        runs = list(ex.map(one, cfgs))
    res.cov(states=sum(r["states"] for r in runs), transitions=sum(r["transitions"] for r in runs))
    res.coverage.setdefault("explorations", []).extend(runs)
    res.coverage.setdefault("invariants", [])
    for i in INVARIANTS:
        if i not in res.coverage["invariants"]:
            res.coverage["invariants"].append(i)


# ---------------------------------------------------------------------------------------------
# inputs
def gen_exact(rng):
    """occurrence counts inside the exact regime for every size present"""
    n = rng.randint(3, 7)
    edges = {}
    for size, cap in ((2, 5), (3, 4), (4, 3), (5, 3), (6, 3)):
        if size > n or rng.random() < 0.35:
            continue
        for _ in range(rng.randint(1, cap)):
            e = tuple(sorted(rng.sample(range(1, n + 1), size)))
            if rng.random() < 0.4 and any(len(x) == size for x in edges):
                e = rng.choice([x for x in edges if len(x) == size])
            edges[e] = edges.get(e, 0) + 1
    if rng.random() < 0.3:
        edges[(rng.randint(1, n),)] = rng.randint(1, 3)          # single-node hyperedge: never tested
    if not edges:
        edges[(1, 2)] = 1
    return n, edges


def gen_large(rng):
    n = rng.randint(6, 14)
    edges = {}
    for _ in range(rng.randint(4, 28)):
        size = rng.choice([2, 2, 2, 3, 3, 4, 5, 1])
        size = min(size, n)
        e = tuple(sorted(rng.sample(range(1, n + 1), size)))
        edges[e] = edges.get(e, 0) + rng.choice([1, 1, 1, 2, 3, 4])
    # plant over-expressed hyperedges on otherwise rare nodes (these are the ones that get validated)
    for _ in range(rng.randint(0, 3)):
        size = rng.choice([2, 2, 3, 4])
        e = tuple(sorted(rng.sample(range(1, n + 1), size)))
        edges[e] = edges.get(e, 0) + rng.randint(6, 18)
    return n, edges


def gen_background(rng):
    """many light hyperedges on a core (N large) plus graded heavier ones on rarely used nodes: tables with
    validated and non-validated rows and p-values on both sides of the levels i x bonf (step-up matters)"""
    n = rng.randint(11, 16)
    edges = {}
    ncore = n - rng.randint(4, 6)
    core = list(range(1, ncore + 1))
    for _ in range(rng.randint(40, 120)):                      # pairs
        e = tuple(sorted(rng.sample(core, 2)))
        edges[e] = edges.get(e, 0) + 1
    for _ in range(rng.randint(0, 45)):                        # triples
        e = tuple(sorted(rng.sample(core, 3)))
        edges[e] = edges.get(e, 0) + 1
    rare = list(range(ncore + 1, n + 1))
    rng.shuffle(rare)
    for _ in range(rng.randint(1, 3)):
        if len(rare) >= 2:
            e = tuple(sorted((rare.pop(), rare.pop() if rng.random() < 0.8 else rng.choice(core))))
            edges[e] = edges.get(e, 0) + rng.choice([2, 3, 3, 4, 4, 5, 6])
    if rng.random() < 0.6 and len(rare) >= 1:
        e = tuple(sorted(rare[:1] + rng.sample(core, 2))) if len(rare) < 3 else tuple(sorted(rare[:3]))
        edges[e] = edges.get(e, 0) + rng.randint(1, 4)
    return n, edges


def build(b, edges, weighted, rng):
    obj = b.new(weighted)
    items = list(edges.items())
    rng.shuffle(items)
    with quiet():
        for e, w in items:
            if weighted:
                obj.add_edge(b._tuple(e), weight=w)
            else:
                obj.add_edge(b._tuple(e))
    return obj


def _ranks(ps):
    """dense ranks of floats, values within RTOL of their predecessor share a rank"""
    order = sorted(range(len(ps)), key=lambda i: ps[i])
    rk, cur, prev = [0] * len(ps), 0, None
    for i in order:
        if prev is None or ps[i] - prev > RTOL * max(abs(prev), 1e-300):
            cur += 1
        prev = ps[i]
        rk[i] = cur
    return rk


def observe(b, obj, edges, mx, mp, cid):
    from hypergraphx.filters.statistical_filters import get_svh
    c = {"id": cid, "st": b.state(obj), "mx": mx, "ok": True, "sizes": []}
    raw = {}
    try:
        with quiet():
            out = get_svh(obj, max_order=mx, mp=mp)
        for size, df in out.items():
            n = int(size)
            rows = [(tuple(e), float(p), bool(f)) for e, p, f in zip(df["edge"], df["pvalue"], df["fdr"])]
            if not rows:
                continue                     # an empty table reports nothing: neither demanded nor forbidden
            N = sum(w for e, w in edges.items() if len(e) == n)
            ex = exact_regime(N, n)
            den = N ** (n * N) if ex else 0
            rk = _ranks([p for _, p, _ in rows])
            lst = []
            for (e, p, f), r in zip(rows, rk):
                row = {"e": [b.unlab(x) for x in e], "fdr": f, "rank": r, "pnum": 0, "pok": True}
                if ex:
                    if p != p or p < 0 or p > 1.0000001:
                        row["pnum"], row["pok"] = -1, False
                    else:
                        row["pnum"] = int(round(p * den))
                        row["pok"] = abs(p - row["pnum"] / den) <= RTOL * max(p, 1.0 / den)
                lst.append(row)
            c["sizes"].append({"n": n, "exact": ex, "den": den, "rows": lst})
            raw[n] = rows
        err = ""
    except Exception as exn:
        c["ok"] = False
        c["sizes"] = []
        err = "%s: %s" % (type(exn).__name__, exn)
    return c, raw, err


# ---------------------------------------------------------------------------------------------
# TLC validation (CaseRunner protocol + the PAR lines)
def _batch(args):
    cases, idx, timeout = args
    wd = tlc.workdir("c19s")
    try:
        path = os.path.join(wd, "cases.json")
        with open(path, "w") as f:
            json.dump({"cases": cases}, f)
        cfg = tlc.cfg_text({"Kind": "hg"}, init="TInit", next_="TNext")
        r = tlc.run("Trace_C19S", cfg, wd=wd, workers=1, env={"TRACE_FILE": path}, timeout=timeout)
        rj, done, par = [], None, {}
        for s in tlc.printed_strings(r["out"]):
            if s.startswith("RJ "):
                ci, _, failed = tlc.parse_value(s[3:])
                rj.append((idx[ci - 1], sorted(failed)))
            elif s.startswith("DONE "):
                done = [int(x) for x in s.split()[1:]]
            elif s.startswith("PAR "):
                p = json.loads(s[4:])
                par[(p["id"], p["n"])] = p["par"]
        if done is None or done[0] != len(cases):
            raise tlc.TLCError("Trace_C19S did not consume all %d cases (DONE=%s)\n%s"
                               % (len(cases), done, tlc.error_excerpt(r["out"])))
        st = tlc.stats(r["out"]) or {"distinct": 0}
        return rj, par, st["distinct"]
    finally:
        shutil.rmtree(wd, ignore_errors=True)


def validate(cases, procs=6, timeout=1800):
    per = min(2000, max(20, len(cases) // procs + 1))
    jobs = [(cases[i:i + per], list(range(i, min(len(cases), i + per))), timeout) for i in range(0, len(cases), per)]
    rj, par, states = [], {}, 0
    with cf.ThreadPoolExecutor(max_workers=procs) as ex:
        for a, b, c in ex.map(_batch, jobs):
            rj += a
            par.update(b)
            states += c
    return sorted(rj), par, states


# the statement's definitions over Python integers (outside TLC's 32-bit range)
def tail(N, a, b, w):
    """P[Bin(N, a/b) >= w] as a Fraction (SVH.tla TailNum / b^N)"""
    num = sum(math.comb(N, j) * a ** j * (b - a) ** (N - j) for j in range(w, N + 1))
    return Fraction(num, b ** N)


def judge_large(par, n, rows):
    """rows: (edge ids tuple, float p, flag). Returns (failed clauses, stats)"""
    N, na = par["N"], par["na"]
    spec = {}
    for nodes, w, ks in par["rows"]:
        a = 1
        for _, kk in ks:
            a *= kk
        spec[frozenset(nodes)] = tail(N, a, N ** n, w)
    failed, skipped = [], 0
    ps = []
    for e, p, f in rows:
        q = spec[frozenset(e)]
        ps.append(q)
        if not (abs(p - float(q)) <= RTOL * float(q) + 1e-300):
            failed.append("svh_pvalue_is_binomial_tail")
    M = 100 * math.comb(na, n)
    srt = sorted(ps)
    istar = 0
    for i, q in enumerate(srt, 1):
        if q < Fraction(i, M):
            istar = i
    near = any(abs(float(q) * M - i) <= 1e-7 * i for q in ps for i in range(1, len(ps) + 1))
    if near:
        skipped = 1
    else:
        for (e, p, f), q in zip(rows, ps):
            if f != (q < Fraction(istar, M)):
                failed.append("svh_validated_iff_below_threshold")
    stepup = istar >= 2 and any(Fraction(1, M) <= q < Fraction(istar, M) for q in ps)
    return sorted(set(failed)), skipped, (istar, stepup)


# ---------------------------------------------------------------------------------------------
def run(res, tier, seed):
    quick = tier == "quick"
    pool = cf.ThreadPoolExecutor(max_workers=1)
    design = pool.submit(explore_design, res, tier)
    rng = random.Random(seed * 15485863 + 19)
    fams = ("ident", "sparse", "str", "zero")
    plan = [(gen_exact, 150 if quick else 2000), (gen_large, 80 if quick else 1200), (gen_background, 80 if quick else 900)]
    n_mp = 4 if quick else 40
    cases, descr, raws = [], [], []
    i = 0
    for gen, count in plan:
        for j in range(count):
            n, edges = gen(rng)
            unweighted = rng.random() < 0.15
            if unweighted:
                edges = {e: 1 for e in edges}
            fam = fams[i % 4]
            b = Binding("hg", LABEL_FAMILIES[fam](n) if n <= 7 else _family(fam, n), rng)
            obj = build(b, edges, not unweighted, rng)
            top = max(len(e) for e in edges)
            bounds = sorted(set([rng.randint(1, top + 1), 10] if j % 3 else [rng.randint(2, top + 1)]))
            for mx in bounds:
                mp = n_mp > 0 and gen is not gen_exact and j % 7 == 3
                if mp:
                    n_mp -= 1
                c, raw, err = observe(b, obj, edges, mx, mp, len(cases))
                cases.append(c)
                raws.append(raw)
                descr.append({"n": n, "hyperedges": [[list(e), w] for e, w in sorted(edges.items())], "weighted": not unweighted,
                              "labels": b.labels, "max_order": mx, "mp": mp, "error": err, "family": gen.__name__})
            i += 1
    rj, par, states = validate(cases)
    design.result()
    pool.shutdown()

    rejected = {}
    for idx, failed in rj:
        if "svh_harness_regime_agrees" in failed:
            raise tlc.TLCError("harness and SVH.tla disagree on the exact regime: %s" % json.dumps(descr[idx]))
        rejected[idx] = list(failed)
    # outside the exact regime: the tails of the statement over Fractions, parameters from TLC
    n_exact = n_large = n_large_rows = n_exact_rows = skipped = validated_rows = both = stepup = 0
    for idx, c in enumerate(cases):
        for s in c["sizes"]:
            validated_rows += sum(1 for r in s["rows"] if r["fdr"])
            if s["exact"]:
                n_exact += 1
                n_exact_rows += len(s["rows"])
                continue
            p = par.get((c["id"], s["n"]))
            if p is None:
                continue                     # tested set already rejected by TLC for this size
            n_large += 1
            n_large_rows += len(s["rows"])
            rows = [(tuple(r["e"]), raws[idx][s["n"]][k][1], r["fdr"]) for k, r in enumerate(s["rows"])]
            failed, sk, (istar, su) = judge_large(p, s["n"], rows)
            skipped += sk
            stepup += 1 if su else 0
            both += 1 if 0 < istar < len(rows) else 0
            if failed:
                rejected.setdefault(idx, [])
                rejected[idx] = sorted(set(rejected[idx]) | set(failed))
    for idx in sorted(rejected):
        d = descr[idx]
        res.reject({"part": "svh", "clauses": rejected[idx]},
                   "get_svh disagrees with SVH.tla (%s) on %s, max_order=%d, mp=%s, labels %s%s"
                   % (",".join(rejected[idx]), d["hyperedges"], d["max_order"], d["mp"], d["labels"],
                      (" [" + d["error"] + "]") if d["error"] else ""),
                   {"case": d, "logged": cases[idx]["sizes"],
                    "returned": {str(k): [[list(map(str, e)), p, f] for e, p, f in v] for k, v in raws[idx].items()}})
    res.cov(traces_validated_against_impl=len(cases), validator_states=states,
            svh_calls=len(cases), svh_calls_mp=sum(1 for d in descr if d["mp"]),
            svh_size_tables_exact_in_tlc=n_exact, svh_rows_exact_in_tlc=n_exact_rows,
            svh_size_tables_tail_over_fractions=n_large, svh_rows_tail_over_fractions=n_large_rows,
            svh_validated_rows=validated_rows, svh_tables_with_validated_and_not=both,
            svh_tables_where_step_up_matters=stepup, svh_threshold_ties_skipped=skipped)
    # smallest input with a validated and a non-validated hyperedge (else the last case)
    pick = min(range(len(cases)), key=lambda k: (not (any(r["fdr"] for s in cases[k]["sizes"] for r in s["rows"])
                                                       and any(not r["fdr"] for s in cases[k]["sizes"] for r in s["rows"])),
                                                  len(descr[k]["hyperedges"]), -k))
    res.sample({"svh_input": descr[pick], "returned": {str(k): [[list(map(str, e)), p, f] for e, p, f in v]
                                                       for k, v in raws[pick].items()}},
               cap=len(res.coverage["samples"]) + 1)      # the filter part already filled the default slots
    res.assume("get_svh: called with the default alpha (the code ignores alpha; the statement does not mention it); the level of one "
               "test is 0.01 / C(number of nodes spanned by the tested hyperedges of that size, size), step-up threshold",
               "get_svh p-values: in the exact regime (N^(size*N+1) < 2^31: size 2 N<=5, size 3 N<=4, sizes 4-6 N<=3) the returned "
               "float must be within 1e-9 (relative) of pnum/N^(size*N) and TLC compares pnum with the exact tail; outside it TLC "
               "decides tested set, lower-set property and the parameters (w, N, K_i, spanned nodes) and the binomial tail / "
               "threshold of the statement are evaluated over Python Fractions from those parameters (relative tolerance 1e-9); "
               "validated flags are not judged when an exact p-value lies within 1e-7 (relative) of a level i x bonf")


def _family(fam, n):
    if fam == "ident":
        return list(range(1, n + 1))
    if fam == "zero":
        return list(range(0, n))
    if fam == "sparse":
        base = [10, 3, 7, 5, 12, 1, 8, 30, 21, 17, 40, 2, 19, 25, 33, 50]
        return base[:n]
    base = ["b", "a", "d", "c", "f", "e", "g", "k", "h", "j", "m", "i", "z", "x", "y", "w"]
    return base[:n]
