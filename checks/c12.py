"""C12 - Directed measures follow their definitions; exact <= strong <= weak reciprocity."""
import itertools
import random
from fractions import Fraction

from checks.containers import explore
from harness import cases as K
from harness.binding import Binding, LABEL_FAMILIES, quiet
from harness.verdict import Result


def frac(x):
    f = Fraction(float(x)).limit_denominator(1000)
    return [f.numerator, f.denominator], float(f.numerator / f.denominator) == float(x)


def observe(b, obj, n, rng, bounds):
    """one case per bound: everything hypergraphx.measures.directed returns"""
    import hypergraphx.measures.directed as D
    st = b.state(obj)
    out = []
    for mx in bounds:
        c = {"st": st, "mx": mx, "float_exact": True}
        with quiet():
            try:
                sig = D.hyperedge_signature_vector(obj, max_hyperedge_size=mx)
                if any(float(v) != int(v) for v in sig):
                    c["float_exact"] = False
                if mx <= 12:
                    c["sig"] = [int(v) for v in sig]
                else:            # large bound: non-zero cells only (1-based flat index, value) + the length
                    c["siglen"] = int(len(sig))
                    c["sigsparse"] = [[i + 1, int(v)] for i, v in enumerate(sig) if v != 0]
            except Exception:
                pass
            for name, fn in (("exact", D.exact_reciprocity), ("strong", D.strong_reciprocity), ("weak", D.weak_reciprocity)):
                try:
                    r = fn(obj, mx)
                    lst = []
                    for z, v in r.items():
                        fr, ok = frac(v)
                        c["float_exact"] = c["float_exact"] and ok
                        lst.append([int(z), fr])
                    c[name] = lst
                except Exception:
                    pass
        out.append(c)
    # degrees: every node x every filter, on the first case only
    deg, seqs = [], []
    fs = [("none", 0)] + [("eq", z) for z in range(1, n + 2)]
    with quiet():
        for f in fs:
            for nd in obj.get_nodes():
                try:
                    deg.append({"n": b.unlab(nd), "f": list(f), "indeg": D.in_degree(obj, nd, **b._fkw(f)),
                                "outdeg": D.out_degree(obj, nd, **b._fkw(f))})
                except Exception:
                    pass
            try:
                i = D.in_degree_sequence(obj, **b._fkw(f))
                o = D.out_degree_sequence(obj, **b._fkw(f))
                seqs.append({"f": list(f), "inseq": [[b.unlab(k), v] for k, v in i.items()],
                             "outseq": [[b.unlab(k), v] for k, v in o.items()]})
            except Exception:
                pass
    if out:
        out[0]["deg"] = deg
        out[0]["seqs"] = seqs
    return out


def all_keys(n):
    nodes = range(1, n + 1)
    ks = []
    for a in range(1, n):
        for S in itertools.combinations(nodes, a):
            rest = [x for x in nodes if x not in S]
            for bb in range(1, len(rest) + 1):
                for T in itertools.combinations(rest, bb):
                    ks.append((S, T))
    return ks


def build(b, keys, rng, extra_nodes=(), weighted=False):
    """weighted: a weighted DirectedHypergraph whose stored weights differ from 1 (given explicitly, or accumulated
    by inserting a hyperedge a second time); the statement counts hyperedges, so nothing expected changes"""
    obj = b.new(weighted)
    keys = list(keys)
    rng.shuffle(keys)
    with quiet():
        for n in extra_nodes:
            obj.add_node(b.lab(n))
        again = []
        for S, T in keys:
            if weighted:
                obj.add_edge((b._tuple(S), b._tuple(T)), weight=rng.choice([1, 2, 2, 3, 5]))
                if rng.random() < 0.4:
                    again.append((S, T))
            else:
                obj.add_edge((b._tuple(S), b._tuple(T)))
        rng.shuffle(again)
        for S, T in again:           # the same hyperedge once more: its weight accumulates, it stays ONE hyperedge
            obj.add_edge((b._tuple(S), b._tuple(T)), weight=rng.choice([1, 1, 2]))
    return obj


def run(tier, seed):
    res = Result("C12", tier, seed, "model_checking")
    explore(res, "dir", tier, module="MC_Directed",
            invariants=["ExactLeStrongLeWeak", "PointwiseImplication", "RatiosInUnitInterval", "SignatureCellSum", "InOutDegreeSum"],
            configs=[dict(n=3, maxw=1, batches=False, metaops=False)])
    rng = random.Random(seed)
    cases, descr = [], []
    fams = ("ident", "sparse", "str", "zero")
    # (i) every directed hypergraph on 3 nodes (2^12 key sets) - quick: a seeded sample of them
    k3 = all_keys(3)
    masks = range(1 << len(k3))
    if tier == "quick":
        masks = rng.sample(list(masks), 250)
    for i, mask in enumerate(masks):
        keys = [k3[j] for j in range(len(k3)) if mask >> j & 1]
        b = Binding("dir", LABEL_FAMILIES[fams[i % 4]](3), rng)
        wtd = i % 3 == 1
        obj = build(b, keys, rng, extra_nodes=(3,) if i % 5 == 0 else (), weighted=wtd)
        for c in observe(b, obj, 3, rng, [2, 3, 4]):
            cases.append(c)
            descr.append({"n": 3, "keys": keys, "labels": b.labels, "mx": c["mx"], "weighted": wtd})
    # (ii) random directed hypergraphs on 4-6 nodes, sizes 2..6, every bound 2..7
    for i in range(60 if tier == "quick" else 1500):
        n = rng.choice([4, 5, 6])
        kk = []
        for _ in range(rng.randint(1, 9)):
            z = rng.randint(2, min(6, n))
            nodes = rng.sample(range(1, n + 1), z)
            a = rng.randint(1, z - 1)
            kk.append((tuple(sorted(nodes[:a])), tuple(sorted(nodes[a:]))))
            if rng.random() < 0.35:      # plant reciprocated / partially reciprocated hyperedges
                S, T = kk[-1]
                kk.append((T, S) if rng.random() < 0.5 else (T[:1], S[:1]))
        kk = list(dict.fromkeys(kk))
        b = Binding("dir", LABEL_FAMILIES[fams[i % 4]](n), rng)
        wtd = i % 3 == 1
        obj = build(b, kk, rng, weighted=wtd)
        for c in observe(b, obj, n, rng, rng.sample(range(2, 8), 3 if tier == "quick" else 6)):
            cases.append(c)
            descr.append({"n": n, "keys": kk, "labels": b.labels, "mx": c["mx"], "weighted": wtd})
    # (iii) large bounds (the signature is indexed by (source size, target size) in a (bound-1)^2 vector) and
    #       hyperedges with many sources; only the signature is observed there
    for i in range(12 if tier == "quick" else 120):
        n = rng.choice([7, 8, 9])
        kk = []
        for _ in range(rng.randint(2, 6)):
            a = rng.randint(1, n - 1)
            nodes = rng.sample(range(1, n + 1), rng.randint(a + 1, n))
            kk.append((tuple(sorted(nodes[:a])), tuple(sorted(nodes[a:]))))
        kk = list(dict.fromkeys(kk))
        b = Binding("dir", LABEL_FAMILIES[fams[i % 4]](n), rng)
        obj = build(b, kk, rng)
        import hypergraphx.measures.directed as D_
        for mx in rng.sample([13, 40, 65, 70, 90, 130, 200, 257, 300], 2):
            c = {"st": b.state(obj), "mx": mx, "float_exact": True}
            try:
                with quiet():
                    sig = D_.hyperedge_signature_vector(obj, max_hyperedge_size=mx)
                c["siglen"] = int(len(sig))
                c["sigsparse"] = [[j + 1, int(v)] for j, v in enumerate(sig) if v != 0]
                if any(float(v) != int(v) for v in sig):
                    c["float_exact"] = False
            except Exception as ex:
                c["siglen"] = -1
                c["sigsparse"] = []
            cases.append(c)
            descr.append({"n": n, "keys": kk, "labels": b.labels, "mx": mx})
    # (iv) several hyperedges sharing one target set (and some sharing one source set), with reverse links from
    #      parts of the targets: insertion order varies
    for i in range(40 if tier == "quick" else 800):
        n = rng.choice([4, 5, 6])
        nodes = list(range(1, n + 1))
        rng.shuffle(nodes)
        T = tuple(sorted(nodes[:rng.randint(2, min(3, n - 2))]))
        rest = [x for x in range(1, n + 1) if x not in T]
        kk = []
        for sset in rng.sample(rest, rng.randint(2, len(rest))):
            kk.append(((sset,), T))
        for t in T:
            if rng.random() < 0.7:
                kk.append(((t,), (rng.choice(rest),)))
        if rng.random() < 0.5 and len(rest) >= 2:
            kk.append((tuple(sorted(rng.sample(rest, 2))), T))
        kk = list(dict.fromkeys(kk))
        rng.shuffle(kk)
        b = Binding("dir", LABEL_FAMILIES[fams[i % 4]](n), rng)
        obj = b.new(False)
        with quiet():
            for S_, T_ in kk:                      # insertion order as listed (not reshuffled)
                obj.add_edge((b._tuple(S_), b._tuple(T_)))
        for c in observe(b, obj, n, rng, rng.sample(range(2, 7), 2)):
            cases.append(c)
            descr.append({"n": n, "keys": kk, "labels": b.labels, "mx": c["mx"]})
    # (v) histories of ONE object: it is measured, edited in place (as many hyperedges removed as added, nothing measured in
    #     between) and measured again with the same bounds; only the second measurement is judged - it must be that of the content
    nhist = 0
    for i in range(60 if tier == "quick" else 900):
        n = rng.choice([3, 4, 5])
        pool = all_keys(n) if n <= 4 else None
        kk = []
        for _ in range(rng.randint(2, 7)):
            if pool:
                kk.append(rng.choice(pool))
            else:
                z = rng.randint(2, n)
                nodes = rng.sample(range(1, n + 1), z)
                a = rng.randint(1, z - 1)
                kk.append((tuple(sorted(nodes[:a])), tuple(sorted(nodes[a:]))))
            if rng.random() < 0.4:
                S, T = kk[-1]
                kk.append((T, S))
        kk = list(dict.fromkeys(kk))
        b = Binding("dir", LABEL_FAMILIES[fams[i % 4]](n), rng)
        obj = build(b, kk, rng)
        bounds = rng.sample(range(2, 7), rng.choice([1, 2]))
        observe(b, obj, n, rng, bounds[::-1])          # the last bound of the first measurement is the first of the second
        out = rng.sample(kk, rng.randint(1, min(2, len(kk))))
        new = []
        for S, T in out:
            for c_ in ([(T, S)] if rng.random() < 0.5 else []) + [rng.choice(pool) if pool else (T, S) for _ in range(8)]:
                if c_ not in kk and c_ not in new:
                    new.append(c_)
                    break
        with quiet():
            for S, T in out:
                obj.remove_edge((b._tuple(S), b._tuple(T)))
            for S, T in new:
                obj.add_edge((b._tuple(S), b._tuple(T)))
        k2 = [k for k in kk if k not in out] + new
        nhist += 1
        for c in observe(b, obj, n, rng, bounds):
            cases.append(c)
            descr.append({"n": n, "keys": k2, "labels": b.labels, "mx": c["mx"],
                          "history": "the object held %s, was measured with the same bounds, and was edited in place" % (kk,)})
    v = K.run_cases("Trace_C12", cases, {"Kind": "dir"}, procs=12)
    for idx, failed in v["rejects"]:
        d = descr[idx]
        res.reject({"clauses": failed, "bound": d["mx"] if any("recipro" in f or "signature" in f for f in failed) else None},
                   "directed measure(s) %s disagree with Directed.tla on %d-node %shypergraph %s (bound %d, labels %s)%s"
                   % (",".join(failed), d["n"], "weighted " if d.get("weighted") else "", d["keys"], d["mx"], d["labels"],
                      " [%s]" % d["history"] if d.get("history") else ""),
                   {"case": d, "logged": {k: v_ for k, v_ in cases[idx].items() if k != "st"}, "state": cases[idx]["st"]})
    inexact = sum(1 for c in cases if not c["float_exact"])
    for i, c in enumerate(cases):
        if not c["float_exact"]:
            res.reject({"clauses": ["float_is_exact_ratio"]}, "a returned ratio is not the float of a small fraction: %s" % descr[i],
                       {"case": descr[i]})
            break
    res.cov(traces_validated_against_impl=len(cases), validator_states=v["states"],
            distinct_hypergraphs=len({(d["n"], tuple(d["keys"])) for d in descr}),
            weighted_cases=sum(1 for d in descr if d.get("weighted")), objects_measured_again_after_in_place_edit=nhist,
            weighted_cases_with_a_weight_other_than_1=sum(1 for c, d in zip(cases, descr) if d.get("weighted")
                                                          and any(e["w"] != 1 for e in c["st"]["edges"])),
            weighted_cases_with_signature_returned=sum(1 for c, d in zip(cases, descr) if d.get("weighted") and "sig" in c),
            exhaustive=(tier == "thorough"))
    res.sample({"hyperedges": descr[-1]["keys"], "labels": descr[-1]["labels"], "bound": descr[-1]["mx"],
                "logged": {k: v_ for k, v_ in cases[-1].items() if k not in ("st", "deg", "seqs")}})
    res.assume("every third input is a weighted DirectedHypergraph with weights 1..5, some accumulated by inserting a hyperedge twice; "
               "signature, reciprocity and degrees count hyperedges, so the expected values ignore the weights",
               "ratios are compared as the nearest fraction with denominator <= 1000 of the returned float, which must reproduce the float bit-for-bit",
               "thorough: all 4096 directed hypergraphs on 3 nodes; quick: a seeded sample of 250 of them; larger ones sampled")
    return res.finish()
