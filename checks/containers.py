"""C01-C04: the four containers against the abstract model HGX.tla.

1. explore   TLC, exhaustive, MC_HGX over a small universe: invariants + step assertions
2. generate  TLC -simulate / BFS over Gen_HGX (spec -> behaviours) + a biased harness generator
3. replay    every behaviour through the public API of real objects (label maps, listing orders)
4. validate  TLC re-executes Trace_HGX along every logged event (code -> spec)
"""
import random
import sys
import time

from harness import containers as C
from harness import tlc
from harness.verdict import Result

INV = ["TypeOK", "DegreeSum", "IncidentExact", "OncePerRole", "RemovedNodeGone", "DirectionKept",
       "NeighSym", "DistIsHistogram"]

# exhaustive exploration configs per kind: (n, maxw, batches, metaops, xs)
EXPLORE = {
    "quick": {
        "hg": [(3, 2, False, False, None), (2, 1, True, True, None)],
        "dir": [(3, 1, False, False, None)],
        "temp": [(2, 2, True, False, [0, 1])],
        "mux": [(2, 2, True, False, ["L1", "L2"])],
    },
    "thorough": {
        "hg": [(3, 2, True, False, None), (2, 2, True, True, None)],
        "dir": [(3, 1, True, False, None), (2, 2, True, True, None)],
        "temp": [(3, 1, False, False, [0, 1]), (2, 1, True, True, [0, 1], ("1",))],
        "mux": [(3, 1, False, False, ["L1", "L2"]), (2, 1, True, True, ["L1", "L2"], ("1",))],
    },
}

# clauses that belong to another property (C08) when they fail in a container run
CC_CLAUSES = {"connected_components", "num_connected_components", "is_connected", "largest_component",
              "largest_component_size", "isolated_nodes", "node_connected_component", "is_isolated"}


def explore(res, kind, tier, module="MC_HGX", invariants=INV, configs=None):
    """exhaustive TLC runs; configs: list of dict(n, maxw, batches, metaops, xs, mvals, weighted)"""
    states = trans = 0
    runs = []
    if configs is None:
        configs = []
        for entry in EXPLORE[tier][kind]:
            (n, maxw, batches, metaops, xs) = entry[:5]
            for weighted in (True, False):
                if not weighted and maxw > 1 and tier == "quick" and not metaops:
                    continue
                cfg_ = dict(n=n, maxw=maxw, batches=batches, metaops=metaops, xs=xs, weighted=weighted)
                if len(entry) > 5:
                    cfg_["mvals"] = entry[5]
                configs.append(cfg_)
    for cf_ in configs:
        cf_ = dict(cf_)
        weighted = cf_.pop("weighted", True)
        c = C.consts(kind, weighted, **cf_)
        cfg = tlc.cfg_text(c, invariants=invariants, constraints=["Bound"])
        r = tlc.run(module, cfg, workers=16, timeout=2400, heap="8g")
        if not tlc.ok_exploration(r):
            raise tlc.TLCError("%s %s failed:\n%s" % (module, c, tlc.error_excerpt(r["out"])))
        s = tlc.stats(r["out"])
        states += s["distinct"]
        trans += s["generated"]
        runs.append({"module": module, "kind": kind, "weighted": weighted, "n": cf_.get("n"), "maxw": cf_.get("maxw"),
                     "states": s["distinct"], "transitions": s["generated"], "wall_s": round(r["wall"], 1)})
    res.cov(states=states, transitions=trans)
    res.coverage.setdefault("explorations", []).extend(runs)
    res.coverage.setdefault("invariants", [])
    for i in invariants:
        if i not in res.coverage["invariants"]:
            res.coverage["invariants"].append(i)
    return states, trans


def behaviours(kind, weighted, tier, seed):
    """list of (ops, n, origin); the TLC runs are independent processes and run concurrently"""
    import concurrent.futures as cf
    out = []
    rng = random.Random(seed * 7919 + (1 if weighted else 0))
    xs3 = {"temp": [0, 1, 2], "mux": ["L1", "L2"]}.get(kind)
    if tier == "quick":
        sims = [(3, 9, 6, 30)]
        exh = [(2, 2)]
        py = [(4, 14, 40), (5, 18, 16), (3, 12, 20)]
    else:
        sims = [(3, 10, 40, 400), (3, 14, 30, 300), (4, 10, 10, 150)]
        exh = [(2, 3), (3, 2)]
        py = [(4, 16, 250), (5, 24, 150), (6, 30, 40)]
    jobs = []
    for (n, depth, num, limit) in sims:
        if n >= 4 and kind != "hg":
            continue
        jobs.append(("tlc-simulate", n, dict(n=n, depth=depth, num=num, seed=seed + depth, limit=limit,
                                             xs=(xs3 if n <= 3 else None), batches=(n <= 3), timeout=1200)))
    for (n, depth) in exh:
        # ALL histories of that length (BFS over Gen_HGX); a uniform sample when there are too many
        jobs.append(("tlc-bfs-depth%d" % depth, n,
                     dict(n=n, depth=depth, seed=seed, exhaustive=True, invalid_every=1, batches=(depth <= 2),
                          metaops=(n == 2 and depth <= 2), maxw=2 if weighted else 1,
                          xs=({"temp": [0, 1], "mux": ["L1", "L2"]}.get(kind)),
                          limit=(250 if tier == "quick" else 4000), timeout=1200)))
    with cf.ThreadPoolExecutor(max_workers=4) as ex:
        futs = [(origin, n, ex.submit(C.tlc_behaviours, kind, weighted, **kw)) for origin, n, kw in jobs]
        for origin, n, f in futs:
            b, _ = f.result()
            out += [(ops, n, origin) for ops in b]
    for (n, length, count) in py:
        for _ in range(count):
            out.append((C.py_behaviour(kind, weighted, n, length, rng), n, "harness-biased"))
    return out


def run_container(prop, kind, tier, seed, cc=False, own_clauses=None, foreign=CC_CLAUSES, plan=None,
                  res=None, finish=True, do_explore=True, queries=True, full=True, scale=1.0,
                  exhaustive_derive=True, own_ops=None, always_own=(), extra_behaviours=None, on_traces=None, extra_traces=None):
    """own_clauses: only these clause names are verdict-bearing for `prop`;
    own_ops: only rejections on events of these call kinds (or with a clause in always_own)"""
    res = res or Result(prop, tier, seed, "model_checking")
    if do_explore:
        explore(res, kind, tier)
    all_traces, all_meta = [], []
    per_origin = {}
    T0 = time.time()
    tgen = trep = 0.0
    import concurrent.futures as cf
    t1 = time.time()
    with cf.ThreadPoolExecutor(max_workers=2) as ex:
        gen = {w: ex.submit(behaviours, kind, w, tier, seed) for w in (True, False)}
        gen = {w: f.result() for w, f in gen.items()}
    tgen = time.time() - t1
    for weighted in (True, False):
        behs = gen[weighted]
        if scale < 1.0:
            rr = random.Random(seed)
            behs = rr.sample(behs, max(10, int(len(behs) * scale)))
        if extra_behaviours:
            behs += extra_behaviours(kind, weighted, tier, seed)
        by_n = {}
        for ops, n, origin in behs:
            by_n.setdefault(n, []).append((ops, origin))
            per_origin[origin] = per_origin.get(origin, 0) + 1
        t1 = time.time()
        for n, lst in by_n.items():
            fams = ("ident", "sparse", "str", "zero", "big", "neg", "long", "cat", "scat")
            traces, meta = C.replay_many(kind, weighted, [o for o, _ in lst], n, families=fams,
                                         seed=seed + n, full=full, cc=cc, copies=True, queries=queries,
                                         plan=plan, exhaustive_derive=exhaustive_derive)
            for m, (_, origin) in zip(meta, lst):
                m.update({"weighted": weighted, "n": n, "origin": origin, "kind": kind,
                          "replay_args": {"full": full, "cc": cc, "copies": True, "queries": queries, "plan": plan,
                                          "exhaustive_derive": exhaustive_derive}})
            all_traces += traces
            all_meta += meta
        trep += time.time() - t1
    if extra_traces:
        tr_, me_ = extra_traces(kind, tier, seed)
        all_traces += tr_
        all_meta += me_
    if on_traces:
        on_traces(res, kind, all_traces, all_meta)
    t1 = time.time()
    v = C.validate(kind, all_traces, procs=8, per_batch=max(20, len(all_traces) // 12 + 1))
    print("[%s %s] generate %.1fs replay %.1fs validate %.1fs (%d traces, %d events)" % (
        prop, kind, tgen, trep, time.time() - t1, len(all_traces), v["events"]), file=sys.stderr)
    judge(res, prop, kind, all_traces, all_meta, v, own_clauses, foreign, own_ops, always_own)
    res.cov(traces_validated_against_impl=len(all_traces), events=v["events"], validator_states=v["states"])
    bo = res.coverage.setdefault("behaviours_by_origin", {})
    for k_, v_ in per_origin.items():
        bo[kind + ":" + k_] = bo.get(kind + ":" + k_, 0) + v_
    kinds_of_events = res.coverage.setdefault("events_by_call", {})
    for t in all_traces:
        for e in t:
            kinds_of_events[e["op"]["op"]] = kinds_of_events.get(e["op"]["op"], 0) + 1
    if all_traces:
        t = all_traces[len(all_traces) // 2]
        res.sample({"kind": kind, "labels": all_meta[len(all_traces) // 2]["labels"],
                    "calls": [e["op"] for e in t][:12]})
    res.assume("the abstract projection is rebuilt from get_nodes/get_edges/get_weight/metadata getters only",
               "weights are positive integers; metadata keys a,b with values 0,1",
               "corners of DESIGN.md section 5 are not executed")
    return res.finish() if finish else res


def judge(res, prop, kind, traces, meta, v, own_clauses=None, foreign=(), own_ops=None, always_own=()):
    first = {}
    other_prop = 0
    for (t, l, failed) in v["rejects"]:
        mine = [c for c in failed if c not in foreign] if own_clauses is None else [c for c in failed if c in own_clauses]
        if own_ops is not None and traces[t][l]["op"]["op"] not in own_ops:
            mine = [c for c in mine if c in always_own]
        if not mine:
            other_prop += 1
            continue
        if t not in first:
            first[t] = (l, mine)
    for t, (l, mine) in first.items():
        ev = traces[t][l]
        sig = {"kind": kind, "clauses": mine, "op": ev["op"]["op"], "weighted": meta[t]["weighted"]}
        what = "%s: clause(s) %s fail after %s (event %d of a %d-call history, labels %s)" % (
            kind, ",".join(mine), ev["op"]["op"], l, len(traces[t]), meta[t]["labels"])
        payload = {"kind": kind, "weighted": meta[t]["weighted"], "n": meta[t]["n"], "family": meta[t]["family"],
                   "replay_seed": meta[t]["seed"], "calls": meta[t]["ops"], "failing_event_index": l,
                   "failing_call": ev["op"], "logged_state": ev["st"], "origin": meta[t]["origin"],
                   "replay_args": meta[t].get("replay_args", {})}
        res.reject(sig, what, payload)
    res.cov(rejected_events=len(v["rejects"]), rejected_traces=len(first), rejections_of_other_property=other_prop)


def replay_container(prop, path):
    """re-execute the calls of a replay file against /repo's current tree and re-validate them with TLC"""
    import json
    with open(path) as f:
        rp = json.load(f)
    p = rp["payload"]
    ra = dict(p.get("replay_args") or {})
    if ra.get("plan"):
        ra["plan"] = {k: (tuple(v) if isinstance(v, list) else v) for k, v in ra["plan"].items()}
    if p.get("origin") == "weighted-unweighted-twins":
        r = C.Replayer(p["kind"], True, p["n"], p["family"], seed=p["replay_seed"], queries=False, plan={"hash": 1.0})
        trace = r.run_twins(p["calls"])
    else:
        r = C.Replayer(p["kind"], p["weighted"], p["n"], p["family"], seed=p["replay_seed"],
                       late=(p["replay_seed"] % 4 == 3), query_prob=(0.25 if p["replay_seed"] % 4 == 2 else 0.8), **ra)
        trace = r.run(p["calls"])
    v = C.validate(p["kind"], [trace], procs=1)
    wanted = set(rp["signature"].get("clauses", []))
    hit = [(l, f) for (_, l, f) in v["rejects"] if wanted & set(f)]
    for (_, l, f) in v["rejects"]:
        print("event %d (%s): failing clauses %s" % (l, trace[l]["op"]["op"], ",".join(f)))
    if hit:
        print("VIOLATION property=%s replay=%s" % (prop, path))
        return 1
    print("replay of %s: the recorded violation does not reproduce on the current tree (%d events validated)"
          % (path, v["events"]))
    return 0


KIMPL_XS = {"dir": {0}, "temp": {0, 1}, "mux": {"L1", "L2"}}
KIMPL_MUTANTS = {"dir": ("reappend", "nmd_leak", "addnode_reset"), "temp": ("weight_after", "reappend"),
                 "mux": ("weight_after", "reappend")}


def explore_kimpl(res, kind, tier):
    """the implementation-shaped model of the directed / temporal / multiplex class (spec/impl/KImpl.tla)
    refines HGX and keeps IndexInv; its historic-fault variants must be rejected by TLC"""
    def consts(bug, n, maxid, xs):
        return {"Kind": kind, "Node": set(range(1, n + 1)), "MaxW": 2, "Weighted": True, "MaxId": maxid, "Bug": bug,
                "MKeys": {"a"}, "MVals": {"1"}, "XS": xs}
    if tier == "quick":
        runs = [(2, 3, KIMPL_XS[kind] if kind == "dir" else set(list(sorted(KIMPL_XS[kind]))[:1]))]
    else:
        runs = [(2, 3, KIMPL_XS[kind]), (3, 3, KIMPL_XS["dir"] if kind == "dir" else set(list(sorted(KIMPL_XS[kind]))[:1]))]
    for (n, maxid, xs) in runs:
        cfg = tlc.cfg_text(consts("none", n, maxid, xs), init="Init", next_="INext", invariants=["IndexInv"],
                           constraints=["IBound"])
        r = tlc.run("KImpl", cfg, workers=16, timeout=3000, heap="8g")
        if not tlc.ok_exploration(r):
            raise tlc.TLCError("KImpl(%s) does not refine HGX / breaks IndexInv:\n%s" % (kind, tlc.error_excerpt(r["out"])))
        s = tlc.stats(r["out"])
        res.cov(states=s["distinct"], transitions=s["generated"])
        res.coverage.setdefault("explorations", []).append(
            {"module": "KImpl", "kind": kind, "n": n, "max_id": maxid, "states": s["distinct"], "transitions": s["generated"],
             "wall_s": round(r["wall"], 1), "checked": ["IndexInv", "refines HGX (Assert in INext)"]})
    rejected = []
    muts = KIMPL_MUTANTS[kind] if tier == "thorough" else KIMPL_MUTANTS[kind][:1]
    for bug in muts:
        cfg = tlc.cfg_text(consts(bug, 2, 3, KIMPL_XS[kind]), init="Init", next_="INext", invariants=["IndexInv"],
                           constraints=["IBound"])
        r = tlc.run("KImpl", cfg, workers=16, timeout=900, heap="8g")
        if tlc.ok_exploration(r) or not ("is violated" in r["out"] or "Assert" in r["out"]):
            raise tlc.TLCError("spec mutant Bug=%s of KImpl(%s) was NOT rejected by TLC" % (bug, kind))
        rejected.append(bug)
    res.cov(spec_mutants_rejected=rejected)
