"""C01-C04: the four containers against the abstract model HGX.tla.

1. explore   TLC, exhaustive, MC_HGX over a small universe: invariants + step assertions
2. generate  TLC -simulate / BFS over Gen_HGX (spec -> behaviours) + a biased harness generator
3. replay    every behaviour through the public API of real objects (label maps, listing orders)
4. validate  TLC re-executes Trace_HGX along every logged event (code -> spec)
"""
import random

from harness import containers as C
from harness import tlc
from harness.verdict import Result

INV = ["TypeOK", "DegreeSum", "IncidentExact", "OncePerRole", "RemovedNodeGone", "DirectionKept",
       "NeighSym", "DistIsHistogram"]

# exhaustive exploration configs per kind: (n, maxw, batches, metaops, xs)
EXPLORE = {
    "quick": {
        "hg": [(3, 2, False, False, None), (2, 2, True, True, None)],
        "dir": [(3, 1, False, False, None)],
        "temp": [(2, 2, True, False, [0, 1])],
        "mux": [(2, 2, True, False, ["L1", "L2"])],
    },
    "thorough": {
        "hg": [(3, 2, True, False, None), (2, 2, True, True, None)],
        "dir": [(3, 1, True, False, None), (2, 2, True, True, None)],
        "temp": [(3, 1, False, False, [0, 1]), (2, 2, True, True, [0, 1])],
        "mux": [(3, 1, False, False, ["L1", "L2"]), (2, 2, True, True, ["L1", "L2"])],
    },
}

# clauses that belong to another property (C08) when they fail in a container run
CC_CLAUSES = {"connected_components", "num_connected_components", "is_connected", "largest_component",
              "largest_component_size", "isolated_nodes", "node_connected_component", "is_isolated"}


def explore(res, kind, tier):
    states = trans = 0
    for (n, maxw, batches, metaops, xs) in EXPLORE[tier][kind]:
        for weighted in (True, False):
            if not weighted and maxw > 1 and tier == "quick" and not metaops:
                continue
            c = C.consts(kind, weighted, n=n, maxw=maxw, batches=batches, metaops=metaops, xs=xs)
            cfg = tlc.cfg_text(c, invariants=INV, constraints=["Bound"])
            r = tlc.run("MC_HGX", cfg, workers=16, timeout=1500, heap="8g")
            if not tlc.ok_exploration(r):
                raise tlc.TLCError("MC_HGX %s failed:\n%s" % (c, tlc.error_excerpt(r["out"])))
            s = tlc.stats(r["out"])
            states += s["distinct"]
            trans += s["generated"]
    res.cov(states=states, transitions=trans)
    return states, trans


def behaviours(kind, weighted, tier, seed):
    """list of (ops, n, origin)"""
    out = []
    rng = random.Random(seed * 7919 + (1 if weighted else 0))
    xs3 = {"temp": [0, 1, 2], "mux": ["L1", "L2"]}.get(kind)
    if tier == "quick":
        sims = [(3, 9, 6, 30)]
        exh = [(2, 2)]
        py = [(4, 14, 14), (5, 18, 6)]
    else:
        sims = [(3, 10, 40, 400), (3, 14, 30, 300), (4, 10, 10, 150)]
        exh = [(2, 3), (3, 2)]
        py = [(4, 16, 250), (5, 24, 150), (6, 30, 40)]
    for (n, depth, num, limit) in sims:
        if n >= 4 and kind != "hg":
            continue
        b, _ = C.tlc_behaviours(kind, weighted, n=n, depth=depth, num=num, seed=seed + depth, limit=limit,
                                xs=(xs3 if n <= 3 else None), batches=(n <= 3), timeout=1200)
        out += [(ops, n, "tlc-simulate") for ops in b]
    for (n, depth) in exh:
        # ALL histories of that length (BFS over Gen_HGX); a uniform sample when there are too many
        b, info = C.tlc_behaviours(kind, weighted, n=n, depth=depth, seed=seed, exhaustive=True,
                                   invalid_every=1, batches=(depth <= 2), metaops=(n == 2 and depth <= 2),
                                   maxw=2 if weighted else 1,
                                   xs=({"temp": [0, 1], "mux": ["L1", "L2"]}.get(kind)),
                                   limit=(250 if tier == "quick" else 4000), timeout=1200)
        out += [(ops, n, "tlc-bfs-depth%d" % depth) for ops in b]
    for (n, length, count) in py:
        for _ in range(count):
            out.append((C.py_behaviour(kind, weighted, n, length, rng), n, "harness-biased"))
    return out


def run_container(prop, kind, tier, seed, cc=False, own_clauses=None, foreign=CC_CLAUSES, extra=None,
                  res=None, finish=True, do_explore=True):
    res = res or Result(prop, tier, seed, "model_checking")
    if do_explore:
        explore(res, kind, tier)
    all_traces, all_meta = [], []
    per_origin = {}
    for weighted in (True, False):
        behs = behaviours(kind, weighted, tier, seed)
        by_n = {}
        for ops, n, origin in behs:
            by_n.setdefault(n, []).append((ops, origin))
            per_origin[origin] = per_origin.get(origin, 0) + 1
        for n, lst in by_n.items():
            fams = ("ident", "sparse", "str", "zero")
            traces, meta = C.replay_many(kind, weighted, [o for o, _ in lst], n, families=fams,
                                         seed=seed + n, full=True, cc=cc, copies=True, extra=extra)
            for m, (_, origin) in zip(meta, lst):
                m.update({"weighted": weighted, "n": n, "origin": origin, "kind": kind})
            all_traces += traces
            all_meta += meta
    v = C.validate(kind, all_traces, procs=8, per_batch=max(20, len(all_traces) // 12 + 1))
    judge(res, prop, kind, all_traces, all_meta, v, own_clauses, foreign)
    res.cov(traces_validated_against_impl=len(all_traces), events=v["events"],
            validator_states=v["states"], behaviours_by_origin=per_origin)
    if all_traces:
        t = all_traces[len(all_traces) // 2]
        res.sample({"kind": kind, "labels": all_meta[len(all_traces) // 2]["labels"],
                    "calls": [e["op"] for e in t][:12]})
    res.assume("the abstract projection is rebuilt from get_nodes/get_edges/get_weight/metadata getters only",
               "weights are positive integers; metadata keys a,b with values 0,1",
               "corners of DESIGN.md section 5 are not executed")
    return res.finish() if finish else res


def judge(res, prop, kind, traces, meta, v, own_clauses=None, foreign=()):
    first = {}
    other_prop = 0
    for (t, l, failed) in v["rejects"]:
        mine = [c for c in failed if c not in foreign] if own_clauses is None else [c for c in failed if c in own_clauses]
        if not mine:
            other_prop += 1
            continue
        if t not in first:
            first[t] = (l, mine)
    for t, (l, mine) in first.items():
        ev = traces[t][l]
        sig = {"kind": kind, "clauses": mine, "op": ev["op"]["op"], "weighted": meta[t]["weighted"]}
        what = "%s: clause(s) %s fail after %s (event %d of a %d-call history, labels %s)" % (
            kind, ",".join(mine), ev["op"]["op"], l, len(traces[t]), meta[t]["labels"])
        payload = {"kind": kind, "weighted": meta[t]["weighted"], "n": meta[t]["n"], "family": meta[t]["family"],
                   "replay_seed": meta[t]["seed"], "calls": meta[t]["ops"], "failing_event_index": l,
                   "failing_call": ev["op"], "logged_state": ev["st"], "origin": meta[t]["origin"]}
        res.reject(sig, what, payload)
    res.cov(rejected_events=len(v["rejects"]), rejected_traces=len(first), rejections_of_other_property=other_prop)
