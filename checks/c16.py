"""C16 - Hy-MMSBM sampler yields valid hypergraphs respecting conditioning and seed.

design      spec/stochastic/Sampler.tla explored exhaustively by TLC (spec/mc/MC_Sampler.tla)
black box   every hypergraph yielded by HyMMSBMSampler.sample(...) is judged by TLC against the
            conjuncts of SamplerPost + SeedFunctional (spec/trace/Trace_C16.tla): PROPERTY clauses
white box   with the hooks of .work/proposed/hooks_c16.diff (HGX_VERIF=1) every _extract_hye,
            _mcmc_step and yield is validated as a step of Sampler.tla: MODEL clauses (m_*),
            reported as MODEL-DRIFT, never as a violation.  Without hooks the check still works.
"""
import concurrent.futures as cf
import json
import numbers
import os
import random
import shutil
import sys
import time

import numpy as np

from harness import tlc
from harness.binding import LABEL_FAMILIES, quiet
from harness.verdict import Result

INVARIANTS = ["TypeOK", "NeverSingleton", "DegNeverExceeds", "SizeCountNeverExceeds", "ExactWhenNoCoincidence",
              "MatchingMeansExhausted", "OutputWellFormed", "PostHolds"]
ALL_MODES = {"init", "seqs", "partial", "model"}
EXPLORE = {
    "quick": [dict(N=4, NEdges=3, MaxDeg=2, MaxW=1, Modes=ALL_MODES)],                       # 165 k states, 30 s
    "thorough": [dict(N=4, NEdges=3, MaxDeg=3, MaxW=2, Modes=ALL_MODES),                  # 635 k states, 90 s
                 dict(N=5, NEdges=3, MaxDeg=2, MaxW=1, Modes={"init"}),                   # 147 k states, 40 s
                 dict(N=4, NEdges=4, MaxDeg=2, MaxW=1, Modes={"init"}),                   # 173 k states, 45 s
                 dict(N=5, NEdges=3, MaxDeg=2, MaxW=1, Modes={"seqs"})],                  # 1.48 M states, 4-5 min
}
BIG = 1 << 28        # TLC integers are 32-bit: larger weights are not sent


# ---------------------------------------------------------------------------
# design level
def explore(tier):
    runs = []
    for c in EXPLORE[tier]:
        cfg = tlc.cfg_text(c, invariants=INVARIANTS)
        r = tlc.run("MC_Sampler", cfg, workers=12 if tier == "quick" else 16, timeout=3000, heap="8g")
        if not tlc.ok_exploration(r):
            raise tlc.TLCError("MC_Sampler %s failed:\n%s" % (c, tlc.error_excerpt(r["out"])))
        s = tlc.stats(r["out"])
        runs.append({"module": "MC_Sampler", "constants": {k: (sorted(v) if isinstance(v, set) else v) for k, v in c.items()},
                     "states": s["distinct"], "transitions": s["generated"], "wall_s": round(r["wall"], 1)})
    return runs


# ---------------------------------------------------------------------------
# inputs (abstract: spec node ids 1..n, hyperedges = sorted tuples of ids)
U_VALUES = [0.0, 0.0, 0.3, 0.5, 1.0, 1.0, 1.5]
W_VALUES = [0.0, 0.2, 0.5, 1.0]


def gen_uw(rng, n, scale=1.0):
    k = rng.choice([1, 2, 2, 3])
    u = [[rng.choice(U_VALUES) * scale for _ in range(k)] for _ in range(n)]
    w = [[0.0] * k for _ in range(k)]
    diag = rng.random() < 0.4
    for a in range(k):
        for b in range(a, k):
            v = rng.choice(W_VALUES[1:]) if a == b else (0.0 if diag else rng.choice(W_VALUES))
            w[a][b] = w[b][a] = v
    return u, w


def gen_edges(rng, n, m, distinct=True, minsize=2):
    out = []
    guard = 0
    while len(out) < m and guard < 200:
        guard += 1
        z = min(n, rng.choice([2, 2, 3, 3, 4, 5, 6]))
        z = max(z, minsize)
        e = tuple(sorted(rng.sample(range(1, n + 1), z)))
        if distinct and e in out:
            continue
        out.append(e)
    return out


def common(rng, n, tier):
    u, w = gen_uw(rng, n)
    return {"u": u, "w": w, "burn": rng.choice([0, 0, 1, 3, 8, 15]), "thin": rng.choice([0, 1, 1, 2, 5]),
            "seed": rng.choice([0, 1, 7, 42, 12345, rng.randrange(10 ** 6)]), "samples": 3 if tier == "quick" else 4,
            "maxsize": None, "dyadic": True, "rescale": False}


def spec_init(rng, tier):
    n = rng.choice([3, 4, 4, 5, 5, 6])
    fam = rng.choice(["str", "sparse", "str", "sparse", "ident", "zero"])
    m = rng.randint(2, 6 if n > 3 else 4)
    edges = gen_edges(rng, n, m)
    s = common(rng, n, tier)
    s.update(mode="init", n=n, family=fam, labels=LABEL_FAMILIES[fam](n), edges=[list(e) for e in edges],
             listing=[rng.sample(list(e), len(e)) for e in edges])
    return s


def spec_seqs(rng, tier):
    n = rng.choice([3, 4, 4, 5, 5, 6])
    m = rng.randint(1, 6)
    base = gen_edges(rng, n, m, distinct=rng.random() < 0.7)
    sizes = {}
    for e in base:
        sizes[len(e)] = sizes.get(len(e), 0) + 1
    total = sum(len(e) for e in base)
    kind = rng.choice(["from_hypergraph", "from_hypergraph", "spread", "concentrated"])
    if kind == "from_hypergraph":       # the sequences of an actual list of hyperedges (realisable, perhaps not greedily)
        deg = [sum(1 for e in base if i in e) for i in range(1, n + 1)]
    elif kind == "spread":              # equal total, dealt out at random
        deg = [0] * n
        for _ in range(total):
            deg[rng.randrange(n)] += 1
    else:                               # equal total on few nodes: the greedy construction must run out of nodes
        few = rng.sample(range(n), rng.randint(1, max(1, n - 2)))
        deg = [0] * n
        for _ in range(total):
            deg[rng.choice(few)] += 1
    keys = list(sizes)
    rng.shuffle(keys)
    s = common(rng, n, tier)
    s.update(mode="seqs", n=n, family="zero", labels=list(range(n)), deg=deg, dim=[[z, sizes[z]] for z in keys],
             kind=kind, rescale=rng.random() < 0.15)
    return s


def spec_model(rng, tier, partial=False):
    n = rng.choice([4, 5, 5, 6])
    s = common(rng, n, tier)
    s["u"], s["w"] = gen_uw(rng, n, scale=rng.choice([0.7, 1.0, 1.3]))
    s.update(mode="model", n=n, family="zero", labels=list(range(n)), maxsize=rng.choice([None, None, 3, 4]),
             dyadic=rng.random() < 0.8)
    if partial:
        s["mode"] = "partial"
        base = gen_edges(rng, n, rng.randint(2, 5), distinct=False)
        if rng.random() < 0.6:
            sizes = {}
            for e in base:
                sizes[len(e)] = sizes.get(len(e), 0) + 1
            s["dim"] = [[z, c] for z, c in sizes.items()]
        else:
            s["deg"] = [sum(1 for e in base if i in e) for i in range(1, n + 1)]
    return s


# ---------------------------------------------------------------------------
# running the real sampler
def hooks():
    try:
        from hypergraphx import _verif
        return _verif if _verif.ON else None
    except Exception:
        return None


def build(s):
    """a fresh sampler and generator from the spec dict; returns (sampler, generator, header fields)"""
    from hypergraphx import Hypergraph
    from hypergraphx.generation.hy_mmsbm_sampling import HyMMSBMSampler
    u = np.array(s["u"], dtype=float)
    w = np.array(s["w"], dtype=float)
    smp = HyMMSBMSampler(u=u, w=w, max_hye_size=s["maxsize"], exact_dyadic_sampling=s["dyadic"],
                         burn_in_steps=s["burn"], intermediate_steps=s["thin"], seed=s["seed"])
    labels = s["labels"]
    inv = {l: i + 1 for i, l in enumerate(labels)}
    hdr = {"idmap": list(range(1, s["n"] + 1)), "chain0": []}
    if s["mode"] == "init":
        h = Hypergraph()
        h.add_nodes([labels[i - 1] for i in range(1, s["n"] + 1)])
        for e in s["listing"]:
            h.add_edge(tuple(labels[i - 1] for i in e))
        mp = h.get_mapping()
        hdr["idmap"] = [inv[x] for x in mp.classes_.tolist()]
        hdr["chain0"] = [sorted(int(x) for x in mp.transform(e)) for e in h.get_edges()]
        gen = smp.sample(initial_hyg=h)
    else:
        kw = {}
        if "deg" in s:
            kw["deg_seq"] = np.array(s["deg"], dtype=int)
        if "dim" in s:
            kw["dim_seq"] = {int(z): int(c) for z, c in s["dim"]}
        if s.get("rescale"):
            kw["allow_rescaling"] = True
        gen = smp.sample(**kw)
    return smp, gen, hdr, inv


def observe(o, inv):
    """public API of the yielded object -> JSON in spec node ids"""
    def un(x):
        try:
            return inv.get(x.item() if hasattr(x, "item") else x, -1)
        except Exception:
            return -1
    edges = list(o.get_edges())
    out, wint, big = [], True, False
    for e in edges:
        wt = o.get_weight(e)
        if isinstance(wt, bool) or not isinstance(wt, numbers.Integral):
            wint = False
            wt = int(wt) if isinstance(wt, numbers.Real) and wt == wt and abs(wt) < BIG else -1
        wt = int(wt)
        if abs(wt) >= BIG:
            big = True
        out.append([sorted(un(x) for x in e), wt])
    return {"out": out, "nodes": [un(x) for x in o.get_nodes()], "weighted": bool(o.is_weighted()), "wint": wint}, big


def flag_of(smp):
    f = smp.matching_sequences
    return "none" if f is None else ("yes" if f else "no")


def conv(ev):
    k = ev["kind"]
    if k == "c16_extract":
        f = ev["flag"]
        return {"k": "extract", "size": ev["size"], "fdeg": ev["force_deg_seq"], "fdim": ev["force_dim_seq"],
                "before": ev["before"], "chosen": ev["chosen"], "after": ev["after"],
                "flag": "none" if f is None else ("yes" if f else "no")}
    if k == "c16_mcmc":
        return {"k": "mcmc", "i": ev["i"], "j": ev["j"], "old1": ev["old1"], "old2": ev["old2"],
                "new1": ev["new1"], "new2": ev["new2"], "acc": bool(ev["accepted"])}
    if k == "c16_yield":
        # non-positive raw weights (underflow; int(nan/inf) garbage) are all dropped by the code: sent as 0
        return {"k": "yield", "list": ev["hye_list"], "w": [int(x) if 0 < x < BIG else (0 if x <= 0 else BIG) for x in ev["weights"]]}
    return None


def one_side(s, hk, keep_events):
    """-> (list of per-sample dict(events, obs, flag), raised or None, oversize)"""
    seq, raised, big = [], None, False
    random.seed(s["seed"])
    np.random.seed(s["seed"] % (2 ** 32))
    if hk:
        hk.EVENTS.clear()
    try:
        with quiet():
            smp, gen, hdr, inv = build(s)
    except Exception as ex:
        return [], "build:" + type(ex).__name__, False, {"idmap": list(range(1, s["n"] + 1)), "chain0": []}
    for _ in range(s["samples"]):
        try:
            with quiet():
                o = next(gen)
        except Exception as ex:
            raised = type(ex).__name__
            break
        evs = []
        if hk:
            if keep_events:
                evs = [c for c in (conv(e) for e in hk.EVENTS if str(e.get("kind", "")).startswith("c16_")) if c]
            hk.EVENTS.clear()
        obs, b = observe(o, inv)
        big = big or b or any(x >= BIG for e in evs if e["k"] == "yield" for x in e["w"])
        obs["flag"] = flag_of(smp)
        seq.append({"events": evs, "obs": obs})
    if hk:
        hk.EVENTS.clear()
    return seq, raised, big, hdr


def make_trace(s, hk):
    """runs the sampler twice (same parameters, same seed); returns (trace or None, stats)"""
    a, ra, biga, hdr = one_side(s, hk, True)
    b, rb, bigb, _ = one_side(s, hk, False)
    st = {"samples": len(a), "raised": ra, "twin_raised": rb, "oversize": biga or bigb,
          "hook_events": sum(len(x["events"]) for x in a)}
    if biga or bigb:
        return None, st
    ev = []
    for i, x in enumerate(a):
        ev += x["events"]
        e = dict(x["obs"])
        e["k"] = "sample"
        e["twin_ok"] = i < len(b)
        e["twin"] = b[i]["obs"]["out"] if i < len(b) else []
        ev.append(e)
    ev.append({"k": "end", "a": len(a), "b": len(b)})
    sizes = []
    deg = []
    if s["mode"] == "init":
        deg = [sum(1 for e in s["edges"] if i in e) for i in range(1, s["n"] + 1)]
        sizes = [len(e) for e in s["edges"]]
    elif s["mode"] == "seqs":
        deg = list(s["deg"])
        sizes = [z for z, c in s["dim"] for _ in range(c)]
    tr = {"mode": s["mode"], "n": s["n"], "deg": deg, "sizes": sizes,
          "maxsize": s["maxsize"] if s["maxsize"] else s["n"], "idmap": hdr["idmap"], "chain0": hdr["chain0"], "ev": ev}
    return tr, st


# ---------------------------------------------------------------------------
# TLC validation (stateful validator: own batch runner, same RJ / DONE protocol as Trace_HGX)
def _validate_batch(args):
    traces, idx, timeout = args
    wd = tlc.workdir("c16")
    try:
        path = os.path.join(wd, "batch.json")
        with open(path, "w") as f:
            json.dump({"traces": traces}, f)
        cfg = tlc.cfg_text({}, init="TInit", next_="TNext")
        res = tlc.run("Trace_C16", cfg, wd=wd, workers=1, env={"TRACE_FILE": path}, timeout=timeout)
        rj, done = [], None
        for s in tlc.printed_strings(res["out"]):
            if s.startswith("RJ "):
                t, l, failed = tlc.parse_value(s[3:])
                rj.append((idx[t - 1], l - 1, sorted(failed)))
            elif s.startswith("DONE "):
                done = [int(x) for x in s.split()[1:]]
        nev = sum(len(t["ev"]) for t in traces)
        if done is None or done[0] != nev:
            raise tlc.TLCError("Trace_C16 did not consume all %d events (DONE=%s)\n%s"
                               % (nev, done, tlc.error_excerpt(res["out"])))
        st = tlc.stats(res["out"]) or {"generated": 0, "distinct": 0}
        return {"rejects": rj, "events": nev, "states": st["distinct"]}
    finally:
        shutil.rmtree(wd, ignore_errors=True)


def validate(traces, procs=10, timeout=1500):
    out = {"rejects": [], "events": 0, "states": 0}
    if not traces:
        return out
    per = max(5, len(traces) // procs + 1)
    jobs = [(traces[i:i + per], list(range(i, min(len(traces), i + per))), timeout) for i in range(0, len(traces), per)]
    with cf.ThreadPoolExecutor(max_workers=procs) as ex:
        for r in ex.map(_validate_batch, jobs):
            out["rejects"] += r["rejects"]
            out["events"] += r["events"]
            out["states"] += r["states"]
    out["rejects"].sort()
    return out


def judge(res, specs, traces, owner, v):
    """first PROPERTY rejection of a run -> Result.reject; MODEL (m_*) rejections -> model_drift"""
    first, drift, nprop, nmodel = {}, {}, 0, 0
    for t, l, failed in v["rejects"]:
        prop = [c for c in failed if not c.startswith("m_")]
        model = [c for c in failed if c.startswith("m_")]
        if model:
            nmodel += 1
            drift.setdefault(tuple(model), (t, l))
        if prop:
            nprop += 1
            first.setdefault(t, (l, prop))
    for t, (l, prop) in first.items():
        s = specs[owner[t]]
        ev = traces[t]["ev"][l]
        k = sum(1 for e in traces[t]["ev"][:l + 1] if e["k"] == "sample")
        what = ("sampler (%s, %d nodes, seed %d, burn-in %d, thinning %d): clause(s) %s fail on %s"
                % (s["mode"], s["n"], s["seed"], s["burn"], s["thin"], ",".join(prop),
                   "sample #%d" % k if ev["k"] == "sample" else "the number of samples the two twins produced"))
        res.reject({"clauses": prop, "mode": s["mode"]}, what,
                   {"spec": s, "failing_event_index": l, "failing_event": {k_: v_ for k_, v_ in ev.items()},
                    "conditioning": {"deg": traces[t]["deg"], "sizes": traces[t]["sizes"]}})
    for model, (t, l) in drift.items():
        s = specs[owner[t]]
        res.model_drift("step clause(s) %s of Sampler.tla fail on a hooked %s event (mode %s, seed %d): the code takes a step "
                        "the model does not allow" % (",".join(model), traces[t]["ev"][l]["k"], s["mode"], s["seed"]))
    res.cov(rejected_events=len(v["rejects"]), rejected_property_events=nprop, rejected_model_events=nmodel,
            rejected_runs=len(first))


def _chunk(specs):
    """worker process: the sampler runs of one slice of the specs"""
    hk = hooks()
    return [make_trace(s, hk) for s in specs]


def sample_runs(specs, res, pool=None):
    """pool: futures (submitted by start_pool) that run the samplers in forked worker processes"""
    hk = hooks()
    traces, owner = [], []
    cnt = {"runs": 0, "runs_raised_without_sample": 0, "runs_raised_later": 0, "samples_judged": 0, "hook_events": 0,
           "oversize_runs_not_sent": 0, "flag_yes": 0, "flag_no": 0, "exact_clause_applicable": 0,
           "samples_with_coincidence_or_lost": 0}
    raised_kinds, by_mode = {}, {}
    if pool is None:
        results = [make_trace(s, hk) for s in specs]
    else:
        results = [x for f in pool for x in f.result()]
    for si, s in enumerate(specs):
        tr, st = results[si]
        cnt["runs"] += 1
        by_mode[s["mode"]] = by_mode.get(s["mode"], 0) + 1
        if st["raised"]:
            key = "%s:%s" % (s["mode"], st["raised"])
            raised_kinds[key] = raised_kinds.get(key, 0) + 1
            cnt["runs_raised_without_sample" if st["samples"] == 0 else "runs_raised_later"] += 1
        if tr is None:
            cnt["oversize_runs_not_sent"] += 1
            continue
        cnt["samples_judged"] += st["samples"]
        cnt["hook_events"] += st["hook_events"]
        for e in tr["ev"]:
            if e["k"] == "sample":
                if s["mode"] == "seqs":
                    cnt["flag_yes" if e["flag"] == "yes" else "flag_no"] += 1
                if s["mode"] == "init" or (s["mode"] == "seqs" and e["flag"] == "yes"):
                    if len(e["out"]) == len(tr["sizes"]):
                        cnt["exact_clause_applicable"] += 1
                    else:
                        cnt["samples_with_coincidence_or_lost"] += 1
        traces.append(tr)
        owner.append(si)
    res.cov(**cnt)
    res.coverage["runs_by_mode"] = by_mode
    res.coverage["raised_by_mode_and_exception"] = raised_kinds
    res.coverage["hooks_present"] = hk is not None
    return traces, owner


def make_specs(tier, seed):
    rng = random.Random(seed * 1000003 + 16)
    k = {"quick": (420, 480, 200, 60), "thorough": (8000, 9000, 4000, 1000)}[tier]
    specs = [spec_init(rng, tier) for _ in range(k[0])]
    specs += [spec_seqs(rng, tier) for _ in range(k[1])]
    specs += [spec_model(rng, tier) for _ in range(k[2])]
    specs += [spec_model(rng, tier, partial=True) for _ in range(k[3])]
    return specs


def finish_cov(res, traces, v, specs):
    res.cov(traces_validated_against_impl=len(traces), events=v["events"], validator_states=v["states"])
    for t in traces:
        if t["mode"] == "init" and any(e["k"] == "sample" for e in t["ev"]):
            smp = next(e for e in t["ev"] if e["k"] == "sample")
            res.sample({"mode": "init", "conditioning": {"deg": t["deg"], "sizes": t["sizes"]}, "idmap": t["idmap"],
                        "first_sample": smp["out"], "events": [e["k"] for e in t["ev"]][:40]})
            break
    for t in traces:
        if t["mode"] == "seqs" and any(e["k"] == "sample" and e["flag"] == "no" for e in t["ev"]):
            smp = next(e for e in t["ev"] if e["k"] == "sample")
            res.sample({"mode": "seqs (reported as not matching)", "conditioning": {"deg": t["deg"], "sizes": t["sizes"]},
                        "first_sample": smp["out"]})
            break
    res.assume(
        "initial hypergraphs have hyperedges of size >= 2 only (the model's kappa is undefined for size 1) and every node listed; "
        "degree/size sequences are non-negative integers with equal totals and sizes >= 2",
        "the exactness clause is applied when num_edges(sample) = number of hyperedges asked for (the only black-box reading of "
        "'no two sampled hyperedges coincided'; MC_Sampler shows it is equivalent to 'no coincidence and no zero weight')",
        "numpy integer weights (numpy.int64) count as integers; the type test itself is done in Python, TLC decides weight >= 1",
        "runs that raise before the first sample (too few hyperedges for a move, no zero-degree node left to pad with, "
        "self.model AttributeError of the degree-only branch) yield no sample: counted, not judged (DESIGN.md section 5)",
        "SeedFunctional compares two samplers built in the same process with identical arguments; a run and its twin must "
        "also stop (raise) after the same number of samples",
        "mode 'partial' (only one of deg_seq / dim_seq given) is outside the conditioning clauses: well-formedness and seed only",
        "weights >= 2^28 are not sent to TLC (32-bit integers); such runs are counted under oversize_runs_not_sent")


def run(tier, seed):
    res = Result("C16", tier, seed, "model_checking")
    t0 = time.time()
    specs = make_specs(tier, seed)
    import multiprocessing as mp
    nproc = 4 if tier == "quick" else 8
    # worker processes are forked before the TLC thread starts; each runs slices of the specs in order
    with cf.ProcessPoolExecutor(max_workers=nproc, mp_context=mp.get_context("fork")) as px, \
            cf.ThreadPoolExecutor(max_workers=1) as ex:
        pool = [px.submit(_chunk, specs[i:i + 40]) for i in range(0, len(specs), 40)]
        fut = ex.submit(explore, tier)              # TLC explores the design while the real sampler runs
        traces, owner = sample_runs(specs, res, pool)
        t1 = time.time()
        v = validate(traces, procs=4 if tier == "quick" else 10)
        t2 = time.time()
        runs = fut.result()
    res.cov(states=sum(r["states"] for r in runs), transitions=sum(r["transitions"] for r in runs))
    res.coverage["explorations"] = runs
    res.coverage["invariants"] = INVARIANTS + ["step assertions MovePreserves, WeightConserved, ZeroDroppedOnly",
                                               "ASSUME Splits = Reshuffle relation; Choices decrement only chosen nodes"]
    print("[C16] sampling %.1fs validate %.1fs explore(total, concurrent) %.1fs (%d runs, %d events)"
          % (t1 - t0, t2 - t1, sum(r["wall_s"] for r in runs), len(traces), v["events"]), file=sys.stderr)
    judge(res, specs, traces, owner, v)
    finish_cov(res, traces, v, specs)
    return res.finish()


def replay(path):
    with open(path) as f:
        rp = json.load(f)
    res = Result("C16", rp.get("tier", "quick"), rp.get("seed", 1), "model_checking")
    specs = [rp["payload"]["spec"]]
    traces, owner = sample_runs(specs, res)
    v = validate(traces, procs=1)
    judge(res, specs, traces, owner, v)
    finish_cov(res, traces, v, specs)
    return res.finish()
