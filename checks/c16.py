"""C16 - Hy-MMSBM sampler yields valid hypergraphs respecting conditioning and seed.

design      spec/stochastic/Sampler.tla explored exhaustively by TLC (spec/mc/MC_Sampler.tla)
black box   every hypergraph yielded by HyMMSBMSampler.sample(...) is judged by TLC against the
            conjuncts of SamplerPost + SeedFunctional (spec/trace/Trace_C16.tla): PROPERTY clauses
white box   with the hooks of .work/proposed/hooks_c16.diff (HGX_VERIF=1) every _extract_hye,
            _mcmc_step and yield is validated as a step of Sampler.tla: MODEL clauses (m_*),
            reported as MODEL-DRIFT, never as a violation.  Without hooks the check still works.
            The hooks also make the list of sampled hyperedges visible: the statement's "whenever no two
            sampled hyperedges coincided ... exactly" is then judged (PROPERTY clause
            exact_when_no_coincidence_at_yield) on every sample whose logged list and tracked chain hold no
            two equal hyperedges, however many hyperedges came out and whatever earlier samples looked like.
inputs      dense random u, w next to hard (0/1) memberships with a diagonal w, where hyperedges across
            communities have Poisson rate exactly 0; single calls next to histories of several sample()
            calls on ONE sampler object (matching_sequences is never reset): every yielded hypergraph is
            judged against the conditioning of its own call and the flag reported at that moment.
            Initial hypergraphs are unweighted or WEIGHTED (the conditioning is the degree / size sequences
            the library reports for the object).  The twin of a run (same parameters, same seed) is built
            and driven under DIFFERENT states of Python's global random and numpy's global generator.
"""
import concurrent.futures as cf
import json
import numbers
import os
import random
import shutil
import sys
import time

import numpy as np

from harness import tlc
from harness.binding import LABEL_FAMILIES, quiet
from harness.verdict import Result

# the shared label families plus integers whose LARGEST label is N-1 although they are not 0..N-1 (the sampler works on
# indices 0..N-1 internally and must translate back to the labels of the initial hypergraph whatever they are)
LABEL_FAMILIES = dict(LABEL_FAMILIES)
LABEL_FAMILIES["topmax"] = lambda n: [n - 1, -1, 0] + list(range(2, n - 1))

INVARIANTS = ["TypeOK", "NeverSingleton", "DegNeverExceeds", "SizeCountNeverExceeds", "ExactWhenNoCoincidence",
              "MatchingMeansExhausted", "ChainComplete", "OutputWellFormed", "PostHolds"]
ALL_MODES = {"init", "seqs", "partial", "model"}
FRESH, ANY_FLAG = {"none"}, {"none", "yes", "no"}     # Flags0: the flag an earlier call on the same object may have left
EXPLORE = {
    "quick": [dict(N=4, NEdges=3, MaxDeg=2, MinW=0, MaxW=1, Flags0=ANY_FLAG, Modes=ALL_MODES)],            # 222 k states, 20 s
    "thorough": [dict(N=4, NEdges=3, MaxDeg=3, MinW=0, MaxW=2, Flags0=ANY_FLAG, Modes=ALL_MODES),
                 dict(N=4, NEdges=3, MaxDeg=2, MinW=1, MaxW=2, Flags0=ANY_FLAG, Modes={"init", "seqs"}),   # literal exactness
                 dict(N=5, NEdges=3, MaxDeg=2, MinW=0, MaxW=1, Flags0=FRESH, Modes={"init"}),              # 147 k states, 40 s
                 dict(N=4, NEdges=4, MaxDeg=2, MinW=0, MaxW=1, Flags0=FRESH, Modes={"init"}),              # 173 k states, 45 s
                 dict(N=5, NEdges=3, MaxDeg=2, MinW=0, MaxW=1, Flags0=FRESH, Modes={"seqs"})],                 # 1.48 M states, 4-5 min
}
BIG = 1 << 28        # TLC integers are 32-bit: larger weights are not sent


# ---------------------------------------------------------------------------
# design level
def explore(tier):
    runs = []
    for c in EXPLORE[tier]:
        cfg = tlc.cfg_text(c, invariants=INVARIANTS)
        r = tlc.run("MC_Sampler", cfg, workers=12 if tier == "quick" else 16, timeout=3000, heap="8g")
        if not tlc.ok_exploration(r):
            raise tlc.TLCError("MC_Sampler %s failed:\n%s" % (c, tlc.error_excerpt(r["out"])))
        s = tlc.stats(r["out"])
        runs.append({"module": "MC_Sampler", "constants": {k: (sorted(v) if isinstance(v, set) else v) for k, v in c.items()},
                     "states": s["distinct"], "transitions": s["generated"], "wall_s": round(r["wall"], 1)})
    return runs


# ---------------------------------------------------------------------------
# inputs (abstract: spec node ids 1..n, hyperedges = sorted tuples of ids)
U_VALUES = [0.0, 0.0, 0.3, 0.5, 1.0, 1.0, 1.5]
W_VALUES = [0.0, 0.2, 0.5, 1.0]
HARD_SHARE = 0.35     # share of the inputs with hard memberships and a diagonal w
INIT_WEIGHTS = [1, 1, 2, 2, 3, 3, 5, 2.5, 0.5]      # weights of a weighted initial hypergraph


def gen_uw(rng, n, scale=1.0):
    k = rng.choice([1, 2, 2, 3])
    u = [[rng.choice(U_VALUES) * scale for _ in range(k)] for _ in range(n)]
    w = [[0.0] * k for _ in range(k)]
    diag = rng.random() < 0.4
    for a in range(k):
        for b in range(a, k):
            v = rng.choice(W_VALUES[1:]) if a == b else (0.0 if diag else rng.choice(W_VALUES))
            w[a][b] = w[b][a] = v
    return u, w


def gen_uw_hard(rng, n):
    """hard memberships (every node in exactly one community, u in {0, 1}) and a diagonal w: the Poisson rate of a
    hyperedge is sum_k w_kk * C(#its nodes in community k, 2) - exactly 0 when its nodes sit in different communities"""
    k = rng.choice([2, 3, 3, 4])
    comm = [i % k for i in range(n)]
    rng.shuffle(comm)
    u = [[1.0 if comm[i] == a else 0.0 for a in range(k)] for i in range(n)]
    w = [[rng.choice([0.2, 0.5, 1.0, 2.0]) if a == b else 0.0 for b in range(k)] for a in range(k)]
    return u, w


def zero_rate(u, w, e):
    """e: code indices (rows of u).  u, w >= 0: the rate sum_{i<j} u_i^T w u_j is 0 iff every term is"""
    k = len(w)
    for x in range(len(e)):
        for y in range(x + 1, len(e)):
            ui, uj = u[e[x]], u[e[y]]
            if any(ui[a] and uj[b] and w[a][b] for a in range(k) for b in range(k)):
                return False
    return True


def gen_edges(rng, n, m, distinct=True, minsize=2, maxsize=6):
    out = []
    guard = 0
    while len(out) < m and guard < 200:
        guard += 1
        z = min(n, maxsize, rng.choice([2, 2, 3, 3, 4, 5, 6]))
        z = max(z, minsize)
        e = tuple(sorted(rng.sample(range(1, n + 1), z)))
        if distinct and e in out:
            continue
        out.append(e)
    return out


def common(rng, n, tier):
    hard = rng.random() < HARD_SHARE
    u, w = gen_uw_hard(rng, n) if hard else gen_uw(rng, n)
    return {"u": u, "w": w, "hard": hard, "burn": rng.choice([0, 0, 1, 3, 8, 15]), "thin": rng.choice([0, 1, 1, 2, 5]),
            "seed": rng.choice([0, 1, 7, 42, 12345, rng.randrange(10 ** 6)]), "samples": 3 if tier == "quick" else 4,
            "maxsize": None, "dyadic": True, "rescale": False}


def call_init(rng, n, maxsize=6):
    m = rng.randint(2, 6 if n > 3 else 4)
    edges = gen_edges(rng, n, m, maxsize=maxsize)
    c = {"mode": "init", "edges": [list(e) for e in edges], "listing": [rng.sample(list(e), len(e)) for e in edges]}
    # the quantifier says "all initial hypergraphs": half of them are WEIGHTED (weights 1, 2, 3, now and then not an integer).
    # The conditioning is the hypergraph's degree and size sequences as the library defines them (Hypergraph.degree_sequence,
    # get_sizes: one count per hyperedge, whatever its weight) - start_call reads them from the object it hands over
    r = rng.random()
    if r < 0.5:
        c["weights"] = [rng.choice(INIT_WEIGHTS) for _ in edges]
        if r < 0.35 and all(w == 1 for w in c["weights"]):
            c["weights"][rng.randrange(len(edges))] = rng.choice([2, 3])
    return c


def call_seqs(rng, n, kind=None, maxsize=6):
    m = rng.randint(1, 6)
    kind = kind or rng.choice(["from_hypergraph", "from_hypergraph", "spread", "concentrated"])
    base = gen_edges(rng, n, m, distinct=(kind == "greedy") or rng.random() < 0.7, maxsize=maxsize)
    sizes = {}
    for e in base:
        sizes[len(e)] = sizes.get(len(e), 0) + 1
    total = sum(len(e) for e in base)
    if kind in ("from_hypergraph", "greedy"):   # the sequences of an actual list of hyperedges (realisable, perhaps not greedily)
        deg = [sum(1 for e in base if i in e) for i in range(1, n + 1)]
    elif kind == "spread":              # equal total, dealt out at random
        deg = [0] * n
        for _ in range(total):
            deg[rng.randrange(n)] += 1
    else:                               # equal total on few nodes: the greedy construction must run out of nodes
        few = rng.sample(range(n), rng.randint(1, max(1, n - 2)))
        deg = [0] * n
        for _ in range(total):
            deg[rng.choice(few)] += 1
    keys = list(sizes)
    rng.shuffle(keys)
    return {"mode": "seqs", "deg": deg, "dim": [[z, sizes[z]] for z in keys], "kind": kind, "rescale": rng.random() < 0.15}


def spec_init(rng, tier):
    n = rng.choice([3, 4, 4, 5, 5, 6])
    fam = rng.choice(["str", "sparse", "str", "sparse", "ident", "zero", "topmax", "neg"])
    c = call_init(rng, n)
    s = common(rng, n, tier)
    s.update(c, n=n, family=fam, labels=LABEL_FAMILIES[fam](n))
    # max_hye_size is a parameter of the sampler like any other: given explicitly it may be smaller than the largest hyperedge of
    # the initial hypergraph - the conditioning is still the whole initial hypergraph (its degrees, its sizes)
    s["maxsize"] = rng.choice([None, None, None, 2, 3, 4])
    return s


def spec_seqs(rng, tier):
    n = rng.choice([3, 4, 4, 5, 5, 6])
    c = call_seqs(rng, n)
    s = common(rng, n, tier)
    s.update(c, n=n, family="zero", labels=list(range(n)))
    if s["hard"]:
        # allow_rescaling is not part of the statement's quantifier; with a model whose expected statistics all vanish up
        # to rounding, _rescale_model_parameters divides rounding noise by rounding noise and turns u into NaN
        s["rescale"] = False
    return s


def spec_model(rng, tier, partial=False):
    n = rng.choice([4, 5, 5, 6])
    s = common(rng, n, tier)
    if not s["hard"]:
        s["u"], s["w"] = gen_uw(rng, n, scale=rng.choice([0.7, 1.0, 1.3]))
    s.update(mode="model", n=n, family="zero", labels=list(range(n)), maxsize=rng.choice([None, None, 3, 4]),
             dyadic=rng.random() < 0.8)
    if partial:
        s["mode"] = "partial"
        base = gen_edges(rng, n, rng.randint(2, 5), distinct=False)
        if rng.random() < 0.6:
            sizes = {}
            for e in base:
                sizes[len(e)] = sizes.get(len(e), 0) + 1
            s["dim"] = [[z, c] for z, c in sizes.items()]
        else:
            s["deg"] = [sum(1 for e in base if i in e) for i in range(1, n + 1)]
    return s


PLANS = [("realisable", "not"), ("realisable", "not"), ("not", "realisable"), ("realisable", "realisable"),
         ("init", "not"), ("init", "realisable"), ("realisable", "init"), ("not", "init"), ("init", "init"),
         ("realisable", "realisable", "not"), ("realisable", "not", "realisable"), ("init", "realisable", "not", "init")]


def spec_multi(rng, tier):
    """several sample() calls, one after the other, on ONE sampler object (the docstring of sample(): 'To sample
    conditioning on different sequences, a new call to this method is required').  matching_sequences is an
    attribute of the object: a call starts with whatever the earlier calls left.
    'realisable': the sequences of a list of distinct hyperedges (the greedy construction mostly realises them);
    'not': equal totals concentrated on few nodes (it must run out of nodes and pad with degree-zero nodes)"""
    n = rng.choice([4, 5, 5, 6, 6])
    fam = rng.choice(["str", "sparse", "ident", "zero", "topmax"])
    s = common(rng, n, tier)
    calls = []
    for what in rng.choice(PLANS):
        if what == "init":
            c = call_init(rng, n)
        else:
            c = call_seqs(rng, n, kind="greedy" if what == "realisable" else "concentrated", maxsize=3 if what == "not" else 6)
            c["rescale"] = False
        calls.append(c)
    s.update(mode="multi", n=n, family=fam, labels=LABEL_FAMILIES[fam](n), calls=calls)
    return s


def calls_of(s):
    """a single-call spec carries the fields of its one call itself"""
    return s["calls"] if s["mode"] == "multi" else [s]


# ---------------------------------------------------------------------------
# running the real sampler
def hooks():
    try:
        from hypergraphx import _verif
        return _verif if _verif.ON else None
    except Exception:
        return None


def make_sampler(s):
    from hypergraphx.generation.hy_mmsbm_sampling import HyMMSBMSampler
    u = np.array(s["u"], dtype=float)
    w = np.array(s["w"], dtype=float)
    return HyMMSBMSampler(u=u, w=w, max_hye_size=s["maxsize"], exact_dyadic_sampling=s["dyadic"],
                          burn_in_steps=s["burn"], intermediate_steps=s["thin"], seed=s["seed"])


def default_hdr(s):
    return {"idmap": list(range(1, s["n"] + 1)), "chain0": []}


def start_call(smp, s, c):
    """one call of smp.sample(...) from the call dict c; returns (generator, header fields, label -> spec id)"""
    from hypergraphx import Hypergraph
    hdr = default_hdr(s)
    if c["mode"] == "init":
        labels = s["labels"]
        inv = {l: i + 1 for i, l in enumerate(labels)}
        wts = c.get("weights")
        h = Hypergraph(weighted=True) if wts else Hypergraph()
        h.add_nodes([labels[i - 1] for i in range(1, s["n"] + 1)])
        for k, e in enumerate(c["listing"]):
            if wts:
                h.add_edge(tuple(labels[i - 1] for i in e), weight=wts[k])
            else:
                h.add_edge(tuple(labels[i - 1] for i in e))
        # the conditioning of this call, read from the object through the public API (spec node ids)
        dseq = h.degree_sequence()
        hdr["deg_of_object"] = [int(dseq[labels[i - 1]]) for i in range(1, s["n"] + 1)]
        hdr["sizes_of_object"] = sorted(len(e) for e in h.get_edges())
        mp = h.get_mapping()
        hdr["idmap"] = [inv[x] for x in mp.classes_.tolist()]
        hdr["chain0"] = [sorted(int(x) for x in mp.transform(e)) for e in h.get_edges()]
        gen = smp.sample(initial_hyg=h)
    else:
        inv = {i: i + 1 for i in range(s["n"])}      # without an initial hypergraph the nodes are the indices 0..n-1
        kw = {}
        if "deg" in c:
            kw["deg_seq"] = np.array(c["deg"], dtype=int)
        if "dim" in c:
            kw["dim_seq"] = {int(z): int(k) for z, k in c["dim"]}
        if c.get("rescale"):
            kw["allow_rescaling"] = True
        gen = smp.sample(**kw)
    return gen, hdr, inv


def observe(o, inv):
    """public API of the yielded object -> JSON in spec node ids"""
    def un(x):
        try:
            return inv.get(x.item() if hasattr(x, "item") else x, -1)
        except Exception:
            return -1
    edges = list(o.get_edges())
    out, wint, big = [], True, False
    for e in edges:
        wt = o.get_weight(e)
        if isinstance(wt, bool) or not isinstance(wt, numbers.Integral):
            wint = False
            wt = int(wt) if isinstance(wt, numbers.Real) and wt == wt and abs(wt) < BIG else -1
        wt = int(wt)
        if abs(wt) >= BIG:
            big = True
        out.append([sorted(un(x) for x in e), wt])
    return {"out": out, "nodes": [un(x) for x in o.get_nodes()], "weighted": bool(o.is_weighted()), "wint": wint}, big


def flag_of(smp):
    f = smp.matching_sequences
    return "none" if f is None else ("yes" if f else "no")


def conv(ev):
    k = ev["kind"]
    if k == "c16_extract":
        f = ev["flag"]
        return {"k": "extract", "size": ev["size"], "fdeg": ev["force_deg_seq"], "fdim": ev["force_dim_seq"],
                "before": ev["before"], "chosen": ev["chosen"], "after": ev["after"],
                "flag": "none" if f is None else ("yes" if f else "no")}
    if k == "c16_mcmc":
        return {"k": "mcmc", "i": ev["i"], "j": ev["j"], "old1": ev["old1"], "old2": ev["old2"],
                "new1": ev["new1"], "new2": ev["new2"], "acc": bool(ev["accepted"])}
    if k == "c16_yield":
        # non-positive raw weights (underflow; int(nan/inf) garbage) are all dropped by the code: sent as 0
        # ("garbage": which of them were negative - kept for the diagnosis of a rejection only, TLC does not read it)
        return {"k": "yield", "list": ev["hye_list"], "w": [int(x) if 0 < x < BIG else (0 if x <= 0 else BIG) for x in ev["weights"]],
                "garbage": [i for i, x in enumerate(ev["weights"]) if x < 0]}
    return None


def global_seeds(s, twin):
    """states of the process-global generators (Python's random, numpy's legacy global) before a sampler is built: the statement
    makes the samples a function of the parameters and the SEED, so the run and its twin start from DIFFERENT global states
    (a draw from a global generator instead of the sampler's own then shows as a difference between the twins)"""
    return ((s["seed"] * 2 + 1) * (7919 if twin else 1) + 104729 * twin) % (2 ** 32), (s["seed"] + 15485863 * twin) % (2 ** 32)


def one_side(s, hk, keep_events, twin=0):
    """one sampler object, the calls of the spec one after the other
    -> (list per call of dict(seq = per-sample dict(events, obs), raised, hdr, flag0), oversize)"""
    calls, big = calls_of(s), False
    gs = global_seeds(s, twin)
    random.seed(gs[0])
    np.random.seed(gs[1])
    if hk:
        hk.EVENTS.clear()
    try:
        with quiet():
            smp = make_sampler(s)
    except Exception as ex:
        return [{"seq": [], "raised": "build:" + type(ex).__name__, "hdr": default_hdr(s), "flag0": "none"} for _ in calls], False
    out = []
    for c in calls:
        one = {"seq": [], "raised": None, "hdr": default_hdr(s), "flag0": flag_of(smp)}
        out.append(one)
        if hk:
            hk.EVENTS.clear()
        try:
            with quiet():
                gen, one["hdr"], inv = start_call(smp, s, c)
        except Exception as ex:
            one["raised"] = "build:" + type(ex).__name__
            continue
        for _ in range(s["samples"]):
            try:
                with quiet():
                    o = next(gen)
            except Exception as ex:
                one["raised"] = type(ex).__name__
                break
            evs = []
            if hk:
                if keep_events:
                    evs = [x for x in (conv(e) for e in hk.EVENTS if str(e.get("kind", "")).startswith("c16_")) if x]
                hk.EVENTS.clear()
            obs, b = observe(o, inv)
            big = big or b or any(x >= BIG for e in evs if e["k"] == "yield" for x in e["w"])
            obs["flag"] = flag_of(smp)          # what the sampler reports when this hypergraph is handed out
            one["seq"].append({"events": evs, "obs": obs})
    if hk:
        hk.EVENTS.clear()
    return out, big


def make_trace(s, hk):
    """runs the sampler twice (same parameters, same seed, same calls); returns a list, one (trace or None, stats)
    per call of sample()"""
    sa, biga = one_side(s, hk, True)
    sb, bigb = one_side(s, hk, False, twin=1)
    res = []
    for ci, c in enumerate(calls_of(s)):
        a, b, hdr = sa[ci]["seq"], sb[ci]["seq"], sa[ci]["hdr"]
        st = {"samples": len(a), "raised": sa[ci]["raised"], "twin_raised": sb[ci]["raised"], "oversize": biga or bigb,
              "hook_events": sum(len(x["events"]) for x in a), "zero_rate_yields": 0, "zero_rate_hyperedges": 0}
        if biga or bigb:
            res.append((None, st))
            continue
        ev = []
        for i, x in enumerate(a):
            ev += x["events"]
            e = dict(x["obs"])
            e["k"] = "sample"
            e["twin_ok"] = i < len(b)
            e["twin"] = b[i]["obs"]["out"] if i < len(b) else []
            ev.append(e)
        ev.append({"k": "end", "a": len(a), "b": len(b)})
        for e in ev:
            if e["k"] == "yield":
                z = sum(1 for h in e["list"] if zero_rate(s["u"], s["w"], h))
                st["zero_rate_hyperedges"] += z
                st["zero_rate_yields"] += 1 if z else 0
        sizes, deg = [], []
        if c["mode"] == "init":
            deg = [sum(1 for e in c["edges"] if i in e) for i in range(1, s["n"] + 1)]
            sizes = [len(e) for e in c["edges"]]
            if "deg_of_object" in hdr and (hdr["deg_of_object"] != deg or hdr["sizes_of_object"] != sorted(sizes)):
                raise tlc.TLCError("C16 harness: the initial hypergraph reports degree / size sequences %s / %s, built from %s"
                                   % (hdr["deg_of_object"], hdr["sizes_of_object"], c))
        elif c["mode"] == "seqs":
            deg = list(c["deg"])
            sizes = [z for z, k in c["dim"] for _ in range(k)]
        tr = {"mode": c["mode"], "n": s["n"], "deg": deg, "sizes": sizes, "call": ci, "flag0": sa[ci]["flag0"],
              "maxsize": s["maxsize"] if s["maxsize"] else s["n"], "idmap": hdr["idmap"], "chain0": hdr["chain0"], "ev": ev}
        res.append((tr, st))
    return res


# ---------------------------------------------------------------------------
# TLC validation (stateful validator: own batch runner, same RJ / DONE protocol as Trace_HGX)
def _validate_batch(args):
    traces, idx, timeout = args
    wd = tlc.workdir("c16")
    try:
        path = os.path.join(wd, "batch.json")
        with open(path, "w") as f:
            json.dump({"traces": traces}, f)
        cfg = tlc.cfg_text({}, init="TInit", next_="TNext")
        res = tlc.run("Trace_C16", cfg, wd=wd, workers=1, env={"TRACE_FILE": path}, timeout=timeout)
        rj, done = [], None
        for s in tlc.printed_strings(res["out"]):
            if s.startswith("RJ "):
                t, l, failed = tlc.parse_value(s[3:])
                rj.append((idx[t - 1], l - 1, sorted(failed)))
            elif s.startswith("DONE "):
                done = [int(x) for x in s.split()[1:]]
        nev = sum(len(t["ev"]) for t in traces)
        if done is None or done[0] != nev:
            raise tlc.TLCError("Trace_C16 did not consume all %d events (DONE=%s)\n%s"
                               % (nev, done, tlc.error_excerpt(res["out"])))
        st = tlc.stats(res["out"]) or {"generated": 0, "distinct": 0}
        return {"rejects": rj, "events": nev, "states": st["distinct"]}
    finally:
        shutil.rmtree(wd, ignore_errors=True)


def validate(traces, procs=10, timeout=1500):
    out = {"rejects": [], "events": 0, "states": 0}
    if not traces:
        return out
    per = max(5, len(traces) // procs + 1)
    jobs = [(traces[i:i + per], list(range(i, min(len(traces), i + per))), timeout) for i in range(0, len(traces), per)]
    with cf.ThreadPoolExecutor(max_workers=procs) as ex:
        for r in ex.map(_validate_batch, jobs):
            out["rejects"] += r["rejects"]
            out["events"] += r["events"]
            out["states"] += r["states"]
    out["rejects"].sort()
    return out


def diagnose(s, tr, y):
    """why a sample whose logged list holds no two equal hyperedges is not exact: names for the signature (so that findings
    with different causes stay different findings) and a sentence for the report.  Not a verdict - TLC gave that."""
    if y is None:
        return [], ""
    lost = [i for i, x in enumerate(y["w"]) if x <= 0]
    if not lost:
        if len(y["list"]) < len(tr["sizes"]):
            return ["chain_short"], "; the logged list has %d hyperedges, %d were asked for" % (len(y["list"]), len(tr["sizes"]))
        return ["other"], ""
    causes, rates = set(), None
    try:
        from hypergraphx.communities.hy_mmsbm.model import HyMMSBM
        from hypergraphx.linalg.linalg import hye_list_to_binary_incidence
        with quiet():
            m = HyMMSBM(u=np.array(s["u"], dtype=float), w=np.array(s["w"], dtype=float), max_hye_size=s["n"])
            # (the whole list: the model's shape assertions do not hold for a single hyperedge)
            allr = m.poisson_params(hye_list_to_binary_incidence([tuple(h) for h in y["list"]], shape=(s["n"], len(y["list"]))))
            rates = [float(allr[i]) for i in lost]
    except Exception:
        pass
    for k, i in enumerate(lost):
        if i not in y.get("garbage", []):
            causes.add("truncated_poisson_returned_zero")
        elif rates is not None and rates[k] < 0:
            causes.add("negative_poisson_parameter")
        else:
            causes.add("non_finite_weight")
    return sorted(causes), ("; dropped without a coincidence: %s (code indices; raw weights %s; Poisson parameters of the model %s)"
                            % ([y["list"][i] for i in lost], ["<0" if i in y.get("garbage", []) else "0" for i in lost], rates))


def judge(res, specs, traces, owner, v):
    """first PROPERTY rejection of a call -> Result.reject; MODEL (m_*) rejections -> model_drift"""
    first, drift, nprop, nmodel = {}, {}, 0, 0
    for t, l, failed in v["rejects"]:
        prop = [c for c in failed if not c.startswith("m_")]
        model = [c for c in failed if c.startswith("m_")]
        if model:
            nmodel += 1
            drift.setdefault(tuple(model), (t, l))
        if prop:
            nprop += 1
            first.setdefault(t, (l, prop))
    for t, (l, prop) in first.items():
        si, ci = owner[t]
        s, tr = specs[si], traces[t]
        ev = tr["ev"][l]
        k = sum(1 for e in tr["ev"][:l + 1] if e["k"] == "sample")
        hist = ""
        sig = {"clauses": prop, "mode": tr["mode"]}
        if s["mode"] == "multi":
            hist = (", call #%d of %d on one sampler object (%s; it reported matching_sequences=%s before this call)"
                    % (ci + 1, len(s["calls"]), " -> ".join(c["mode"] for c in s["calls"]), tr["flag0"]))
            if ci > 0:
                sig["history"] = True
        what = ("sampler (%s, %d nodes, %s memberships, seed %d, burn-in %d, thinning %d%s): clause(s) %s fail on %s"
                % (tr["mode"], s["n"], "hard" if s.get("hard") else "dense", s["seed"], s["burn"], s["thin"], hist, ",".join(prop),
                   "sample #%d (flag reported with it: %s)" % (k, ev["flag"]) if ev["k"] == "sample"
                   else "the number of samples the two twins produced"))
        last_yield = next((e for e in reversed(tr["ev"][:l]) if e["k"] in ("yield", "sample")), None)
        last_yield = last_yield if last_yield and last_yield["k"] == "yield" else None
        if "exact_when_no_coincidence_at_yield" in prop:
            sig["cause"], more = diagnose(s, tr, last_yield)
            what += more
        res.reject(sig, what,
                   {"spec": s, "call": ci, "failing_event_index": l, "failing_event": {k_: v_ for k_, v_ in ev.items()},
                    "logged_yield_before_it": last_yield,
                    "conditioning": {"deg": tr["deg"], "sizes": tr["sizes"]}})
    for model, (t, l) in drift.items():
        si, ci = owner[t]
        s = specs[si]
        res.model_drift("step clause(s) %s of Sampler.tla fail on a hooked %s event (mode %s, call #%d, seed %d): the code takes a "
                        "step the model does not allow" % (",".join(model), traces[t]["ev"][l]["k"], traces[t]["mode"], ci + 1, s["seed"]))
    res.cov(rejected_events=len(v["rejects"]), rejected_property_events=nprop, rejected_model_events=nmodel,
            rejected_runs=len(first))


def _chunk(specs):
    """worker process: the sampler runs of one slice of the specs"""
    hk = hooks()
    return [make_trace(s, hk) for s in specs]


def _no_two_equal(lst):
    return len({tuple(e) for e in lst}) == len(lst)


def sample_runs(specs, res, pool=None):
    """pool: futures (submitted by start_pool) that run the samplers in forked worker processes"""
    hk = hooks()
    traces, owner = [], []
    cnt = {"runs": 0, "calls": 0, "multi_call_runs": 0, "later_calls": 0, "runs_raised_without_sample": 0, "runs_raised_later": 0,
           "samples_judged": 0, "hook_events": 0, "oversize_runs_not_sent": 0, "flag_yes": 0, "flag_no": 0,
           "exact_clause_applicable": 0, "samples_with_coincidence_or_lost": 0,
           "exact_at_yield_applicable": 0, "exact_at_yield_applicable_after_coincidence": 0,
           "hard_membership_runs": 0, "yields_with_zero_rate_hyperedge": 0, "zero_rate_hyperedges_weighted": 0,
           "later_calls_not_matching_after_matching": 0, "later_calls_matching": 0, "later_calls_from_initial_hypergraph": 0}
    raised_kinds, by_mode = {}, {}
    if pool is None:
        results = [make_trace(s, hk) for s in specs]
    else:
        results = [x for f in pool for x in f.result()]
    for si, s in enumerate(specs):
        cnt["runs"] += 1
        cnt["multi_call_runs"] += s["mode"] == "multi"
        cnt["hard_membership_runs"] += bool(s.get("hard"))
        if any(tr is None for tr, _ in results[si]):
            cnt["oversize_runs_not_sent"] += 1
            continue
        for ci, (tr, st) in enumerate(results[si]):
            cnt["calls"] += 1
            cnt["later_calls"] += ci > 0
            by_mode[tr["mode"]] = by_mode.get(tr["mode"], 0) + 1
            if st["raised"]:
                key = "%s:%s" % (tr["mode"], st["raised"])
                raised_kinds[key] = raised_kinds.get(key, 0) + 1
                cnt["runs_raised_without_sample" if st["samples"] == 0 else "runs_raised_later"] += 1
            cnt["samples_judged"] += st["samples"]
            cnt["hook_events"] += st["hook_events"]
            cnt["yields_with_zero_rate_hyperedge"] += st["zero_rate_yields"]
            cnt["zero_rate_hyperedges_weighted"] += st["zero_rate_hyperedges"]
            lasty, coincided, flags = None, False, []
            for e in tr["ev"]:
                if e["k"] == "yield":
                    lasty = e
                elif e["k"] == "sample":
                    flags.append(e["flag"])
                    if tr["mode"] == "seqs":
                        cnt["flag_yes" if e["flag"] == "yes" else "flag_no"] += 1
                    if tr["mode"] == "init" or (tr["mode"] == "seqs" and e["flag"] == "yes"):
                        if len(e["out"]) == len(tr["sizes"]):
                            cnt["exact_clause_applicable"] += 1
                        else:
                            cnt["samples_with_coincidence_or_lost"] += 1
                        if lasty is not None:
                            if _no_two_equal(lasty["list"]):
                                cnt["exact_at_yield_applicable"] += 1
                                cnt["exact_at_yield_applicable_after_coincidence"] += coincided
                            else:
                                coincided = True
                    lasty = None
            if ci > 0 and flags:
                if tr["mode"] == "init":
                    cnt["later_calls_from_initial_hypergraph"] += 1
                elif flags[-1] == "yes":
                    cnt["later_calls_matching"] += 1
                elif tr["flag0"] == "yes":
                    cnt["later_calls_not_matching_after_matching"] += 1
            traces.append(tr)
            owner.append((si, ci))
    res.cov(**{k: int(v) for k, v in cnt.items()})
    res.coverage["calls_by_mode"] = by_mode
    res.coverage["raised_by_mode_and_exception"] = raised_kinds
    res.coverage["hooks_present"] = hk is not None
    return traces, owner


def pinned_specs(tier):
    """inputs on which the exactness clause once failed for the code as it was (a hyperedge dropped although no two
    sampled hyperedges coincided); both started from an initial hypergraph, with a chain that never moves:
    1. cancellation in HyMMSBM.poisson_params gives -5.55e-17 for a hyperedge of rate 0 -> log -> NaN -> weight garbage
    2. sample_truncated_poisson returns 0 for lambda = 1e-10 when the uniform draw is below ~5.5e-7 (seed 11970, 8th draw)"""
    eye4 = [[1.0 if a == b else 0.0 for b in range(4)] for a in range(4)]
    base = {"hard": True, "burn": 0, "thin": 0, "samples": 3 if tier == "quick" else 4, "maxsize": None, "dyadic": True,
            "rescale": False, "mode": "init", "family": "zero", "pinned": True}
    e1 = [[1, 2, 3], [1, 2], [1, 3], [2, 3]]
    s1 = dict(base, u=[eye4[1], eye4[2], eye4[0]], w=[[0.5, 0, 0, 0], [0, 0.2, 0, 0], [0, 0, 0.2, 0], [0, 0, 0, 0.5]], seed=0, n=3,
              labels=[0, 1, 2], edges=e1, listing=e1)
    e2 = [[1, 2], [1, 3], [1, 4], [2, 3], [2, 4], [3, 4], [1, 2, 3], [1, 2, 4], [1, 3, 4], [2, 3, 4], [1, 2, 3, 4]]
    s2 = dict(base, u=eye4, w=eye4, seed=11970, n=4, labels=[0, 1, 2, 3], edges=e2, listing=e2)
    return [s1, s2]


def make_specs(tier, seed):
    rng = random.Random(seed * 1000003 + 16)
    k = {"quick": (420, 480, 200, 60, 260), "thorough": (8000, 9000, 4000, 1000, 5000)}[tier]
    specs = [spec_init(rng, tier) for _ in range(k[0])]
    specs += [spec_seqs(rng, tier) for _ in range(k[1])]
    specs += [spec_model(rng, tier) for _ in range(k[2])]
    specs += [spec_model(rng, tier, partial=True) for _ in range(k[3])]
    specs += [spec_multi(rng, tier) for _ in range(k[4])]
    return specs + pinned_specs(tier)


def finish_cov(res, traces, v, specs):
    res.cov(traces_validated_against_impl=len(traces), events=v["events"], validator_states=v["states"])
    for t in traces:
        if t["mode"] == "init" and any(e["k"] == "sample" for e in t["ev"]):
            smp = next(e for e in t["ev"] if e["k"] == "sample")
            res.sample({"mode": "init", "conditioning": {"deg": t["deg"], "sizes": t["sizes"]}, "idmap": t["idmap"],
                        "first_sample": smp["out"], "events": [e["k"] for e in t["ev"]][:40]})
            break
    for t in traces:
        if t["mode"] == "seqs" and any(e["k"] == "sample" and e["flag"] == "no" for e in t["ev"]):
            smp = next(e for e in t["ev"] if e["k"] == "sample")
            res.sample({"mode": "seqs (reported as not matching)", "conditioning": {"deg": t["deg"], "sizes": t["sizes"]},
                        "first_sample": smp["out"]})
            break
    for t in traces:
        if t["mode"] == "seqs" and t["call"] > 0 and t["flag0"] == "yes" and any(e["k"] == "sample" and e["flag"] == "no" for e in t["ev"]):
            smp = next(e for e in t["ev"] if e["k"] == "sample")
            res.sample({"mode": "seqs, call #%d on a sampler that reported matching sequences before; now not matching" % (t["call"] + 1),
                        "conditioning": {"deg": t["deg"], "sizes": t["sizes"]}, "first_sample": smp["out"]})
            break
    res.assume(
        "initial hypergraphs have hyperedges of size >= 2 only (the model's kappa is undefined for size 1) and every node listed; "
        "degree/size sequences are non-negative integers with equal totals and sizes >= 2",
        "without hooks the exactness clause is applied when num_edges(sample) = number of hyperedges asked for (the only "
        "black-box reading of 'no two sampled hyperedges coincided')",
        "with hooks 'no two sampled hyperedges coincided' is decided on the list of hyperedges logged at the yield AND the chain "
        "tracked from the initial configuration through the logged moves: when neither holds two equal hyperedges the sample "
        "must be exact - a hyperedge dropped for a 'zero' weight, or lost in an earlier sample, is not excused by the statement",
        "numpy integer weights (numpy.int64) count as integers; the type test itself is done in Python, TLC decides weight >= 1",
        "runs that raise before the first sample (too few hyperedges for a move, no zero-degree node left to pad with, "
        "self.model AttributeError of the degree-only branch) yield no sample: counted, not judged (DESIGN.md section 5)",
        "SeedFunctional compares two samplers built in the same process with identical arguments that serve the same calls; "
        "a run and its twin must also stop (raise) after the same number of samples; before each of the two is built Python's global "
        "random and numpy's global generator are seeded DIFFERENTLY (both derived from the spec's seed, see global_seeds)",
        "half of the initial hypergraphs are weighted (weights 1, 2, 3, 5, 2.5, 0.5): the conditioned degree and size sequences are those "
        "the library reports for the object (degree_sequence, sizes of get_edges: one count per hyperedge whatever its weight)",
        "several sample() calls on one sampler object are made one after the other; only the samples of the latest call are "
        "drawn and each is judged against the conditioning of that call and the matching_sequences flag the object reports "
        "when the hypergraph is handed out (generators of earlier calls are not resumed)",
        "mode 'partial' (only one of deg_seq / dim_seq given) is outside the conditioning clauses: well-formedness and seed only",
        "weights >= 2^28 are not sent to TLC (32-bit integers); such runs are counted under oversize_runs_not_sent")


def run(tier, seed):
    res = Result("C16", tier, seed, "model_checking")
    t0 = time.time()
    specs = make_specs(tier, seed)
    import multiprocessing as mp
    nproc = 4 if tier == "quick" else 8
    # worker processes are forked before the TLC thread starts; each runs slices of the specs in order
    with cf.ProcessPoolExecutor(max_workers=nproc, mp_context=mp.get_context("fork")) as px, \
            cf.ThreadPoolExecutor(max_workers=1) as ex:
        pool = [px.submit(_chunk, specs[i:i + 40]) for i in range(0, len(specs), 40)]
        fut = ex.submit(explore, tier)              # TLC explores the design while the real sampler runs
        traces, owner = sample_runs(specs, res, pool)
        t1 = time.time()
        v = validate(traces, procs=4 if tier == "quick" else 10)
        t2 = time.time()
        runs = fut.result()
    res.cov(states=sum(r["states"] for r in runs), transitions=sum(r["transitions"] for r in runs))
    res.coverage["explorations"] = runs
    res.coverage["invariants"] = INVARIANTS + ["step assertions MovePreserves, WeightConserved, ZeroDroppedOnly",
                                               "ASSUME Splits = Reshuffle relation; Choices decrement only chosen nodes"]
    print("[C16] sampling %.1fs validate %.1fs explore(total, concurrent) %.1fs (%d calls, %d events)"
          % (t1 - t0, t2 - t1, sum(r["wall_s"] for r in runs), len(traces), v["events"]), file=sys.stderr)
    judge(res, specs, traces, owner, v)
    finish_cov(res, traces, v, specs)
    return res.finish()


def replay(path):
    with open(path) as f:
        rp = json.load(f)
    res = Result("C16", rp.get("tier", "quick"), rp.get("seed", 1), "model_checking")
    specs = [rp["payload"]["spec"]]
    traces, owner = sample_runs(specs, res)
    v = validate(traces, procs=1)
    judge(res, specs, traces, owner, v)
    finish_cov(res, traces, v, specs)
    return res.finish()
