"""C11 - Motif census equals exhaustive enumeration and is relabelling-invariant; directed census canonical.

1. explore   TLC, exhaustive, MC_Motifs: 6 / 171 classes, class partition, order facts (ASSUME) and
             CensusRelabelInvariant, CensusIgnoresLarge, ThreePassCover ... over ALL hypergraphs on 4 nodes
             (sizes 1..4) and the canonical-form invariants over ALL directed hypergraphs on 3 nodes
2. execute   real Hypergraph / DirectedHypergraph objects (integer label maps, insertion histories, extra
             larger hyperedges = the "variants" of one abstract hypergraph; families: all / sampled small
             universes, random, nested 3-in-4 hyperedges, look-alike directed patterns side by side), compute_motifs /
             compute_directed_motifs(..., runs_config_model=0)['observed'] logged as returned
3. validate  TLC evaluates Trace_C11 (Motifs.tla) on every case: the specification decides
"""
import concurrent.futures as cf
import itertools
import json
import multiprocessing
import os
import random
import threading

from checks.containers import explore
from harness import cases as K
from harness import tlc
from harness.binding import Binding, quiet
from harness.verdict import Result

# integer label families (the statement restricts to integer labels), 9 labels each
FAMILIES = {
    "ident": [1, 2, 3, 4, 5, 6, 7, 8, 9],
    "zero": [0, 1, 2, 3, 4, 5, 6, 7, 8],
    "sparse": [10, 3, 7, 5, 12, 1, 8, 20, 15],
    "neg": [-3, 100, 0, 7, -1, 42, 5, -8, 13],
    "big": [10 ** 9 + 7, 5, 2 ** 40, 77, 123456, 31, 9, 64, 1000],
}
FAMS = list(FAMILIES)
MAXN = 9

# over ALL hypergraphs on 4 nodes; quick leaves out the dearer invariants.  Invariance under the generators of
# the permutation group over a universe closed under relabelling is invariance under every permutation; all 24
# (6) permutations are nevertheless tried directly on the 3-node universe in thorough.
HG_INV = {"quick": ["TypeOK", "CensusRelabelInvariant", "CensusIgnoresLarge", "ThreePassCover"],
          "thorough": ["TypeOK", "CensusRelabelInvariant", "CensusIgnoresLarge", "CensusIgnoresSingletons", "CensusTotal",
                       "ThreePassCover"]}
HG_INV_3 = ["TypeOK", "CensusRelabelInvariantAllPerms", "CensusRelabelInvariant", "CensusTotal", "ThreePassCover"]
DIR_INV = ["TypeOK", "DirCanonUnique", "DirCanonRelabelInvariant", "DirCanonIsDefinition", "DirCensusIgnoresLarge"]


# ---------------------------------------------------------------------------
# execution of one variant (runs in a worker process)
def _api_edge(b, kind, e):
    if kind == "dir":
        return (b._tuple(e[0]), b._tuple(e[1]))
    return b._tuple(e)


def execute_variant(args):
    """build the real object along the variant's calls, log its abstract state and the census it returns"""
    kind, k, v = args
    rng = random.Random(v["seed"])
    b = Binding(kind, v["labels"], rng)
    out = {"st": None, "obs": None, "err": None, "malformed": None}
    try:
        obj = b.new(v["weighted"])
        with quiet():
            for c in v["calls"]:
                if c[0] == "add":
                    if v["weighted"]:
                        obj.add_edge(_api_edge(b, kind, c[1]), weight=c[2])
                    else:
                        obj.add_edge(_api_edge(b, kind, c[1]))
                elif c[0] == "add_batch":
                    es = [_api_edge(b, kind, e) for e in c[1]]
                    if v["weighted"]:
                        obj.add_edges(es, weights=list(c[2]))
                    else:
                        obj.add_edges(es)
                elif c[0] == "remove":
                    obj.remove_edge(_api_edge(b, kind, c[1]))
                elif c[0] == "add_node":
                    obj.add_node(b.lab(c[1]))
                elif c[0] == "set_weight":
                    obj.set_weight(_api_edge(b, kind, c[1]), c[2])
                elif c[0] == "measure":       # history of the object: the census is taken now (result ignored) and again at the end
                    try:
                        _census(kind, obj, k)
                    except Exception:
                        pass
                else:
                    raise ValueError(c[0])
    except Exception as ex:                       # the container failed, not the census: no verdict for C11
        out["err"] = "build:%s:%s" % (type(ex).__name__, ex)
        return out
    st = b.state(obj)
    out["st"] = st
    if st["err"]:
        out["err"] = "state:" + st["err"]
        return out
    try:
        with quiet():
            obs = _census(kind, obj, k)
    except Exception as ex:
        out["err"] = "census:%s:%s" % (type(ex).__name__, ex)
        return out
    try:
        if kind == "hg":
            out["obs"] = [[[[_int(x) for x in e] for e in m], _int(cnt)] for m, cnt in obs]
        else:
            out["obs"] = [[[[[_int(x) for x in e[0]], [_int(x) for x in e[1]]] for e in m], _int(cnt)] for m, cnt in obs]
            if any(len(e) != 2 for m, _ in obs for e in m):
                raise ValueError("a directed hyperedge is not a (sources, targets) pair")
    except Exception as ex:
        out["malformed"] = "%s: %r" % (ex, obs if len(repr(obs)) < 400 else repr(obs)[:400])
    return out


def _census(kind, obj, k):
    if kind == "hg":
        from hypergraphx.motifs.motifs import compute_motifs
        return compute_motifs(obj, order=k, runs_config_model=0)["observed"]
    from hypergraphx.motifs.directed_motifs import compute_directed_motifs
    return compute_directed_motifs(obj, order=k, runs_config_model=0)["observed"]


def _int(x):
    if isinstance(x, bool) or int(x) != x:
        raise ValueError("not an integer: %r" % (x,))
    return int(x)


# ---------------------------------------------------------------------------
# inputs: an abstract hypergraph (spec node ids 1..n) + the variants through which it is built
def node_set(kind, e):
    return set(e[0]) | set(e[1]) if kind == "dir" else set(e)


def random_edge(kind, rng, nodes, z):
    ns = rng.sample(list(nodes), z)
    if kind == "dir":
        a = rng.randint(1, z - 1)
        return (tuple(sorted(ns[:a])), tuple(sorted(ns[a:])))
    return tuple(sorted(ns))


def history(kind, edges, rng, n, weighted):
    """calls that end in exactly `edges`: shuffled, partly batched, with hyperedges added and removed again"""
    order = list(edges)
    rng.shuffle(order)
    calls = []
    i = 0
    while i < len(order):
        if rng.random() < 0.3 and len(order) - i >= 2:
            j = min(len(order), i + rng.randint(2, 4))
            calls.append(["add_batch", order[i:j], [rng.randint(1, 3) for _ in range(i, j)]])
            i = j
        else:
            calls.append(["add", order[i], rng.randint(1, 3)])
            i += 1
    present = set(edges)
    for _ in range(rng.randint(0, 2)):
        lo = 2 if kind == "dir" else 1
        t = random_edge(kind, rng, range(1, n + 1), rng.randint(lo, min(4, n)))
        if t in present:
            continue
        present.add(t)
        a = rng.randint(0, len(calls))
        calls.insert(a, ["add", t, 1])
        calls.insert(rng.randint(a + 1, len(calls)), ["remove", t])
    return calls


def plain(edges, rng, shuffle=True):
    order = list(edges)
    if shuffle:
        rng.shuffle(order)
    return [["add", e, rng.randint(1, 3)] for e in order]


def make_case(kind, k, n, edges, rng, fam, tags, origin):
    """tags: which variants besides the base ('labels', 'history', 'reversed', 'large', 'isolated')"""
    edges = list(dict.fromkeys(edges))
    base_labels = FAMILIES[fam][:MAXN]
    weighted = rng.random() < 0.15
    vs = [{"tag": "base", "labels": base_labels, "weighted": weighted, "calls": plain(edges, rng, shuffle=False),
           "seed": rng.randrange(1 << 30)}]
    for t in tags:
        if t == "labels":        # the same hypergraph under a permutation of its integer labels
            used = sorted(set().union(*[node_set(kind, e) for e in edges])) if edges else []
            perm = list(base_labels)
            idx = [u - 1 for u in used]
            vals = [perm[i] for i in idx]
            rng.shuffle(vals)
            for i, x in zip(idx, vals):
                perm[i] = x
            vs.append({"tag": t, "labels": perm, "weighted": weighted, "calls": plain(edges, rng), "seed": rng.randrange(1 << 30)})
        elif t == "history":     # the same final hypergraph through another insertion history
            vs.append({"tag": t, "labels": base_labels, "weighted": weighted, "calls": history(kind, edges, rng, n, weighted),
                       "seed": rng.randrange(1 << 30)})
        elif t == "reversed":    # the same hyperedges inserted one by one in the opposite order
            vs.append({"tag": t, "labels": base_labels, "weighted": weighted,
                       "calls": [["add", e, rng.randint(1, 3)] for e in reversed(edges)], "seed": rng.randrange(1 << 30)})
        elif t == "large":       # extra hyperedges with more than k nodes (and possibly new nodes)
            extra = []
            top = min(MAXN, n + 2)
            for _ in range(rng.randint(1, 3)):
                if top <= k:
                    break
                z = rng.randint(k + 1, min(top, 6))
                e = random_edge(kind, rng, range(1, top + 1), z)
                if e not in edges and e not in extra:
                    extra.append(e)
            both = edges + extra
            fam2 = rng.choice(FAMS)
            vs.append({"tag": t, "labels": FAMILIES[fam2][:MAXN], "weighted": weighted, "calls": plain(both, rng),
                       "seed": rng.randrange(1 << 30), "extra": extra})
        elif t == "isolated":    # extra nodes in no hyperedge, other label family
            fam2 = rng.choice(FAMS)
            calls = plain(edges, rng)
            for x in rng.sample(range(1, MAXN + 1), 2):
                calls.insert(rng.randint(0, len(calls)), ["add_node", x])
            vs.append({"tag": t, "labels": FAMILIES[fam2][:MAXN], "weighted": False, "calls": calls, "seed": rng.randrange(1 << 30)})
    return {"kind": kind, "k": k, "n": n, "edges": edges, "variants": vs, "origin": origin}


# ---- histories of ONE object -----------------------------------------------------------------
# The calls of a variant are rewritten so that they END in the same hypergraph as before, but pass through another one on
# which the census is taken (same order, same arguments, result ignored): k of the final hyperedges are replaced by k others
# over the same nodes while the object is built, the census is called, then the k others are removed and the k true ones added
# in place (weighted: a weight is changed too).  The numbers of nodes and of hyperedges are the same before and after the
# edit and nothing is computed in between; the census that is judged is the second one, on the object as it is at the end.
HISTORY_SHARE = 0.2


def _tup(kind, e):
    return (tuple(e[0]), tuple(e[1])) if kind == "dir" else tuple(e)


def add_history(kind, k, v, hr):
    """rewrite v['calls'] in place; returns True when the variant got a history"""
    calls = v["calls"]
    present, seen = [], set()
    for c in calls:                                       # the final content and every hyperedge ever mentioned
        es = [c[1]] if c[0] in ("add", "remove") else (c[1] if c[0] == "add_batch" else [])
        for e in es:
            e = _tup(kind, e)
            seen.add(e)
            if c[0] == "remove":
                present.remove(e)
            elif e not in present:
                present.append(e)
    small = [e for e in present if 2 <= len(node_set(kind, e)) <= k]
    if not small:
        return False
    used = sorted(set().union(*[node_set(kind, e) for e in present]))
    out = hr.sample(small, hr.randint(1, min(2, len(small))))
    subs = {}
    for e in out:
        for _ in range(20):
            z = hr.randint(2, min(k, len(used)))
            o = random_edge(kind, hr, used, z)
            if o not in seen and o not in subs.values():
                subs[e] = o
                break
        else:
            return False
    first = []
    for c in calls:
        if c[0] == "add" and _tup(kind, c[1]) in subs:
            first.append(["add", subs[_tup(kind, c[1])], c[2]])
        elif c[0] == "add_batch":
            first.append(["add_batch", [subs.get(_tup(kind, e), e) for e in c[1]], c[2]])
        else:
            first.append(c)
    w_of = {}
    for c in calls:
        if c[0] == "add":
            w_of[_tup(kind, c[1])] = c[2]
        elif c[0] == "add_batch":
            w_of.update({_tup(kind, e): w for e, w in zip(c[1], c[2])})
    before = [subs.get(e, e) for e in present]
    covered = set().union(*[node_set(kind, e) for e in before])
    first += [["add_node", x] for x in used if x not in covered]     # the edit must not change the number of nodes
    edit = [["remove", subs[e]] for e in out] + [["add", e, w_of[e]] for e in out]
    hr.shuffle(edit)
    edit.sort(key=lambda c: c[0] != "remove")             # removals first: a substitute is never equal to a true hyperedge anyway
    kept = [e for e in present if e not in out]
    if v["weighted"] and kept:
        edit.append(["set_weight", hr.choice(kept), hr.choice([2, 3, 4])])
    v["calls"] = first + [["measure"]] + edit
    v["history"] = {"held_when_first_measured": before, "then_removed": [subs[e] for e in out], "then_added": list(out)}
    return True


def add_histories(specs, hr):
    n = 0
    for s in specs:
        for v in s["variants"]:
            if hr.random() < HISTORY_SHARE and add_history(s["kind"], s["k"], v, hr):
                n += 1
    return n


EU4 = [c for z in (2, 3, 4) for c in itertools.combinations(range(1, 5), z)]          # 11 hyperedges of size >= 2


def hg_inputs(tier, rng):
    out = []
    fam = itertools.cycle(FAMS)
    others = ["labels", "history", "large", "isolated"]
    # (i) every hypergraph on 4 nodes with hyperedge sizes 2..4 (2048), singletons (size 1) added at random
    masks = list(range(1 << len(EU4)))
    if tier == "quick":
        masks = rng.sample(masks, 90)
    for m in masks:
        edges = [EU4[j] for j in range(len(EU4)) if m >> j & 1]
        edges += [(x,) for x in range(1, 5) if rng.random() < 0.25]
        out.append(make_case("hg", 3, 4, edges, rng, next(fam), [rng.choice(others)], "all-4-node"))
        out.append(make_case("hg", 4, 4, edges, rng, next(fam), [rng.choice(others)] if m % 4 == 0 else [], "all-4-node"))
    # (ii) random hypergraphs on 5..7 nodes, sizes 1..6 (sizes above the order must be ignored)
    for i in range(36 if tier == "quick" else 300):
        n = rng.choice([5, 6, 7])
        edges = []
        if i % 3 == 0:          # dense 2-node skeleton + a few larger hyperedges: the walk on 2-node hyperedges dominates
            p = rng.choice([0.3, 0.5, 0.7])
            edges = [c for c in itertools.combinations(range(1, n + 1), 2) if rng.random() < p]
            for _ in range(rng.randint(0, 4)):
                edges.append(random_edge("hg", rng, range(1, n + 1), rng.choice([3, 3, 4])))
        else:
            for _ in range(rng.randint(3, 14)):
                z = min(n, rng.choice([1, 2, 2, 2, 2, 2, 3, 3, 3, 3, 4, 4, 4, 5, 6]))
                edges.append(random_edge("hg", rng, range(1, n + 1), z))
        tags = ["labels", "history"] + ([rng.choice(["large", "isolated"])] if tier == "thorough" or i % 2 == 0 else [])
        f = next(fam)
        for k in (3, 4):
            out.append(make_case("hg", k, n, edges, rng, f, tags, "random"))
    return out


def nested_family(rng, n):
    """a few 'top' hyperedges of size 4 (and 3) with most of their sub-hyperedges, little else: the node sets that only the
    pass seeded at the (k-1)-hyperedges can reach, and that it has to reach through hyperedges nested in larger ones"""
    nodes = range(1, n + 1)
    c4 = list(itertools.combinations(nodes, 4))
    c3 = list(itertools.combinations(nodes, 3))
    c2 = list(itertools.combinations(nodes, 2))
    tops = rng.sample(c4, rng.randint(2, min(len(c4), 4)))
    in3 = {t for F in tops for t in itertools.combinations(F, 3)}
    tops3 = rng.sample(c3, rng.randint(0, 2))
    in2 = {t for F in tops3 for t in itertools.combinations(F, 2)}
    p_in, p_out = rng.choice([0.4, 0.6, 0.8, 1.0]), rng.choice([0.0, 0.1, 0.2])
    p2_in, p2 = rng.choice([0.0, 0.5, 0.9]), rng.choice([0.0, 0.0, 0.1, 0.2])
    edges = list(tops) + [t for t in tops3 if t not in in3 or rng.random() < 0.5]
    edges += [t for t in c3 if rng.random() < (p_in if t in in3 else p_out)]
    edges += [t for t in c2 if rng.random() < (max(p2, p2_in) if t in in2 else p2)]
    rng.shuffle(edges)
    return list(dict.fromkeys(edges))


def classes_34_on_5():
    """one hypergraph per isomorphism class among ALL hypergraphs on 5 nodes whose hyperedges have 3 or 4 nodes (2^15 of them)"""
    U = [c for z in (3, 4) for c in itertools.combinations(range(1, 6), z)]
    pos = {e: j for j, e in enumerate(U)}
    tables = []
    for p in itertools.permutations(range(1, 6)):
        tables.append([pos[tuple(sorted(p[x - 1] for x in e))] for e in U])
    seen, reps = bytearray(1 << len(U)), []
    for m in range(1 << len(U)):
        if seen[m]:
            continue
        reps.append(m)
        bits = [j for j in range(len(U)) if m >> j & 1]
        for t in tables:
            seen[sum(1 << t[j] for j in bits)] = 1
    return [[U[j] for j in range(len(U)) if m >> j & 1] for m in reps]


def nested_inputs(tier, rng):
    out = []
    fam = itertools.cycle(FAMS)
    for i in range(44 if tier == "quick" else 700):
        n = rng.choice([5, 5, 6])
        edges = nested_family(rng, n)
        tags = [rng.choice(["labels", "history", "large"])]
        out.append(make_case("hg", 4, n, edges, rng, next(fam), tags, "nested"))
        if i % 4 == 0:
            out.append(make_case("hg", 3, n, edges, rng, next(fam), tags, "nested"))
    if tier == "thorough":
        # every hypergraph on 5 nodes with hyperedges of 3 and 4 nodes, up to isomorphism, under a random label permutation
        # (and once more with a few 2-node hyperedges)
        pairs = list(itertools.combinations(range(1, 6), 2))
        for edges in classes_34_on_5():
            out.append(make_case("hg", 4, 5, edges, rng, next(fam), ["labels"], "all-5-node-sizes-3-4"))
            extra = [c for c in pairs if rng.random() < 0.15]
            if extra:
                out.append(make_case("hg", 4, 5, edges + extra, rng, next(fam), [], "all-5-node-sizes-3-4+pairs"))
    return out


# ---- directed: non-isomorphic patterns that simple invariants do not tell apart
def dir_profile(P, k):
    """per node the sorted (sources, targets, is-source) of its hyperedges, sorted over the nodes"""
    return tuple(sorted(tuple(sorted((len(s), len(t), i in s) for s, t in P if i in s or i in t)) for i in range(1, k + 1)))


def dir_pair_profile(P, k):
    """per node pair the sorted (sources, targets, how many of the two are sources) of the hyperedges holding both"""
    return tuple(sorted(tuple(sorted((len(s), len(t), (i in s) + (j in s)) for s, t in P
                                     if (i in s or i in t) and (j in s or j in t)))
                        for i, j in itertools.combinations(range(1, k + 1), 2)))


def dir_coarse(P, k):
    """shapes of the hyperedges and the (out, in) degrees of the nodes"""
    return (tuple(sorted((len(s), len(t)) for s, t in P)),
            tuple(sorted((sum(i in s for s, t in P), sum(i in t for s, t in P)) for i in range(1, k + 1))))


def dir_twins(k, tier):
    """families of patterns on 1..k, pairwise NON-isomorphic (they differ in dir_pair_profile, an isomorphism invariant; order 3:
    in their orbit) but equal in dir_profile ('fine') or only in dir_coarse ('coarse'); every pattern covers 1..k and has a hyperedge on k or k-1
    nodes, so the enumeration the anchors describe looks at it.  Deterministic (does not depend on the run's seed)."""
    E = all_dir_edges(k)
    rng = random.Random(1100 + k)

    def usable(P):
        return (any(len(s) + len(t) >= k - 1 for s, t in P)
                and len(set().union(*[set(s) | set(t) for s, t in P])) == k)
    if k == 3:
        pats = [P for m in (3, 4, 5, 6) for P in itertools.combinations(E, m)]
    else:
        pats = list(itertools.combinations(E, 3))
        for m, cnt in ((4, 5000), (5, 3000)) if tier == "quick" else ((4, 40000), (5, 20000), (6, 10000)):
            pats += [tuple(sorted(rng.sample(E, m))) for _ in range(cnt)]
    def orbit_min(P):
        return min(tuple(sorted(place(P, p))) for p in itertools.permutations(range(1, k + 1)))
    finer = orbit_min if k == 3 else lambda P: dir_pair_profile(P, k)
    fine, coarse = {}, {}
    for P in pats:
        if usable(P):
            fine.setdefault(dir_profile(P, k), []).append(P)
    out = {"fine": [], "coarse": []}
    for key, Ps in fine.items():
        sub = {}
        for P in Ps:
            sub.setdefault(finer(P), P)
        if len(sub) > 1:
            out["fine"].append(list(sub.values()))
        P = Ps[0]
        coarse.setdefault(dir_coarse(P, k), {}).setdefault(finer(P), P)
    out["coarse"] = [list(g.values()) for g in coarse.values() if len(g) > 1]
    return out


def place(P, nodes):
    return [(tuple(sorted(nodes[x - 1] for x in s)), tuple(sorted(nodes[x - 1] for x in t))) for s, t in P]


def dir_twin_inputs(tier, rng):
    """ONE hypergraph holding two (order 3: up to three) of such look-alike patterns on disjoint node sets, built in both orders"""
    out = []
    fam = itertools.cycle(FAMS)
    for k in (4, 3):
        tw = dir_twins(k, tier)
        picks = []
        quotas = {"quick": {"fine": (26, 6), "coarse": (10, 4)}, "thorough": {"fine": (500, 20), "coarse": (250, 60)}}[tier]
        for level in ("fine", "coarse"):
            fams = list(tw[level])
            rng.shuffle(fams)
            picks += [(level, f) for f in fams[:quotas[level][0 if k == 4 else 1]]]
        for level, f in picks:
            f = list(f)
            rng.shuffle(f)
            groups = MAXN // k
            combos = [f[:groups]] if tier == "quick" or len(f) <= groups else [list(c) for c in itertools.combinations(f, 2)][:3]
            for chosen in combos:
                nodes = list(range(1, k * len(chosen) + 1))
                rng.shuffle(nodes)
                edges = []
                for j, P in enumerate(chosen):
                    block = place(P, nodes[k * j:k * j + k])
                    rng.shuffle(block)
                    edges += block
                out.append(make_case("dir", k, k * len(chosen), edges, rng, next(fam),
                                     ["reversed", rng.choice(["labels", "history"])], "look-alike-" + level))
    return out


def all_dir_edges(n):
    nodes = range(1, n + 1)
    ks = []
    for a in range(1, n):
        for S in itertools.combinations(nodes, a):
            rest = [x for x in nodes if x not in S]
            for bb in range(1, len(rest) + 1):
                for T in itertools.combinations(rest, bb):
                    ks.append((S, T))
    return ks


def dir_inputs(tier, rng):
    out = []
    fam = itertools.cycle(FAMS)
    others = ["labels", "history", "large", "isolated"]
    # (i) every directed hypergraph on 3 nodes (2^12)
    k3 = all_dir_edges(3)
    masks = list(range(1 << len(k3)))
    if tier == "quick":
        masks = rng.sample(masks, 120)
    for m in masks:
        edges = [k3[j] for j in range(len(k3)) if m >> j & 1]
        out.append(make_case("dir", 3, 3, edges, rng, next(fam), [rng.choice(others)], "all-3-node"))
    # (ii) random directed hypergraphs on 4..7 nodes, 2..6 nodes per hyperedge, disjoint sources / targets
    for i in range(60 if tier == "quick" else 500):
        n = rng.choice([4, 5, 6, 7])
        edges = []
        for _ in range(rng.randint(2, 11)):
            z = min(n, rng.choice([2, 2, 2, 2, 3, 3, 3, 3, 3, 4, 4, 4, 5, 6]))
            e = random_edge("dir", rng, range(1, n + 1), z)
            edges.append(e)
            r = rng.random()
            ns = sorted(node_set("dir", e))
            if r < 0.2:                       # reversed hyperedge
                edges.append((e[1], e[0]))
            elif r < 0.45 and z >= 3:         # another hyperedge on the same node set (the 'visited' test matters)
                rng.shuffle(ns)
                a = rng.randint(1, z - 1)
                edges.append((tuple(sorted(ns[:a])), tuple(sorted(ns[a:]))))
            elif r < 0.6 and z >= 3:          # a 2-node hyperedge inside
                a, b_ = rng.sample(ns, 2)
                edges.append(((a,), (b_,)))
        tags = ["labels", "history"] + ([rng.choice(["large", "isolated"])] if tier == "thorough" or i % 2 == 0 else ["large"])
        f = next(fam)
        for k in (3, 4):
            out.append(make_case("dir", k, n, edges, rng, f, tags, "random"))
    return out


# ---------------------------------------------------------------------------
def run_all(specs, procs=14):
    """execute every variant of every case in worker processes; returns per case the list of variant logs"""
    jobs = [(s["kind"], s["k"], v) for s in specs for v in s["variants"]]
    ctx = multiprocessing.get_context("fork")
    with cf.ProcessPoolExecutor(max_workers=procs, mp_context=ctx) as ex:
        logs = list(ex.map(execute_variant, jobs, chunksize=8))
    out, i = [], 0
    for s in specs:
        out.append(logs[i:i + len(s["variants"])])
        i += len(s["variants"])
    return out


def describe(spec, i=None):
    d = {"kind": spec["kind"], "order": spec["k"], "n": spec["n"], "hyperedges": spec["edges"], "origin": spec["origin"]}
    if i:
        v = spec["variants"][i - 1]
        d["variant"] = {"tag": v["tag"], "labels": v["labels"], "extra": v.get("extra", []), "weighted": v["weighted"]}
        if v.get("history"):
            d["variant"]["history_of_the_object"] = dict(v["history"], census_taken_before_the_in_place_edit_with_the_same_arguments=True)
    return d


def judge(res, specs, logs, verdicts):
    """verdicts: {kind: (index list into specs, run_cases result)}"""
    info = {"info_dir_anchor_enumeration": 0}
    # cases that never reached TLC
    for s, lg in zip(specs, logs):
        for i, l in enumerate(lg, 1):
            if l["err"] and l["err"].startswith("census:"):
                res.reject({"kind": s["kind"], "order": s["k"], "clauses": ["census_call_raised"]},
                           "%s census of order %d raised %s on %s" % (s["kind"], s["k"], l["err"][7:], describe(s, i)),
                           {"spec": s, "variant": i, "error": l["err"]})
            elif l["err"]:              # the container failed while the input was built: no census, no verdict here
                info["variants_skipped_container_error"] = info.get("variants_skipped_container_error", 0) + 1
                info.setdefault("container_errors", []).append(l["err"][:120])
            elif l["malformed"]:
                res.reject({"kind": s["kind"], "order": s["k"], "clauses": ["observed_is_list_of_pattern_count_pairs"]},
                           "'observed' is not a list of (pattern, integer count): %s on %s" % (l["malformed"], describe(s, i)),
                           {"spec": s, "variant": i})
    for kind, (idx, v) in verdicts.items():
        for ci, failed in v["rejects"]:
            s, lg = specs[idx[ci]], logs[idx[ci]]
            byv = {}
            for f in failed:
                name, _, i = f.partition("#")
                byv.setdefault(int(i), []).append(name)
            if "harness_variants_related" in byv.get(0, []):
                raise tlc.TLCError("C11 harness: variants of one case are not the same hypergraph up to larger hyperedges: %s"
                                   % json.dumps(describe(s)))
            for i, names in sorted(byv.items()):
                mine = [n for n in names if not n.startswith("info_")]
                for n in names:
                    if n.startswith("info_"):
                        info[n] = info.get(n, 0) + 1
                if not mine:
                    continue
                if i == 0:
                    tags = [x["tag"] + ("+history" if x.get("history") else "") for x in s["variants"]]
                    what = ("%s census of order %d differs between variants %s of one hypergraph (same hyperedges of size <= %d): %s"
                            % (kind, s["k"], tags, s["k"], describe(s)))
                    shown = [nonzero(l["obs"]) for l in lg]
                else:
                    what = ("%s census of order %d: clause(s) %s fail on %s" % (kind, s["k"], ",".join(mine), describe(s, i)))
                    shown = nonzero(lg[i - 1]["obs"])
                res.reject({"kind": kind, "order": s["k"], "clauses": sorted(mine)}, what,
                           {"spec": s, "variant": i, "observed_nonzero": shown,
                            "state": lg[i - 1]["st"] if i else [l["st"] for l in lg]})
    return info


def nonzero(obs):
    return [p for p in (obs or []) if p[1] != 0]


def validate(specs, logs, procs=10):
    """send every fully logged case to TLC (one TLC constant Kind per kind)"""
    verdicts = {}
    threads = []
    for kind in ("hg", "dir"):
        idx = [i for i, (s, lg) in enumerate(zip(specs, logs))
               if s["kind"] == kind and all(l["err"] is None and l["malformed"] is None for l in lg)]
        if not idx:
            continue
        cases = [{"k": specs[i]["k"], "vs": [{"st": l["st"], "obs": l["obs"]} for l in logs[i]]} for i in idx]

        def work(kind=kind, idx=idx, cases=cases):
            try:
                verdicts[kind] = (idx, K.run_cases("Trace_C11", cases, {"Kind": kind}, procs=max(2, procs // 2), timeout=3000))
            except BaseException as ex:     # re-raised in the main thread
                verdicts[kind] = ex
        t = threading.Thread(target=work)
        t.start()
        threads.append(t)
    for t in threads:
        t.join()
    for v in verdicts.values():
        if isinstance(v, BaseException):
            raise v
    return verdicts


def run(tier, seed):
    res = Result("C11", tier, seed, "model_checking")
    rng = random.Random(seed)
    specs = hg_inputs(tier, rng) + dir_inputs(tier, rng)
    # later families draw from their own generators: the inputs above stay what they were for a given seed
    specs += nested_inputs(tier, random.Random(seed * 7919 + 11)) + dir_twin_inputs(tier, random.Random(seed * 7919 + 12))
    nhist = add_histories(specs, random.Random(seed * 7919 + 13))

    # design exploration (two TLC runs side by side) runs beside the execution of the real code
    box = {}
    parts = {"hg": Result("C11", tier, seed, "model_checking"), "dir": Result("C11", tier, seed, "model_checking")}

    def design(kind, runs):
        if os.environ.get("C11_SKIP_EXPLORE"):      # code-independent part; skipped only by mutation self-tests
            return
        try:
            for invariants, n in runs:
                explore(parts[kind], kind, tier, module="MC_Motifs", invariants=invariants,
                        configs=[dict(n=n, maxw=1, batches=False, metaops=False, weighted=False)])
        except BaseException as ex:
            box[kind] = ex
    ths = [threading.Thread(target=design, args=("hg", [(HG_INV[tier], 4)] + ([(HG_INV_3, 3)] if tier == "thorough" else []))),
           threading.Thread(target=design, args=("dir", [(DIR_INV, 3)]))]
    for th in ths:
        th.start()
    logs = run_all(specs)
    verdicts = validate(specs, logs)
    for th in ths:
        th.join()
    for ex in box.values():
        raise ex
    for kind in ("hg", "dir"):
        c = parts[kind].coverage
        res.cov(states=c.get("states", 0), transitions=c.get("transitions", 0))
        res.coverage.setdefault("explorations", []).extend(c.get("explorations", []))
        for i in c.get("invariants", []):
            if i not in res.coverage.setdefault("invariants", []):
                res.coverage["invariants"].append(i)
    info = judge(res, specs, logs, verdicts)
    skipped = info.get("variants_skipped_container_error", 0)
    if skipped > 0.05 * sum(len(s["variants"]) for s in specs):
        raise tlc.TLCError("C11 harness could not build %d inputs (container errors, e.g. %s)" % (skipped, info["container_errors"][:3]))

    nvar = sum(len(s["variants"]) for s in specs)
    res.cov(traces_validated_against_impl=sum(len(v[0]) for v in verdicts.values()),
            census_calls=nvar + nhist, objects_measured_again_after_in_place_edit=nhist,
            validator_states=sum(v[1]["states"] for v in verdicts.values()),
            undirected_cases=sum(1 for s in specs if s["kind"] == "hg"),
            directed_cases=sum(1 for s in specs if s["kind"] == "dir"),
            distinct_hypergraphs=len({(s["kind"], s["n"], tuple(s["edges"])) for s in specs}),
            directed_variants_off_the_anchor_enumeration=info.get("info_dir_anchor_enumeration", 0),
            variants_skipped_container_error=skipped,
            exhaustive=(tier == "thorough"))
    res.coverage["cases_by_origin"] = {}
    for s in specs:
        res.coverage["cases_by_origin"][s["origin"]] = res.coverage["cases_by_origin"].get(s["origin"], 0) + 1
    res.coverage["variants_by_tag"] = {}
    for s in specs:
        for v in s["variants"]:
            res.coverage["variants_by_tag"][v["tag"]] = res.coverage["variants_by_tag"].get(v["tag"], 0) + 1
    for kind in ("hg", "dir"):
        pick = [i for i, s in enumerate(specs) if s["kind"] == kind and s["origin"] == "random"]
        if pick:
            i = pick[len(pick) // 2]
            res.sample({"case": describe(specs[i]), "variants": [v["tag"] for v in specs[i]["variants"]],
                        "observed_nonzero": nonzero(logs[i][0]["obs"])})
    res.assume("node labels are integers (five families: 1..n, 0..n-1, scattered, negative, large) as the statement restricts",
               "directed hyperedges have disjoint, non-empty source and target sets",
               "thorough: all 2048 hypergraphs on 4 nodes with sizes 2..4 (+ random singletons) for both orders and all 4096 "
               "directed hypergraphs on 3 nodes; quick: seeded samples of them; hypergraphs on 5..7 nodes are sampled",
               "nested: hypergraphs on 5..6 nodes made of a few 4-node (and 3-node) hyperedges with most of their sub-hyperedges and little "
               "else (node sets that only the pass seeded at the (k-1)-hyperedges reaches); thorough adds one representative of every "
               "isomorphism class of the 2^15 hypergraphs on 5 nodes with hyperedges of 3 and 4 nodes, under a random label permutation",
               "look-alike: ONE directed hypergraph holding two (order 3: three) NON-isomorphic patterns on disjoint node sets that agree in "
               "simple invariants (per-node incidence profile; or hyperedge shapes and degree sequence), built in both insertion orders",
               "history of the OBJECT: about a fifth of the variants are built through another hypergraph (k of the hyperedges replaced by k others "
               "over the same nodes) on which the census is taken with the same arguments (result ignored), and are then edited in place into the "
               "hypergraph of the case (numbers of nodes and hyperedges unchanged, weighted ones also set_weight); the census judged is the second one",
               "for directed hypergraphs only what the statement promises is verdict-bearing (canonical representative, "
               "each class once, invariance under labels / history / larger hyperedges, count <= number of node sets "
               "showing the pattern); equality with the enumeration the anchors describe is reported as information")
    return res.finish()


def replay(path):
    with open(path) as f:
        rp = json.load(f)
    spec = rp["payload"]["spec"]
    spec["edges"] = [tuple(tuple(x) if isinstance(x, list) else x for x in e) for e in spec["edges"]]
    logs = run_all([spec], procs=2)
    res = Result("C11", "replay", rp.get("seed", 0), "model_checking")
    verdicts = validate([spec], logs, procs=2)
    judge(res, [spec], logs, verdicts)
    for r in res.rejections:
        print("VIOLATION property=C11 replay=%s\n  what: %s" % (path, r["what"]))
    print("C11 replay %s" % ("FAIL" if res.rejections else "PASS"))
    return 1 if res.rejections else 0
