"""C08 - Degrees and connected components equal their combinatorial definitions."""
import itertools
import random
import sys
import time

from checks.containers import run_container, explore, CC_CLAUSES
from harness.verdict import Result

DEG = {"degree", "degree_sequence", "degree_distribution", "incident_edges", "neighbors"}


def all_hypergraphs(kind, weighted, tier, seed):
    """every hypergraph on 3 nodes (2^7 edge sets), with and without an isolated extra node"""
    if kind != "hg" or weighted:
        return []
    subsets = [c for m in (1, 2, 3) for c in itertools.combinations((1, 2, 3), m)]
    out = []
    for mask in range(1 << len(subsets)):
        es = [subsets[i] for i in range(len(subsets)) if mask >> i & 1]
        ops = [{"op": "add_nodes", "items": [{"n": 3, "hasmd": False, "md": {}}, {"n": 1, "hasmd": False, "md": {}}]}]
        if es:
            ops.append({"op": "add_edges", "items": [{"k": {"s": list(e), "t": [], "x": 0}, "w": 0, "hasmd": False,
                                                      "md": {}, "bad": ""} for e in es]})
        n = 3 if mask % 2 else 4
        if n == 4:
            ops[0]["items"].append({"n": 4, "hasmd": False, "md": {}})      # an isolated extra node
        out.append((ops, n, "all-hypergraphs-on-3-nodes"))
    return out


def split_hypergraphs(kind, weighted, tier, seed):
    """hypergraphs made of two or three connected blocks of chosen sizes on 5-9 nodes (so that the order in
    which components are met, and near-ties between their sizes, vary), plus isolated nodes"""
    import random
    if kind != "hg":
        return []
    rng = random.Random(seed * 131 + (7 if weighted else 0))
    out = []
    for i in range(40 if tier == "quick" else 600):
        n = rng.choice([5, 5, 6, 7, 8, 9])
        nodes = list(range(1, n + 1))
        rng.shuffle(nodes)
        nb = rng.choice([2, 2, 3])
        cuts = sorted(rng.sample(range(1, n), nb - 1))
        blocks = [nodes[a:b] for a, b in zip([0] + cuts, cuts + [n])]
        edges = []
        for blk in blocks:
            if len(blk) == 1:
                continue                      # an isolated node
            # a connected set of hyperedges on the block: a chain of overlapping hyperedges
            j = 0
            while j < len(blk) - 1:
                z = rng.randint(2, min(4, len(blk) - j))
                edges.append(tuple(blk[j:j + z]))
                j += z - 1
            if rng.random() < 0.4 and len(blk) >= 3:
                edges.append(tuple(rng.sample(blk, rng.randint(2, min(4, len(blk))))))
        order = list(edges)
        if rng.random() < 0.5:
            rng.shuffle(order)                # otherwise: first block first
        ops = [{"op": "add_nodes", "items": [{"n": x, "hasmd": False, "md": {}} for x in sorted(nodes[:2])]}]
        for e in order:
            ops.append({"op": "add_edge", "k": {"s": sorted(e), "t": [], "x": 0}, "w": 0, "hasmd": False, "md": {}, "bad": ""})
        out.append((ops, n, "two-or-three-blocks"))
    return out


def _extra(kind, weighted, tier, seed):
    return all_hypergraphs(kind, weighted, tier, seed) + split_hypergraphs(kind, weighted, tier, seed)


# ---------------------------------------------------------------------------------------------------
# Large structured inputs (20-400 nodes): the hypergraph is a disjoint union of connected blocks given by
# construction parameters (spec/ext/Blocks.tla); the answers of the real code are decided by TLC against the
# block formulas (spec/trace/Trace_C08B.tla), which spec/mc/MC_Blocks.tla shows to agree with the general
# definitions of Derive.tla on every small parameter sequence.

BLOCK_INV = ["ExpansionWellFormed", "PartsAreComponents", "ClosedForms", "Headline", "DegreesByShape", "SizesByShape"]
BLOCK_PROBES = ["ProbeNeverDust", "ProbeNoPendants"]          # TLC must refute these (non-vacuity)
LARGE_FAMS = ("ident", "zero", "sparse", "str", "neg")
LARGE_OWN = CC_CLAUSES | {"visits_bfs", "visits_dfs", "degree", "degree_sequence", "degree_distribution", "get_sizes",
                          "no_exception"}


def explore_blocks(tier):
    """exhaustive TLC runs of MC_Blocks; returns the list of run records"""
    import concurrent.futures as cf
    from harness import tlc
    if tier == "quick":
        cfgs = [(4, 3, {"eq"}), (8, 1, {"eq", "upto"})]
    else:
        cfgs = [(5, 3, {"eq", "upto"}), (6, 2, {"eq", "upto"}), (11, 1, {"eq", "upto"})]

    def consts(c):
        return {"Kind": "hg", "MaxN": c[0], "MaxBlocks": c[1], "FKinds": c[2]}

    def one(c):
        r = tlc.run("MC_Blocks", tlc.cfg_text(consts(c), invariants=BLOCK_INV), workers=8 if tier == "quick" else 16,
                    timeout=2400, heap="4g")
        if not tlc.ok_exploration(r):
            raise tlc.TLCError("MC_Blocks %s: a block formula disagrees with Derive.tla:\n%s" % (c, tlc.error_excerpt(r["out"])))
        st = tlc.stats(r["out"])
        return {"module": "MC_Blocks", "max_block_nodes": c[0], "max_blocks": c[1], "filters": sorted(c[2]),
                "states": st["distinct"], "transitions": st["generated"], "wall_s": round(r["wall"], 1)}

    def probe(inv):
        r = tlc.run("MC_Blocks", tlc.cfg_text(consts((4, 2, {"eq"})), invariants=[inv]), workers=2, timeout=600)
        if "Invariant %s is violated" % inv not in r["out"]:
            raise tlc.TLCError("MC_Blocks: the probe %s was expected to be violated\n%s" % (inv, tlc.error_excerpt(r["out"])))
        return inv

    with cf.ThreadPoolExecutor(max_workers=4) as ex:
        pr = [ex.submit(probe, i) for i in BLOCK_PROBES]
        runs = list(ex.map(one, cfgs))
        probes = [p.result() for p in pr]
    return runs, probes


def _blk(shape, n, p=0):
    return {"shape": shape, "n": n, "p": p}


def block_edges(b):
    """hyperedges of a block over its local nodes 1..n: the transcription of Blocks!LEdges (TLC confirms the built
    object against Blocks!ExpandEdges, clause `construction`)"""
    sh, n, p = b["shape"], b["n"], b["p"]
    if sh == "single":
        return [(1,)] if p == 1 else []
    if sh == "path":
        return [(i, i + 1) for i in range(1, n)]
    if sh == "star":
        return [(1, i) for i in range(2, n + 1)]
    if sh == "bigedge":
        return [tuple(range(1, n + 1))]
    if sh == "bigpend":
        m = n - p
        return [tuple(range(1, m + 1))] + [(((j - 1) % m) + 1, m + j) for j in range(1, p + 1)]
    if sh == "triples":
        return [(2 * i - 1, 2 * i, 2 * i + 1) for i in range(1, (n - 1) // 2 + 1)]
    raise ValueError(sh)


def large_plans(tier, seed):
    """parameter sequences: a fixed core (the shapes and sizes named in DESIGN.md C08) + random unions"""
    rng = random.Random(seed * 977 + 5)
    odd = lambda x: x if x % 2 else x + 1
    core = [
        [_blk("path", rng.randint(257, 400))],                                  # connected, more than 256 nodes
        [_blk("triples", odd(rng.randint(257, 398)))],
        [_blk("star", rng.randint(258, 400))],                                   # more than 256 leaves
        [_blk("bigedge", rng.randint(257, 330))],
        [_blk("bigpend", 12 + 8, 8)],                                           # one hyperedge of 8-40 nodes, pendant pairs
        [_blk("bigpend", 8 + 3, 3), _blk("single", 1), _blk("bigpend", 9 + 9, 9)],
        [_blk("bigpend", 40 + 25, 25)],
        [_blk("bigpend", 24 + 60, 60), _blk("single", 1, 1)],                     # several pendants per member
        [_blk("path", 130), _blk("path", 131)],                                  # near-tie of sizes
        [_blk("star", 260), _blk("path", 100), _blk("single", 1), _blk("single", 1, 1)],
        [_blk("triples", 151), _blk("bigpend", 30 + 12, 12), _blk("bigedge", 40), _blk("single", 1), _blk("star", 90)],
        [_blk("single", 1, i % 2) for i in range(20)],                            # only isolated nodes
    ]
    out = [(ps, "core") for ps in core]
    total = (36 if tier == "quick" else 420)
    while len(out) < total:
        nb = rng.choice([1, 2, 2, 3, 3, 4, 5])
        cap = rng.choice([60, 150, 400])
        ps, left = [], cap
        for _ in range(nb):
            sh = rng.choice(["path", "star", "bigedge", "bigpend", "bigpend", "triples"])
            hi = max(4, min(left - (nb - len(ps)), 400))
            if hi < 4:
                break
            if sh == "bigpend":
                m = rng.randint(2, min(40, hi - 1)) if rng.random() < 0.25 else rng.randint(min(8, hi - 1), min(40, hi - 1))
                p = rng.randint(1, max(1, min(hi - m, 2 * m + 3)))
                b = _blk(sh, m + p, p)
            elif sh == "bigedge":
                b = _blk(sh, rng.randint(2, min(hi, 120)))
            elif sh == "triples":
                b = _blk(sh, odd(rng.randint(3, hi - 1)))
            else:
                b = _blk(sh, rng.randint(2, hi))
            ps.append(b)
            left -= b["n"]
        for _ in range(rng.choice([0, 0, 1, 2, 3, 7])):
            ps.insert(rng.randint(0, len(ps)), _blk("single", 1, rng.choice([0, 0, 1])))
        if ps and 20 <= sum(b["n"] for b in ps) <= 400:
            out.append((ps, "random-union"))
    return out


def _large_label(fam, i):
    return {"ident": i, "zero": i - 1, "sparse": 3 * i + 7, "str": "n%03d" % i, "neg": -i}[fam]


def build_large(ps, fam, mode, bseed):
    """a real Hypergraph that is Blocks!Expand(ps) under the label family `fam`; returns (h, lab: id -> label)"""
    from hypergraphx import Hypergraph
    rng = random.Random(bseed)
    N = sum(b["n"] for b in ps)
    idx = list(range(1, N + 1))
    if fam != "ident":
        rng.shuffle(idx)                      # which label of the family a spec node gets
    lab = {v: _large_label(fam, idx[v - 1]) for v in range(1, N + 1)}
    edges, bare, off = [], [], 0
    for b in ps:
        es = block_edges(b)
        if not es:
            bare.append(off + 1)
        edges += [tuple(off + x for x in e) for e in es]
        off += b["n"]
    present = {frozenset(e) for e in edges}
    rng.shuffle(edges)

    def listed(e):
        e = [lab[x] for x in e]
        rng.shuffle(e)
        return tuple(e)

    if mode == "ctor":
        h = Hypergraph(edge_list=[listed(e) for e in edges]) if edges else Hypergraph()
        for v in bare:
            h.add_node(lab[v])
    elif mode == "nodes_first":
        h = Hypergraph()
        order = list(range(1, N + 1))
        rng.shuffle(order)
        h.add_nodes([lab[v] for v in order])
        h.add_edges([listed(e) for e in edges])
    else:                                     # one_by_one / detour
        h = Hypergraph()
        ops = [("edge", e) for e in edges]
        for v in bare:
            ops.insert(rng.randint(0, len(ops)), ("node", v))
        if mode == "detour":
            tmp = _large_label(fam, N + 1)    # a node that is added (with two hyperedges) and removed again
            extra = []
            for _ in range(3):
                e = tuple(rng.sample(range(1, N + 1), rng.randint(2, min(6, N))))
                if frozenset(e) not in present and frozenset(e) not in {frozenset(x) for x in extra}:
                    extra.append(e)           # bridges / chords that are added and removed again
            i0, i1 = sorted([rng.randint(0, len(ops)), rng.randint(0, len(ops))])
            ops[i1:i1] = [("remove", x) for x in extra]
            ops[i0:i0] = [("edge", x) for x in extra] + [("tmp", None)]
            ops.append(("remove_tmp", None))
        for op, x in ops:
            if op == "edge":
                h.add_edge(listed(x))
            elif op == "node":
                h.add_node(lab[x])
            elif op == "remove":
                h.remove_edge(listed(x))
            elif op == "tmp":
                h.add_edge((tmp, lab[rng.randint(1, N)]))
                h.add_edge(tuple([tmp] + [lab[v] for v in rng.sample(range(1, N + 1), min(3, N))]))
            else:
                h.remove_node(tmp)            # takes its hyperedges with it
    return h, lab


def observe_large(h, ps, lab, rng):
    """calls of the real code (methods and module-level functions) -> one case for Trace_C08B"""
    import hypergraphx.utils.cc as ccm
    import hypergraphx.measures.degree as dgm
    from hypergraphx.utils.visits import _bfs, _dfs
    from harness.binding import quiet
    un = {l: v for v, l in lab.items()}
    uid = lambda x: un.get(x, 0) if isinstance(x, (int, str)) and not isinstance(x, bool) else 0
    raised = []

    def ids(xs):
        return [uid(x) for x in xs]

    def both(name, conv, default, *a, **kw):
        out = []
        for route, fn in (("method", getattr(h, name, None)), ("module", None)):
            try:
                with quiet():
                    v = fn(*a, **kw) if route == "method" else getattr(ccm if hasattr(ccm, name) else dgm, name)(h, *a, **kw)
                out.append(conv(v))
            except Exception as ex:               # noqa: the call is a valid one, it must not raise
                raised.append("%s(%s):%s" % (name, route, type(ex).__name__))
                out.append(default)
        return out

    def one(tag, fn, conv, default):
        try:
            with quiet():
                return conv(fn())
        except Exception as ex:
            raised.append("%s:%s" % (tag, type(ex).__name__))
            return default

    as_int = lambda v: v if isinstance(v, int) and not isinstance(v, bool) else -1
    as_bool = lambda v: v if isinstance(v, bool) else "not-a-bool"
    pairs = lambda d: [[uid(k), as_int(x)] for k, x in d.items()]
    dist = lambda d: [[as_int(k), as_int(x)] for k, x in d.items()]

    # filters: none, pairs, and a few of the sizes that matter for these parameters (+ one that no hyperedge has)
    present = sorted({len(e) for b in ps for e in block_edges(b)})
    cand = [z for z in present if z != 2] + [1, 3, max(present + [2]) + 1]
    rng.shuffle(cand)
    sizes = [2]
    for z in cand:
        if z not in sizes and len(sizes) < 4:
            sizes.append(z)
    # probe nodes: for up to three blocks one random node; the first member and the last pendant of a bigpend block
    offs, o = [], 0
    for b in ps:
        offs.append(o)
        o += b["n"]
    probes = []
    for bi in rng.sample(range(len(ps)), min(3, len(ps))):
        b = ps[bi]
        probes.append((offs[bi] + rng.randint(1, b["n"]), bi + 1))
        if b["shape"] == "bigpend" and len(probes) < 5:
            probes.append((offs[bi] + rng.choice([1, b["n"]]), bi + 1))
    obs = []
    for z in [None] + sizes:
        kw = {} if z is None else ({"size": z} if rng.random() < 0.5 else {"order": z - 1})
        r = {"f": ["none", 0] if z is None else ["eq", z]}
        r["comps"] = both("connected_components", lambda v: [ids(c) for c in v], [], **kw)
        r["num"] = both("num_connected_components", as_int, -1, **kw)
        r["conn"] = both("is_connected", as_bool, "raised", **kw)
        r["largest"] = both("largest_component", ids, [], **kw)
        r["largest_size"] = both("largest_component_size", as_int, -1, **kw)
        r["isolated"] = both("isolated_nodes", ids, [0], **kw)
        r["degseq"] = both("degree_sequence", pairs, [], **kw)
        r["degdist"] = both("degree_distribution", dist, [], **kw)
        pr = []
        for (v, bi) in probes:
            n = lab[v]
            pr.append({"v": v, "block": bi,
                       "ncc": both("node_connected_component", ids, [], n, **kw),
                       "iso": both("is_isolated", as_bool, "raised", n, **kw),
                       "deg": both("degree", as_int, -1, n, **kw),
                       "bfs": one("_bfs", lambda: _bfs(h, n, **kw), ids, []),
                       "dfs": one("_dfs", lambda: _dfs(h, n, max_depth=None, **kw), ids, [])})
        r["probes"] = pr
        obs.append(r)
    with quiet():
        nodes = ids(h.get_nodes())
        edges = [ids(e) for e in h.get_edges()]
        szs = [as_int(x) for x in h.get_sizes()]
    return {"ps": ps, "nodes": nodes, "edges": edges, "sizes": szs, "obs": obs, "raised": sorted(set(raised))}


def large_case(i, ps, origin, seed):
    rng = random.Random(seed * 7919 + i * 31 + 3)
    fam = LARGE_FAMS[(i + seed) % len(LARGE_FAMS)] if origin == "core" else rng.choice(LARGE_FAMS)
    mode = rng.choice(["ctor", "nodes_first", "one_by_one", "detour"])
    bseed = rng.randrange(1 << 30)
    h, lab = build_large(ps, fam, mode, bseed)
    case = observe_large(h, ps, lab, rng)
    return case, {"params": ps, "family": fam, "mode": mode, "build_seed": bseed, "case_index": i, "origin": origin,
                  "nodes": sum(b["n"] for b in ps)}


def _large_worker(args):
    i, ps, origin, seed = args
    return large_case(i, ps, origin, seed)


def judge_large(res, cases, meta, v):
    other = 0
    for idx, failed in v["rejects"]:
        mine = [c for c in failed if c in LARGE_OWN]
        if "construction" in failed or not mine:
            other += 1                        # the object is not the one the parameters describe: C01's business
            continue
        m = meta[idx]
        shapes = sorted({b["shape"] for b in m["params"]})
        res.reject({"part": "large-structured", "clauses": mine},
                   "large structured input (%d nodes, blocks %s, labels %s, built %s): %s disagree(s) with the block formulas "
                   "of Blocks.tla%s" % (m["nodes"], "+".join("%s(%d%s)" % (b["shape"], b["n"], ",p=%d" % b["p"] if b["p"] else "")
                                                               for b in m["params"][:6]) + ("..." if len(m["params"]) > 6 else ""),
                                        m["family"], m["mode"], ",".join(mine),
                                        " [raised: %s]" % ",".join(cases[idx]["raised"]) if cases[idx]["raised"] else ""),
                   {"part": "large-structured", "shapes": shapes, **m,
                    "logged": {k: x for k, x in cases[idx].items() if k not in ("nodes", "edges")}})
    return other


def run_large(res, tier, seed):
    """the large-structured part: MC_Blocks (design) runs while the real objects are built and queried"""
    import concurrent.futures as cf
    from harness import cases as K
    t0 = time.time()
    plans = large_plans(tier, seed)
    with cf.ThreadPoolExecutor(max_workers=1) as tex:
        fut = tex.submit(explore_blocks, tier)
        jobs = [(i, ps, origin, seed) for i, (ps, origin) in enumerate(plans)]
        if tier == "quick":
            done = [_large_worker(j) for j in jobs]
        else:
            with cf.ProcessPoolExecutor(max_workers=8) as pex:
                done = list(pex.map(_large_worker, jobs, chunksize=8))
        tb = time.time() - t0
        cases = [c for c, _ in done]
        meta = [m for _, m in done]
        t1 = time.time()
        v = K.run_cases("Trace_C08B", cases, {"Kind": "hg"}, procs=8, per_batch=max(4, len(cases) // 8 + 1))
        tv = time.time() - t1
        runs, probes = fut.result()
    other = judge_large(res, cases, meta, v)
    print("[C08 large] build+query %.1fs validate %.1fs, MC_Blocks %d states (%d cases, up to %d nodes) total %.1fs" % (
        tb, tv, sum(r["states"] for r in runs), len(cases), max(m["nodes"] for m in meta), time.time() - t0), file=sys.stderr)
    res.cov(states=sum(r["states"] for r in runs), transitions=sum(r["transitions"] for r in runs),
            large_structured_cases=len(cases), largest_node_count=max(m["nodes"] for m in meta),
            large_cases_over_256_nodes=sum(1 for m in meta if m["nodes"] > 256),
            large_connected_cases_over_256_nodes=sum(1 for m in meta if m["nodes"] > 256 and len(m["params"]) == 1),
            large_cases_with_pendants_on_a_hyperedge_of_8_or_more=sum(
                1 for m in meta if any(b["shape"] == "bigpend" and b["n"] - b["p"] >= 8 for b in m["params"])),
            large_calls_validated=sum(len(c["obs"]) * (18 + 8 * len(c["obs"][0]["probes"])) for c in cases),
            large_validator_states=v["states"], large_rejected_cases=len(v["rejects"]),
            large_rejections_of_other_property=other)
    res.cov(large_cases_by_family={f: sum(1 for m in meta if m["family"] == f) for f in LARGE_FAMS},
            large_cases_by_construction={k: sum(1 for m in meta if m["mode"] == k) for k in ("ctor", "nodes_first", "one_by_one", "detour")},
            large_block_shapes={s_: sum(1 for m in meta for b in m["params"] if b["shape"] == s_)
                                for s_ in ("single", "path", "star", "bigedge", "bigpend", "triples")},
            block_probes_violated_as_expected=probes)
    res.coverage.setdefault("explorations", []).extend(runs)
    for i_ in BLOCK_INV:
        if i_ not in res.coverage.setdefault("invariants", []):
            res.coverage["invariants"].append(i_)
    big = max(range(len(meta)), key=lambda j: meta[j]["nodes"])
    res.sample({"part": "large-structured", **{k: meta[big][k] for k in ("params", "family", "mode", "nodes")}}, cap=6)
    res.assume("inputs of 20-400 nodes are disjoint unions of connected blocks (path, star, one large hyperedge, a large hyperedge "
               "with pendant pairs, chain of triples, single nodes) and are decided by the block formulas of spec/ext/Blocks.tla; "
               "MC_Blocks checks those formulas against Derive.tla (Components, CompOf, LargestSize, Isolated, Degree, sizes) "
               "exhaustively for every sequence of up to 3 blocks of up to %d nodes and every filter - the general definitions "
               "are not evaluated at the large sizes" % (4 if tier == "quick" else 5),
               "the object built from the parameters is confirmed by TLC to be Expand(ps) (get_nodes/get_edges read back); "
               "visits are called with max_depth=None only")


def run(tier, seed):
    res = Result("C08", tier, seed, "model_checking")
    explore(res, "hg", tier, module="MC_Derive",
            invariants=["DegreeSum", "DistIsHistogram", "ComponentsPartition", "IsolatedIffSingleton", "LargestIsComponent"],
            configs=[dict(n=3, maxw=1, batches=False, metaops=False)] +
                    ([dict(n=4, maxw=1, batches=False, metaops=False, weighted=False)] if tier == "thorough" else []))
    run_large(res, tier, seed)
    run_container("C08", "hg", tier, seed, res=res, finish=False, do_explore=False, cc=True,
                  own_clauses=CC_CLAUSES | DEG, foreign=(), extra_behaviours=_extra,
                  scale=0.5 if tier == "quick" else 1.0)
    for kind in ("dir", "temp", "mux"):
        run_container("C08", kind, tier, seed, res=res, finish=False, do_explore=False,
                      own_clauses=DEG, foreign=(), scale=0.2 if tier == "quick" else 0.5)
    return res.finish()


def replay(path):
    import json
    with open(path) as f:
        rp = json.load(f)
    p = rp["payload"]
    if p.get("part") == "large-structured":
        from harness import cases as K
        case, _ = large_case(p["case_index"], p["params"], p["origin"], rp["seed"])
        v = K.run_cases("Trace_C08B", [case], {"Kind": "hg"}, procs=1)
        wanted = set(rp["signature"].get("clauses", []))
        for _, failed in v["rejects"]:
            print("large structured case %d: failing clauses %s" % (p["case_index"], ",".join(failed)))
            if wanted & set(failed):
                print("VIOLATION property=C08 replay=%s" % path)
                return 1
        print("replay of %s: the recorded violation does not reproduce on the current tree" % path)
        return 0
    from checks.containers import replay_container
    return replay_container("C08", path)
