"""C08 - Degrees and connected components equal their combinatorial definitions."""
import itertools

from checks.containers import run_container, explore, CC_CLAUSES
from harness.verdict import Result

DEG = {"degree", "degree_sequence", "degree_distribution", "incident_edges", "neighbors"}


def all_hypergraphs(kind, weighted, tier, seed):
    """every hypergraph on 3 nodes (2^7 edge sets), with and without an isolated extra node"""
    if kind != "hg" or weighted:
        return []
    subsets = [c for m in (1, 2, 3) for c in itertools.combinations((1, 2, 3), m)]
    out = []
    for mask in range(1 << len(subsets)):
        es = [subsets[i] for i in range(len(subsets)) if mask >> i & 1]
        ops = [{"op": "add_nodes", "items": [{"n": 3, "hasmd": False, "md": {}}, {"n": 1, "hasmd": False, "md": {}}]}]
        if es:
            ops.append({"op": "add_edges", "items": [{"k": {"s": list(e), "t": [], "x": 0}, "w": 0, "hasmd": False,
                                                      "md": {}, "bad": ""} for e in es]})
        n = 3 if mask % 2 else 4
        if n == 4:
            ops[0]["items"].append({"n": 4, "hasmd": False, "md": {}})      # an isolated extra node
        out.append((ops, n, "all-hypergraphs-on-3-nodes"))
    return out


def split_hypergraphs(kind, weighted, tier, seed):
    """hypergraphs made of two or three connected blocks of chosen sizes on 5-9 nodes (so that the order in
    which components are met, and near-ties between their sizes, vary), plus isolated nodes"""
    import random
    if kind != "hg":
        return []
    rng = random.Random(seed * 131 + (7 if weighted else 0))
    out = []
    for i in range(40 if tier == "quick" else 600):
        n = rng.choice([5, 5, 6, 7, 8, 9])
        nodes = list(range(1, n + 1))
        rng.shuffle(nodes)
        nb = rng.choice([2, 2, 3])
        cuts = sorted(rng.sample(range(1, n), nb - 1))
        blocks = [nodes[a:b] for a, b in zip([0] + cuts, cuts + [n])]
        edges = []
        for blk in blocks:
            if len(blk) == 1:
                continue                      # an isolated node
            # a connected set of hyperedges on the block: a chain of overlapping hyperedges
            j = 0
            while j < len(blk) - 1:
                z = rng.randint(2, min(4, len(blk) - j))
                edges.append(tuple(blk[j:j + z]))
                j += z - 1
            if rng.random() < 0.4 and len(blk) >= 3:
                edges.append(tuple(rng.sample(blk, rng.randint(2, min(4, len(blk))))))
        order = list(edges)
        if rng.random() < 0.5:
            rng.shuffle(order)                # otherwise: first block first
        ops = [{"op": "add_nodes", "items": [{"n": x, "hasmd": False, "md": {}} for x in sorted(nodes[:2])]}]
        for e in order:
            ops.append({"op": "add_edge", "k": {"s": sorted(e), "t": [], "x": 0}, "w": 0, "hasmd": False, "md": {}, "bad": ""})
        out.append((ops, n, "two-or-three-blocks"))
    return out


def _extra(kind, weighted, tier, seed):
    return all_hypergraphs(kind, weighted, tier, seed) + split_hypergraphs(kind, weighted, tier, seed)


def run(tier, seed):
    res = Result("C08", tier, seed, "model_checking")
    explore(res, "hg", tier, module="MC_Derive",
            invariants=["DegreeSum", "DistIsHistogram", "ComponentsPartition", "IsolatedIffSingleton", "LargestIsComponent"],
            configs=[dict(n=3, maxw=1, batches=False, metaops=False)] +
                    ([dict(n=4, maxw=1, batches=False, metaops=False, weighted=False)] if tier == "thorough" else []))
    run_container("C08", "hg", tier, seed, res=res, finish=False, do_explore=False, cc=True,
                  own_clauses=CC_CLAUSES | DEG, foreign=(), extra_behaviours=_extra,
                  scale=0.5 if tier == "quick" else 1.0)
    for kind in ("dir", "temp", "mux"):
        run_container("C08", kind, tier, seed, res=res, finish=False, do_explore=False,
                      own_clauses=DEG, foreign=(), scale=0.2 if tier == "quick" else 0.5)
    return res.finish()


def replay(path):
    from checks.containers import replay_container
    return replay_container("C08", path)
