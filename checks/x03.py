"""X03 - visits, degree statistics and similarity measures (extension; statements in spec/ext/Visits.tla).

1. explore   TLC, exhaustive: MC_Visits = the bounded container model + the visit state machine (every
             order of appending neighbours), Ball / degree / Pearson / overlap / Jaccard laws; the code-shaped
             depth-limited DFS is kept as a configuration that TLC must refute
2. bind      real objects of the four classes built with histories under every label family; real calls of
             utils.visits._bfs/_dfs, measures.degree.*, measures.multiplex.edge_overlap,
             measures.edge_similarity.*, utils.cc.* (module level); exact logging
3. validate  TLC evaluates Trace_X03!X03Clauses on every case
"""
import concurrent.futures as cf
import itertools
import math
import random
import time
from fractions import Fraction

from harness import cases as K
from harness import containers as C
from harness import tlc
from harness.binding import Binding, LABEL_FAMILIES, quiet
from harness.verdict import Result

PROP = "X03"
FAMS = ("ident", "sparse", "str", "zero", "big", "neg", "long", "cat", "scat")
XS = {"hg": [0], "dir": [0], "temp": [0, 1, 2], "mux": ["L1", "L2", "L3"]}
DISPUTED = "dfs_ball_bounded_depth"          # candidate defect X03-D1: reported under its own signature

RUN_INV = ["VisitExact", "DfsCodeUnbounded", "VisitSound", "BfsQueueSorted", "RunBounded"]
LAW_INV = ["BallLaws", "DegreeBySize", "PearsonLaws", "JaccardLaws", "IsolatedLaws"]


# ---------------------------------------------------------------------------------------------
# 1. the design
def _explore_one(job):
    (name, kind, n, algos, depths, sizes, inv, kw, must_fail) = job
    kw = dict(kw)
    maxedges = kw.pop("maxedges", 99)
    minsize = kw.pop("minsize", 1)
    weighted = kw.pop("weighted", True)
    c = C.consts(kind, weighted, n=n, batches=False, metaops=False, **kw)
    c.update({"Algos": set(algos), "Depths": set(depths), "VSizes": set(sizes), "MaxEdges": maxedges, "MinSize": minsize})
    cfg = tlc.cfg_text(c, init="VInit", next_="VNext", invariants=inv, constraints=["VBound"])
    r = tlc.run("MC_Visits", cfg, workers=8, timeout=2400, heap="6g")
    s = tlc.stats(r["out"]) or {"generated": 0, "distinct": 0}
    rec = {"module": "MC_Visits", "config": name, "kind": kind, "n": n, "algos": sorted(algos), "depths(99=None)": sorted(depths),
           "filter_sizes(0=none)": sorted(sizes), "invariants": inv, "states": s["distinct"], "transitions": s["generated"],
           "wall_s": round(r["wall"], 1)}
    if must_fail:
        if tlc.ok_exploration(r) or "Invariant DfsCodeExact is violated" not in r["out"]:
            raise tlc.TLCError("the code-shaped depth-limited DFS was NOT refuted by TLC (%s):\n%s" % (name, tlc.error_excerpt(r["out"])))
        rec["refuted"] = True
    elif not tlc.ok_exploration(r):
        raise tlc.TLCError("MC_Visits %s failed:\n%s" % (name, tlc.error_excerpt(r["out"])))
    return rec


def explore_jobs(tier):
    jobs = []
    if tier == "quick":
        jobs.append(("hg3-visits", "hg", 3, ["bfs", "dfs", "dfs_code"], [99, 1, 2], [0, 2], RUN_INV + LAW_INV, dict(maxw=1), False))
        jobs.append(("mux2-laws", "mux", 2, [], [], [0], ["MuxLaws", "DegreeBySize"], dict(maxw=2, xs=["L1", "L2"]), False))
    else:
        jobs.append(("hg3-visits", "hg", 3, ["bfs", "dfs", "dfs_code"], [99, 0, 1, 2, 3], [0, 1, 2, 3, 4], RUN_INV + LAW_INV, dict(maxw=1), False))
        jobs.append(("hg4-visits", "hg", 4, ["bfs", "dfs"], [99, 1, 2, 3], [0, 2], RUN_INV + ["BallLaws"],
                     dict(maxw=1, weighted=False, maxedges=4, minsize=2), False))
        jobs.append(("hg4-dfs-code-unbounded", "hg", 4, ["dfs_code"], [99], [0, 3], RUN_INV,
                     dict(maxw=1, weighted=False, maxedges=4, minsize=2), False))
        jobs.append(("mux2-laws", "mux", 2, [], [], [0], ["MuxLaws", "DegreeBySize", "PearsonLaws", "IsolatedLaws"],
                     dict(maxw=2, xs=["L1", "L2"]), False))
        jobs.append(("temp2-laws", "temp", 2, [], [], [0], ["DegreeBySize", "IsolatedLaws", "BallLaws"], dict(maxw=2, xs=[0, 1]), False))
        jobs.append(("dir3-laws", "dir", 3, [], [], [0], ["DegreeBySize", "IsolatedLaws"], dict(maxw=1), False))
    # the depth-limited DFS as written in utils/visits.py: TLC must find the run that misses a node of the ball
    jobs.append(("hg4-dfs-code-depth2 (must fail)", "hg", 4, ["dfs_code"], [2], [0], ["DfsCodeExact"],
                 dict(maxw=1, weighted=False, maxedges=2 if tier == "quick" else 4, minsize=2), True))
    return jobs


def explore(res, tier):
    jobs = explore_jobs(tier)
    with cf.ThreadPoolExecutor(max_workers=len(jobs)) as ex:
        recs = list(ex.map(_explore_one, jobs))
    ok = [r for r in recs if not r.get("refuted")]
    res.cov(states=sum(r["states"] for r in ok), transitions=sum(r["transitions"] for r in ok))
    res.coverage.setdefault("explorations", []).extend(recs)
    res.coverage["invariants"] = sorted({i for r in ok for i in r["invariants"]})
    res.cov(spec_variants_refuted=[r["config"] for r in recs if r.get("refuted")])


# ---------------------------------------------------------------------------------------------
# 2. real objects
def edge_op(k, w=0):
    return {"op": "add_edge", "k": k, "w": w, "hasmd": False, "md": {}, "bad": ""}


def hg_key(nodes):
    return {"s": sorted(nodes), "t": [], "x": 0}


def history(kind, weighted, n, rng, length):
    """structural calls only (insert / remove / re-insert / remove node / add node), spec-level format"""
    b = Binding(kind, list(range(1, n + 1)), rng)
    u = list(range(1, n + 1))
    ops, recent = [], []

    def key():
        if recent and rng.random() < 0.4:
            k = dict(rng.choice(recent))
            if kind in ("temp", "mux") and rng.random() < 0.5:
                k["x"] = rng.choice(XS[kind])            # the same node set at another time / in another layer
            return k
        if kind == "hg":
            z = rng.choice([1, 2, 2, 2, 3, 3, 4]) if n >= 4 else rng.randint(1, n)
            k = hg_key(rng.sample(u, min(z, n)))
        else:
            k = b.random_key(u, XS[kind])
            if kind in ("temp", "mux") and len(k["s"]) > 3:
                k["s"] = sorted(rng.sample(k["s"], rng.choice([2, 3])))
        recent.append(k)
        del recent[:-6]
        return k

    for _ in range(length):
        r = rng.random()
        if r < 0.62:
            ops.append(edge_op(key(), rng.choice([1, 2, 3]) if weighted else 0))
        elif r < 0.72:
            its = [dict(edge_op(key(), rng.choice([1, 2, 3]) if weighted else 0)) for _ in range(rng.randint(2, 3))]
            for it in its:
                it.pop("op")
            ops.append({"op": "add_edges", "items": its})
        elif r < 0.84:
            ops.append({"op": "remove_edge", "k": key()})
        elif r < 0.92:
            ops.append({"op": "remove_node", "n": rng.choice(u), "keep": kind in ("hg", "temp") and rng.random() < 0.3})
        else:
            ops.append({"op": "add_node", "n": rng.choice(u), "hasmd": False, "md": {}})
    return ops


def build(kind, weighted, fam, n, ops, rng):
    """a real object after the calls `ops`, under the label family `fam` (one label more than nodes: an absent one)"""
    b = Binding(kind, LABEL_FAMILIES[fam](n + 1), rng)
    obj = b.new(weighted)
    done = []
    for o in ops:
        if not b.supported(o) or b.corner(o, obj):
            continue
        b.apply(obj, o)
        done.append(o)
    return b, obj, done


def frac(x, den=1000, tol=1e-12):
    f = Fraction(float(x)).limit_denominator(den)
    return [f.numerator, f.denominator], abs(float(f) - float(x)) <= tol


def filters_for(st, n):
    zs = sorted({len(e["k"]["s"]) + len(e["k"]["t"]) for e in st["edges"]})
    absent = [z for z in range(1, n + 2) if z not in zs][:1]
    return [("none", 0)] + [("eq", z) for z in zs + absent]


def obs_visits(b, obj, st, n, rng, depths):
    from hypergraphx.utils.visits import _bfs, _dfs
    out = []
    starts = list(range(1, n + 2))
    for f in filters_for(st, n):
        for s in starts:
            for md in depths:
                for algo, fn in (("bfs", _bfs), ("dfs", _dfs)):
                    kw = dict(b._fkw(f))
                    if md >= 0:
                        kw["max_depth"] = md
                    r = {"algo": algo, "n": s, "md": md, "f": list(f), "raised": False, "res": []}
                    try:
                        with quiet():
                            v = fn(obj, b.lab(s), **kw)
                        r["res"] = sorted(b.unlab(x) for x in v)
                        r["isset"] = isinstance(v, (set, frozenset))
                    except Exception:
                        r["raised"] = True
                    out.append(r)
    return out


def obs_degrees(b, obj, st, n, kind):
    """measures.degree at module level, both spellings of the filter"""
    import hypergraphx.measures.degree as D
    c = {"deg": [], "seqs": [], "dists": []}
    nodes = list(obj.get_nodes())
    for f in [("none", 0)] + [("eq", z) for z in range(1, n + 2)]:
        with quiet():
            for nd in nodes:
                try:
                    v = D.degree(obj, nd, **b._fkw(f))
                    if isinstance(v, int) and not isinstance(v, bool):
                        c["deg"].append({"n": b.unlab(nd), "f": list(f), "deg": v})
                    else:
                        c["deg"].append({"n": b.unlab(nd), "f": list(f), "deg": -1})
                except Exception:
                    c["deg"].append({"n": b.unlab(nd), "f": list(f), "deg": -1})
            try:
                v = D.degree_sequence(obj, **b._fkw(f))
                c["seqs"].append({"f": list(f), "seq": [[b.unlab(k), int(d)] for k, d in v.items()]})
            except Exception:
                c["seqs"].append({"f": list(f), "seq": [[-1, -1]]})
            if kind != "mux":                 # the docstring names Hypergraph | DirectedHypergraph | TemporalHypergraph
                try:
                    v = D.degree_distribution(obj, **b._fkw(f))
                    c["dists"].append({"f": list(f), "dist": [[int(d), int(k)] for d, k in v.items()]})
                except Exception:
                    c["dists"].append({"f": list(f), "dist": [[-1, -1]]})
    if not c["dists"]:
        del c["dists"]
    return c


CORR_DEN = 2_000_000


def corr_guard(st):
    """|nodes| * sum of squared degrees (per size) small enough for r^2 to be recovered exactly from the float"""
    nn = len(st["nodes"])
    by = {}
    for e in st["edges"]:
        z = len(e["k"]["s"])
        for x in e["k"]["s"]:
            by.setdefault(z, {}).setdefault(x, 0)
            by[z][x] += 1
    worst = max([nn * sum(d * d for d in m.values()) for m in by.values()] or [0])
    return worst * worst < CORR_DEN


def obs_corr(obj, st):
    """degree_correlation: each entry r as (nan?, sign, r^2 as the fraction num/den in lowest terms)"""
    import hypergraphx.measures.degree as D
    with quiet():
        m = D.degree_correlation(obj)
    rows, cols = (int(m.shape[0]), int(m.shape[1])) if m.ndim == 2 else (int(m.shape[0]), 0)
    cells, exact = [], True
    for i in range(rows):
        for j in range(cols):
            r = float(m[i, j])
            if math.isnan(r):
                cells.append({"i": i, "j": j, "nan": True, "sgn": 0, "num": 0, "den": 1})
                continue
            r2 = Fraction(r * r).limit_denominator(CORR_DEN)
            if abs(math.sqrt(r2) - abs(r)) > 1e-9:
                exact = False
            cells.append({"i": i, "j": j, "nan": False, "sgn": 0 if abs(r) < 1e-9 else (1 if r > 0 else -1),
                          "num": r2.numerator, "den": r2.denominator})
    return {"rows": rows, "cols": cols, "cells": cells}, exact


def obs_cc(b, obj, n):
    """every function of utils/cc.py called ON THE MODULE (c08 picks method or module at random)"""
    import hypergraphx.utils.cc as ccm
    out, ok = [], True
    nodes = list(obj.get_nodes())

    def safe(fn):
        try:
            with quiet():
                return fn()
        except Exception:
            return None

    for f in [("none", 0)] + [("eq", z) for z in range(1, n + 2)]:
        r = {"f": list(f)}
        v = safe(lambda: ccm.connected_components(obj, **b._fkw(f)))
        r["comps"] = [[b.unlab(x) for x in c] for c in v] if v is not None else [[-1]]
        v = safe(lambda: ccm.num_connected_components(obj, **b._fkw(f)))
        r["num"] = v if isinstance(v, int) else -1
        v = safe(lambda: ccm.is_connected(obj, **b._fkw(f)))
        if isinstance(v, bool):
            r["is_connected"] = v
        else:
            ok = False
        if nodes:
            v = safe(lambda: ccm.largest_component(obj, **b._fkw(f)))
            r["largest"] = [b.unlab(x) for x in v] if v is not None else [-1]
            v = safe(lambda: ccm.largest_component_size(obj, **b._fkw(f)))
            r["largest_size"] = v if isinstance(v, int) else -1
        v = safe(lambda: ccm.isolated_nodes(obj, **b._fkw(f)))
        r["isolated"] = [b.unlab(x) for x in v] if v is not None else [-1]
        bn = []
        for nd in nodes:
            c = safe(lambda: ccm.node_connected_component(obj, nd, **b._fkw(f)))
            i = safe(lambda: ccm.is_isolated(obj, nd, **b._fkw(f)))
            if isinstance(i, bool):
                bn.append([b.unlab(nd), [b.unlab(x) for x in c] if c is not None else [-1], i])
            else:
                ok = False
        r["bynode"] = bn
        out.append(r)
    return out, ok


def obs_iso(b, obj, n):
    """isolated_nodes / is_isolated of utils/cc.py on a directed or temporal hypergraph, module level"""
    import hypergraphx.utils.cc as ccm
    out = []
    nodes = list(obj.get_nodes())
    for f in [("none", 0)] + [("eq", z) for z in range(1, n + 2)]:
        r = {"f": list(f), "hasl": False, "isolated": [], "bynode": []}
        with quiet():
            try:
                v = ccm.isolated_nodes(obj, **b._fkw(f))
                r["isolated"] = [b.unlab(x) for x in v]
                r["hasl"] = True
            except Exception:
                pass
            for nd in nodes:
                try:
                    v = ccm.is_isolated(obj, nd, **b._fkw(f))
                    if isinstance(v, bool):
                        r["bynode"].append([b.unlab(nd), v])
                except Exception:
                    pass
        out.append(r)
    return out


def obs_overlap(b, obj, st, n, rng):
    from hypergraphx.measures.multiplex import edge_overlap
    out, seen = [], set()
    cand = [tuple(e["k"]["s"]) for e in st["edges"]]
    for _ in range(4):                         # node sets held by no layer: the overlap is 0
        cand.append(tuple(sorted(rng.sample(range(1, n + 1), rng.randint(1, min(3, n))))))
    for e in cand:
        if e in seen or -1 in e:
            continue
        seen.add(e)
        try:
            with quiet():
                v = edge_overlap(obj, b._tuple(e))          # listed in a random order
            out.append({"e": list(e), "ov": int(v) if float(v) == int(v) else -1})
        except Exception:
            out.append({"e": list(e), "ov": -1})
    return out


def obs_sims(b, st, n, rng, limit):
    """edge_similarity on the hyperedges of the object (as sets of labels), on the empty set and on random sets"""
    import hypergraphx.measures.edge_similarity as ES
    sets = [tuple(e["k"]["s"]) for e in st["edges"] if -1 not in e["k"]["s"]]
    rng.shuffle(sets)
    sets = sets[:5] + [(), tuple(sorted(rng.sample(range(1, n + 1), rng.randint(1, n))))]
    pairs = [(a, c) for a in sets for c in sets]
    if len(pairs) > limit:
        pairs = rng.sample(pairs, limit - 3) + [((), ()), (sets[0], ()), ((), sets[0])]
    out, exact = [], True
    for a, c in pairs:
        A, B = {b.lab(i) for i in a}, {b.lab(i) for i in c}
        r = {"a": list(a), "b": list(c), "hasi": False, "inter": -1, "hasj": False, "jac": [0, 1], "hasd": False, "dist": [0, 1]}
        try:
            v = ES.intersection(set(A), set(B))
            if isinstance(v, int) and not isinstance(v, bool):
                r["hasi"], r["inter"] = True, v
        except Exception:
            pass
        try:
            r["jac"], ok = frac(ES.jaccard_similarity(set(A), set(B)))
            r["hasj"] = True
            exact = exact and ok
        except Exception:
            pass
        try:
            r["dist"], ok = frac(ES.jaccard_distance(set(A), set(B)))
            r["hasd"] = True
            exact = exact and ok
        except Exception:
            pass
        out.append(r)
    return out, exact


def small_hypergraphs(max_edges):
    """every hypergraph on 4 nodes made of at most max_edges hyperedges of size 2 or 3"""
    es = [c for z in (2, 3) for c in itertools.combinations((1, 2, 3, 4), z)]
    for m in range(1, max_edges + 1):
        for sel in itertools.combinations(es, m):
            yield [edge_op(hg_key(e)) for e in sel]


def paths_and_cycles(rng, count):
    """sparse hypergraphs on 5-7 nodes with long shortest paths and several routes of different length to a node
    (what separates depth-limited visits): a path of overlapping hyperedges plus a few chords"""
    for _ in range(count):
        n = rng.choice([5, 6, 6, 7])
        nodes = list(range(1, n + 1))
        rng.shuffle(nodes)
        ops, j = [], 0
        while j < n - 1:
            z = rng.choice([2, 2, 2, 3])
            ops.append(edge_op(hg_key(nodes[j:j + z])))
            j += max(1, z - 1)
        for _ in range(rng.randint(0, 3)):
            ops.append(edge_op(hg_key(rng.sample(nodes, rng.choice([2, 2, 3])))))
        rng.shuffle(ops)
        yield n, ops


# ---------------------------------------------------------------------------------------------
def run(tier, seed):
    res = Result(PROP, tier, seed, "model_checking")
    rng = random.Random(seed * 9176 + 3)
    quick = tier == "quick"
    t0 = time.time()
    pool = cf.ThreadPoolExecutor(max_workers=1)
    fut = pool.submit(explore, res, tier)           # the design is explored while the real objects are observed

    cases = {k: [] for k in ("hg", "dir", "temp", "mux")}
    descr = {k: [] for k in cases}
    inexact = []
    counters = {"visit_calls": 0, "corr_matrices": 0, "corr_defined_cells": 0, "corr_skipped_too_large": 0,
                "similarity_pairs": 0, "overlap_calls": 0, "cc_module_level_records": 0, "histories": 0}

    def add(kind, c, d):
        cases[kind].append(c)
        descr[kind].append(d)

    def observe_hg(b, obj, n, ops, fam, weighted, origin, depths, with_cc=True):
        st = b.state(obj)
        d = {"kind": "hg", "n": n, "family": fam, "labels": b.labels, "weighted": weighted, "calls": ops, "origin": origin}
        v = obs_visits(b, obj, st, n, rng, depths)
        counters["visit_calls"] += len(v)
        add("hg", {"st": st, "visits": v}, dict(d, part="visits"))
        c = dict(obs_degrees(b, obj, st, n, "hg"), st=st)
        if st["edges"]:
            if corr_guard(st):
                try:
                    c["corr"], ok = obs_corr(obj, st)
                    counters["corr_matrices"] += 1
                    counters["corr_defined_cells"] += sum(1 for x in c["corr"]["cells"] if not x["nan"])
                    if not ok:
                        inexact.append(dict(d, part="degree_correlation"))
                except Exception:
                    c["corr"] = {"rows": -1, "cols": -1, "cells": []}
            else:
                counters["corr_skipped_too_large"] += 1
        s, ok = obs_sims(b, st, n, rng, 12 if quick else 30)
        if not ok:
            inexact.append(dict(d, part="jaccard"))
        counters["similarity_pairs"] += len(s)
        c["sims"] = s
        add("hg", c, dict(d, part="degrees+similarity"))
        if with_cc:
            cc, ok = obs_cc(b, obj, n)
            counters["cc_module_level_records"] += len(cc)
            add("hg", {"st": st, "cc": cc, "ccok": ok}, dict(d, part="cc"))

    # (i) every small hypergraph on 4 nodes (thorough) / a sample (quick): the shapes TLC explores, as real objects
    smalls = list(small_hypergraphs(3 if quick else 4))
    if quick:
        smalls = rng.sample(smalls, 45)
    for i, ops in enumerate(smalls):
        fam = FAMS[i % len(FAMS)]
        ops = list(ops)
        rng.shuffle(ops)
        b, obj, done = build("hg", False, fam, 4, ops, rng)
        observe_hg(b, obj, 4, done, fam, False, "all-small-hypergraphs-on-4-nodes", [-1, 0, 1, 2, 3], with_cc=(i % 3 == 0))
    # (ii) sparse hypergraphs with long paths, under every family
    for i, (n, ops) in enumerate(paths_and_cycles(rng, 40 if quick else 700)):
        fam = FAMS[i % len(FAMS)]
        w = i % 4 == 1
        if w:
            ops = [dict(o, w=rng.choice([1, 2, 3])) for o in ops]
        b, obj, done = build("hg", w, fam, n, ops, rng)
        observe_hg(b, obj, n, done, fam, w, "paths-with-chords", [-1, 0, 1, 2, 3, rng.choice([4, 5, n])], with_cc=(i % 2 == 0))
    # (iii) histories (insert / remove / re-insert / remove node) on every class
    plan = {"hg": 45 if quick else 600, "dir": 25 if quick else 300, "temp": 25 if quick else 300, "mux": 25 if quick else 300}
    for kind, count in plan.items():
        for i in range(count):
            n = rng.choice([3, 4, 5, 5, 6] if kind == "hg" else [3, 4, 5])
            fam = FAMS[(i + 2) % len(FAMS)]
            w = i % 3 == 1
            ops = history(kind, w, n, rng, rng.randint(4, 14))
            b, obj, done = build(kind, w, fam, n, ops, rng)
            counters["histories"] += 1
            if kind == "hg":
                observe_hg(b, obj, n, done, fam, w, "history", [-1, 0, 1, 2, rng.choice([3, 4])])
                continue
            st = b.state(obj)
            d = {"kind": kind, "n": n, "family": fam, "labels": b.labels, "weighted": w, "calls": done, "origin": "history"}
            c = dict(obs_degrees(b, obj, st, n, kind), st=st)
            if kind in ("dir", "temp"):
                c["iso"] = obs_iso(b, obj, n)
            if kind == "mux":
                c["overlap"] = obs_overlap(b, obj, st, n, rng)
                counters["overlap_calls"] += len(c["overlap"])
            add(kind, c, dict(d, part="degrees" + ("+isolated" if kind != "mux" else "+overlap")))
    tbind = time.time() - t0

    # 3. validation by TLC, one batch set per class (Kind is a constant of the specification)
    vstates = 0
    ncases = 0
    t1 = time.time()
    with cf.ThreadPoolExecutor(max_workers=4) as ex:
        futs = {k: ex.submit(K.run_cases, "Trace_X03", cases[k], {"Kind": k}, 10 if k == "hg" else 3) for k in cases if cases[k]}
        verdicts = {k: f.result() for k, f in futs.items()}
    for kind, v in verdicts.items():
        vstates += v["states"]
        ncases += len(cases[kind])
        for idx, failed in v["rejects"]:
            d, c = descr[kind][idx], cases[kind][idx]
            groups = [[f for f in failed if f != DISPUTED]] + ([[DISPUTED]] if DISPUTED in failed else [])
            for g in groups:
                if not g:
                    continue
                what = "%s: %s of a %d-node %s%s (labels %s, %s) disagree(s) with Visits.tla" % (
                    kind, ",".join(g), d["n"], "weighted " if d["weighted"] else "", d["origin"], d["labels"], d["part"])
                payload = {"case": d, "state": c["st"], "failing_clauses": g}
                if g == [DISPUTED]:
                    ex_ = _dfs_example(c)
                    what += "; e.g. %s" % ex_
                    payload["example"] = ex_
                else:
                    payload["logged"] = {k_: v_ for k_, v_ in c.items() if k_ not in ("st", "visits")}
                    if "visits" in c:
                        payload["logged_visits"] = c["visits"][:80]
                res.reject({"kind": kind, "clauses": g}, what, payload)
    for d in inexact[:1]:
        res.reject({"kind": d["kind"], "clauses": ["float_is_small_fraction"]},
                   "a returned float (%s) is not the float of the small fraction the statement gives: %s" % (d["part"], d["calls"]),
                   {"case": d})
    fut.result()
    pool.shutdown()
    res.cov(traces_validated_against_impl=ncases, validator_states=vstates,
            objects=sum(1 for k in descr for d in descr[k] if d["part"] not in ("cc", "visits")),
            cases_by_class={k: len(v) for k, v in cases.items()},
            label_families=len(FAMS), bind_s=round(tbind, 1), validate_s=round(time.time() - t1, 1), **counters)
    hgv = [c for c in cases["hg"] if "visits" in c]
    if hgv:
        c = hgv[len(hgv) // 2]
        res.sample({"labels": descr["hg"][cases["hg"].index(c)]["labels"], "hyperedges": [e["k"]["s"] for e in c["st"]["edges"]],
                    "visits": [r for r in c["visits"] if r["md"] == 2][:4]})
    res.assume("jaccard floats are compared as the nearest fraction with denominator <= 1000 (reproducing the float within 1e-12)",
               "a correlation coefficient r enters TLC as sign(r) and r*r recovered as the fraction with denominator <= 2e6 "
               "(inputs with |nodes| * sum of squared degrees above 1414 are not observed); TLC compares it with Cov^2/(Var*Var) in lowest terms",
               "a constant degree sequence leaves the coefficient undefined: any value (NaN in practice) is accepted there",
               "jaccard of two empty sets is undefined: raising or any value is accepted",
               "depth-limited _dfs: only `inside the ball, start and direct neighbours present` is demanded without dispute; "
               "`= Ball` is the clause dfs_ball_bounded_depth (candidate defect X03-D1, own signature)",
               "measures/multiplex/degree.py defines no function; its per-layer degree exists in the specification only (MuxLaws)")
    return res.finish()


def _dfs_example(c):
    """one logged depth-limited _dfs result that differs from the _bfs result of the same call (display only)"""
    bfs = {(r["n"], r["md"], tuple(r["f"])): r["res"] for r in c.get("visits", []) if r["algo"] == "bfs"}
    for r in c.get("visits", []):
        if r["algo"] == "dfs" and r["md"] >= 0 and not r["raised"]:
            o = bfs.get((r["n"], r["md"], tuple(r["f"])))
            if o is not None and o != r["res"]:
                return "hyperedges %s: _dfs(start=%d, max_depth=%d, filter=%s) = %s but _bfs = %s (spec node ids)" % (
                    [e["k"]["s"] for e in c["st"]["edges"]], r["n"], r["md"], r["f"], r["res"], o)
    return "(no differing pair logged)"
