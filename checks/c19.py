"""C19 - Filters keep exactly what criteria say; validation p-values follow definition."""
from checks.containers import run_container, explore
from harness.verdict import Result


def run(tier, seed):
    res = Result("C19", tier, seed, "model_checking")
    kinds = (("hg", None), ("temp", [0, 1]), ("mux", ["L1", "L2"])) if tier == "thorough" else \
            (("hg", None), ("temp", [1]), ("mux", ["L1"]))
    for kind, xs in kinds:
        explore(res, kind, tier, module="MC_Derive", invariants=["KeepRemoveDual", "FilterSound"],
                configs=[dict(n=2, maxw=1, batches=False, metaops=True, xs=xs, mvals=("1",))])
    for kind in ("hg", "dir", "temp", "mux"):
        run_container("C19", kind, tier, seed, res=res, finish=False, do_explore=False, queries=False,
                      plan={"filter": 0.4}, own_ops={"filter"}, scale=0.35 if tier == "quick" else 1.0)
    from checks import c19_svh
    c19_svh.run(res, tier, seed)
    return res.finish()


def replay(path):
    from checks.containers import replay_container
    return replay_container("C19", path)
