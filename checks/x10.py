"""X10 - which Master Stability Function is evaluated (extension; statements in spec/ext/SynchDispatch.tla).

1. explore   TLC, exhaustive: MC_SynchDispatch = the bounded container model + "one count per order is the set statement",
             the laws of all-to-all hypergraphs, totality / exclusiveness of the dispatch; two plausible statements that
             do not hold are kept as configurations TLC must refute
2. bind      real Hypergraph objects (2-5 nodes; complete up to a size, almost complete, with an isolated node, weighted,
             random histories with removals; several label families); real calls of is_all_to_all, is_natural_coupling and
             higher_order_MSF with the two numerical integrators (MSF, MSF_multi_coupling) replaced by recorders in the
             namespace of dynamics/synch.py - the decision, the number of integrations and their arguments are logged
3. validate  TLC evaluates Trace_X10!X10Clauses on every case
"""
import concurrent.futures as cf
import io
import itertools
import random
import time
import warnings
from contextlib import redirect_stdout

import numpy as np

from harness import cases as K
from harness import containers as C
from harness import tlc
from harness.binding import Binding, LABEL_FAMILIES
from harness.verdict import Result

PROP = "X10"
FAMS = ("ident", "sparse", "str", "zero", "neg")
LAWS = ["SDCountIsSet", "SDAllToAllLaws", "SDSingletonsIgnored", "SDDispatch"]
FN = {"all_to_all": "is_all_to_all", "natural_coupling": "is_natural_coupling", "msf": "higher_order_MSF"}
COUPLINGS = [[1], [1, 1], [1, 2], [2, 2], [1, 1, 1], [1, 1, 2], [2, 1, 1], [1, 2, 1], [3, 3, 3]]
DIM = 2
JAC = {1: np.array([[1, 0], [0, 0]]), 2: np.array([[0, 0], [0, 1]]), 3: np.array([[1, 0], [0, 0]]) * 2}


# ---------------------------------------------------------------------------------------------
# 1. the design
def _explore_one(job):
    name, n, weighted, inv, must_fail = job
    c = C.consts("hg", weighted, n=n, maxw=1, batches=False, metaops=False)
    cfg = tlc.cfg_text(c, init="Init", next_="Next", invariants=inv, constraints=["Bound"])
    r = tlc.run("MC_SynchDispatch", cfg, workers=6, timeout=1500, heap="4g")
    s = tlc.stats(r["out"]) or {"generated": 0, "distinct": 0}
    rec = {"module": "MC_SynchDispatch", "config": name, "nodes": n, "weighted": weighted, "invariants": inv,
           "states": s["distinct"], "transitions": s["generated"], "wall_s": round(r["wall"], 1)}
    if must_fail:
        if tlc.ok_exploration(r) or "Invariant %s is violated" % inv[0] not in r["out"]:
            raise tlc.TLCError("%s was NOT refuted by TLC (%s):\n%s" % (inv[0], name, tlc.error_excerpt(r["out"])))
        rec["refuted"] = True
    elif not tlc.ok_exploration(r):
        raise tlc.TLCError("MC_SynchDispatch %s failed:\n%s" % (name, tlc.error_excerpt(r["out"])))
    return rec


def explore_jobs(tier):
    jobs = [("hg3", 3, False, LAWS, False), ("hg3-weighted", 3, True, ["SDCountIsSet", "SDDispatch"], False)]
    if tier != "quick":
        jobs.append(("hg4", 4, False, LAWS, False))
    jobs.append(("hg3 pairwise adjacent => all-to-all (must fail)", 3, False, ["SDNotPairwiseAdjacent"], True))
    jobs.append(("hg3 all-to-all => uniform (must fail)", 3, False, ["SDNotUniform"], True))
    return jobs


def explore(res, tier):
    jobs = explore_jobs(tier)
    with cf.ThreadPoolExecutor(max_workers=len(jobs)) as ex:
        recs = list(ex.map(_explore_one, jobs))
    ok = [r for r in recs if not r.get("refuted")]
    res.cov(states=sum(r["states"] for r in ok), transitions=sum(r["transitions"] for r in ok))
    res.coverage.setdefault("explorations", []).extend(recs)
    res.coverage["invariants"] = sorted({i for r in ok for i in r["invariants"]})
    res.cov(spec_variants_refuted=[r["config"] for r in recs if r.get("refuted")])


# ---------------------------------------------------------------------------------------------
# 2. real objects
def edge_op(s, w=1):
    return {"op": "add_edge", "k": {"s": sorted(s), "t": [], "x": 0}, "w": w, "hasmd": False, "md": {}, "bad": ""}


def complete(nodes, m):
    return [s for z in range(2, m + 1) for s in itertools.combinations(nodes, z)]


def gen(rng, origin, n):
    nodes = list(range(1, n + 1))
    ops = []
    if origin == "history":
        recent = []
        for _ in range(rng.randint(2, 12)):
            r = rng.random()
            s = rng.choice(recent) if recent and r < 0.25 else tuple(sorted(rng.sample(nodes, min(n, rng.choice([1, 2, 2, 2, 3, 4])))))
            recent.append(s)
            if r > 0.9:
                ops.append({"op": "remove_edge", "k": {"s": list(s), "t": [], "x": 0}})
            elif r > 0.84:
                ops.append({"op": "add_node", "n": rng.choice(nodes), "hasmd": False, "md": {}})
            elif r > 0.8:
                ops.append({"op": "remove_node", "n": rng.choice(nodes), "keep": rng.random() < 0.5})
            else:
                ops.append(edge_op(s))
        return ops
    m = rng.randint(2, n)
    full = complete(nodes, m)
    rng.shuffle(full)
    sets = list(full)
    if origin == "minus_one" and len(sets) > 1:
        sets.pop(rng.randrange(len(sets)))
    elif origin == "skip_a_size" and m + 2 <= n:
        sets.append(tuple(nodes[:m + 2]))
    elif origin == "top_incomplete" and m + 1 <= n:
        sets.append(tuple(sorted(rng.sample(nodes, m + 1))))
    ops = [edge_op(s) for s in sets]
    for _ in range(rng.randint(0, 2)):                       # singleton hyperedges are not looked at
        ops.insert(rng.randrange(len(ops) + 1), edge_op((rng.choice(nodes),)))
    if origin == "detour":                                   # something extra comes and goes
        extra = tuple(sorted(rng.sample(nodes, min(n, m + 1)))) if m < n else None
        if extra:
            ops.insert(rng.randrange(len(ops) + 1), edge_op(extra))
            ops.append({"op": "remove_edge", "k": {"s": list(extra), "t": [], "x": 0}})
    if origin == "isolated":                                 # an isolated node counts in N
        ops.insert(rng.randrange(len(ops) + 1), {"op": "add_node", "n": n + 1, "hasmd": False, "md": {}})
    if origin == "node_removed":                             # complete on n+1 nodes, one node removed with its hyperedges
        ops = [edge_op(s) for s in complete(nodes + [n + 1], m)]
        rng.shuffle(ops)
        ops.append({"op": "remove_node", "n": rng.choice(nodes + [n + 1]), "keep": False})
    return ops


def build(fam, n, weighted, ops, rng):
    b = Binding("hg", LABEL_FAMILIES[fam](n + 2), rng)
    obj = b.new(weighted)
    done = []
    for o in ops:
        if not b.supported(o) or b.corner(o, obj):
            continue
        b.apply(obj, o)
        done.append(o)
    return b, obj, done


class Recorder:
    """stands in for MSF / MSF_multi_coupling inside dynamics/synch.py: records what would be integrated"""

    def __init__(self, given, jhs):
        self.given, self.jhs, self.single, self.multi = given, jhs, [], []

    def _interval(self, interval):
        pts = list(np.asarray(interval, dtype=float).ravel())
        pt = -1
        if len(pts) == 1 and float(pts[0]).is_integer() and 0 <= pts[0] < 2 ** 30:
            pt = int(pts[0])
        return {"npts": len(pts), "given": interval is self.given, "pt": pt}

    def _jid(self, jh):
        for i, f in self.jhs.items():
            if jh is f:
                return i
        return 0

    def msf(self, F, JF, params, interval, JH, X0, *rest):
        self.single.append(dict(self._interval(interval), jh=self._jid(JH)))
        return ("msf", len(self.single))

    def multi_(self, F, JF, params, interval, sigmas, N, JHs, X0, *rest):
        self.multi.append(dict(self._interval(interval), jh=0))
        return ("msf_multi", len(self.multi))


def observe(S, U, b, obj, rng, quick):
    st = b.state(obj)
    c = {"st": st, "nat": [], "msf": []}
    sink = io.StringIO()
    verbose = rng.random() < 0.5
    r = {"ok": True, "val": False}
    try:
        with redirect_stdout(sink):
            v = U.is_all_to_all(obj, verbose=verbose)
        if not isinstance(v, (bool, np.bool_)):
            raise TypeError("returned %r" % (v,))
        r["val"] = bool(v)
    except Exception as ex:
        r.update(ok=False, exception="%s: %s" % (type(ex).__name__, str(ex)[:120]))
    c["a2a"] = r
    funcs = {i: (lambda X, A=A: A) for i, A in JAC.items()}
    for js in rng.sample(COUPLINGS, 3 if quick else 5):
        r = {"js": js, "ok": True, "val": False}
        try:
            with redirect_stdout(sink):
                v = U.is_natural_coupling([funcs[i] for i in js], DIM, verbose=verbose)
            r["val"] = bool(v)
        except Exception as ex:
            r.update(ok=False, exception="%s: %s" % (type(ex).__name__, str(ex)[:120]))
        c["nat"].append(r)
    sizes = [len(e["k"]["s"]) for e in st["edges"]]
    if not sizes or max(sizes) < 2:
        return c
    for js in rng.sample(COUPLINGS, 2 if quick else 4):
        for df in (True, False):
            natural = len(set(js)) == 1
            if st["wtd"] and natural and df:
                continue              # the multiorder Laplacian of a weighted hypergraph: outside the statement
            s1 = rng.choice([1, 2, 3, 5])
            sigmas = [float(s1)] + [float(rng.choice([1, 2, 4])) for _ in range(max(sizes))]
            interval = np.linspace(0.0, 3.0, rng.choice([2, 3, 7]))
            rec = Recorder(interval, funcs)
            old = S.MSF, S.MSF_multi_coupling
            S.MSF, S.MSF_multi_coupling = rec.msf, rec.multi_
            r = {"js": js, "df": df, "s1": s1, "nint": len(interval), "ok": True, "none": False, "tuple": False, "nspec": -1,
                 "last": -1, "same": True}
            try:
                with redirect_stdout(sink):
                    out = S.higher_order_MSF(obj, DIM, None, None, (), sigmas, [funcs[i] for i in js], np.zeros(DIM), interval,
                                             diffusive_like=df, integration_time=1.0, integration_step=0.5, C=1, verbose=verbose)
                r["none"] = out is None
                if isinstance(out, tuple) and len(out) == 3:
                    first = ("msf", 1) if rec.single else ("msf_multi", 1)
                    r["tuple"] = bool(out[0] == first and out[1] == (first[0], 2))
                    spec = list(np.asarray(out[2], dtype=float).ravel())
                    r["nspec"] = len(spec)
                    if len(spec) == 1 and float(spec[0]).is_integer() and 0 <= spec[0] < 2 ** 30:
                        r["last"] = int(spec[0])
                    if rec.single and len(spec) >= 1:        # a Laplacian spectrum: ascending, smallest eigenvalue 0
                        r["tuple"] = bool(r["tuple"] and abs(spec[0]) < 1e-8 and all(spec[i] <= spec[i + 1] + 1e-12 for i in range(len(spec) - 1)))
            except Exception as ex:
                r.update(ok=False, exception="%s: %s" % (type(ex).__name__, str(ex)[:120]))
            finally:
                S.MSF, S.MSF_multi_coupling = old
            r["single"], r["multi"] = rec.single, rec.multi
            r["same"] = b.state(obj) == st
            c["msf"].append(r)
    return c


# ---------------------------------------------------------------------------------------------
def run(tier, seed):
    import hypergraphx.dynamics.synch as S
    import hypergraphx.dynamics.utils as U
    res = Result(PROP, tier, seed, "model_checking")
    rng = random.Random(seed * 6173 + 10)
    np.random.seed(seed)
    quick = tier == "quick"
    warnings.simplefilter("ignore", FutureWarning)
    t0 = time.time()
    pool = cf.ThreadPoolExecutor(max_workers=1)
    fut = pool.submit(explore, res, tier)

    origins = ["complete", "complete", "minus_one", "skip_a_size", "top_incomplete", "detour", "isolated", "node_removed", "history", "history"]
    cases, descr = [], []
    counters = {"objects": 0, "all_to_all_objects": 0, "natural_calls": 0, "msf_calls": 0, "branch_single": 0, "branch_multi": 0,
                "branch_none": 0}
    total = 120 if quick else 1200
    for i in range(total):
        origin = origins[i % len(origins)]
        n = rng.choice([2, 3, 3, 4, 4, 5])
        fam = FAMS[(i // len(origins)) % len(FAMS)]
        weighted = i % 7 == 3
        ops = gen(rng, origin, n)
        b, obj, done = build(fam, n, weighted, ops, rng)
        c = observe(S, U, b, obj, rng, quick)
        c["id"] = i
        cases.append(c)
        descr.append({"n": n, "family": fam, "labels": b.labels, "weighted": weighted, "origin": origin, "calls": done})
        counters["objects"] += 1
        counters["all_to_all_objects"] += int(c["a2a"]["ok"] and c["a2a"]["val"])
        counters["natural_calls"] += len(c["nat"])
        counters["msf_calls"] += len(c["msf"])
        for r in c["msf"]:
            counters["branch_single" if r["single"] else "branch_multi" if r["multi"] else "branch_none"] += 1
    tbind = time.time() - t0

    t1 = time.time()
    v = K.run_cases("Trace_X10", cases, {"Kind": "hg"}, 8 if quick else 14)
    for idx, failed in v["rejects"]:
        d, c = descr[idx], cases[idx]
        groups = {}
        for f in failed:
            fn = next((name for p, name in FN.items() if f.startswith(p)), "?")
            groups.setdefault(fn, []).append(f)
        for fn, cl in groups.items():
            edges = sorted(e["k"]["s"] for e in c["st"]["edges"])
            what = "%s: %s on a %d-node %shypergraph (labels %s, %s) disagree(s) with SynchDispatch.tla; nodes %s hyperedges (spec nodes) %s" % (
                fn, ",".join(sorted(cl)), len(c["st"]["nodes"]), "weighted " if d["weighted"] else "", d["labels"], d["origin"],
                c["st"]["nodes"], edges)
            exs = sorted({r.get("exception") for r in [c["a2a"]] + c["nat"] + c["msf"] if r.get("exception")})
            if exs:
                what += "; exceptions: %s" % exs[:3]
            res.reject({"function": fn, "clauses": sorted(cl)}, what,
                       {"case": d, "state": c["st"], "failing_clauses": sorted(cl), "logged": {k_: v_ for k_, v_ in c.items() if k_ != "st"}})
    fut.result()
    pool.shutdown()
    res.cov(traces_validated_against_impl=len(cases), validator_states=v["states"], label_families=len(FAMS),
            bind_s=round(tbind, 1), validate_s=round(time.time() - t1, 1), **counters)
    for k in [k for k, c in enumerate(cases) if c["msf"]][:2]:
        c = cases[k]
        res.sample({"labels": descr[k]["labels"], "origin": descr[k]["origin"], "hyperedges (spec nodes)": sorted(e["k"]["s"] for e in c["st"]["edges"]),
                    "is_all_to_all": c["a2a"], "higher_order_MSF": c["msf"][:2]})
    res.assume("the numerical integrations (MSF, MSF_multi_coupling, Sprott's algorithm on floats) are replaced by recorders: X10 decides "
               "which one higher_order_MSF calls, how often and on which interval, not the Lyapunov exponents",
               "coupling Jacobians are constant integer matrices named by an id; is_natural_coupling compares them at one random point",
               "a hypergraph without hyperedges (max_order of nothing raises): nothing demanded; higher_order_MSF is exercised on "
               "hypergraphs with a hyperedge of at least two nodes; weighted hypergraphs only outside the single-parameter branch",
               "in the single-parameter branch the returned spectrum is checked for length N, ascending order and a zero smallest "
               "eigenvalue (floats, in Python); its other values are those of compute_multiorder_laplacian (X01)")
    return res.finish()
