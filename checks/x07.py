"""X07 - hyperlink communities, core-periphery scores and the community utilities (extension; statements in
spec/ext/Communities.tla).

1. explore   TLC, exhaustive (spec/mc/MC_Communities.tla): the agglomerative merge machine under the linkage rule the
             code passes to scipy (method="average") from every small set of hyperedges, every tie-breaking order
             (every run ends in one cluster, heights never decrease, below height 1 clusters stay inside a component of
             the line graph and equal the components when the minimum distance reaches 1, cuts are nested and are what
             the validator's HLReachAt accepts, unique without ties); the greedy matching machine behind
             calculate_permutation_matrix against ALL K! permutations; laws of the profile / normalisation / Jaccard
             distance; five probes that TLC must refute (ties exist, cuts are not always unique, runs do not stop at the
             components, greedy is not the best total, greedy is not always lexicographically largest)
2. bind      real Hypergraph objects of 3-7 nodes built with histories under nine label families; real calls of
             hyperlink_communities / _cut_dendrogram / get_num_hyperlink_communties / overlapping_communities,
             core_periphery (+ transition_function), normalize_array, calculate_permutation_matrix; heights, scores and
             quotients logged as exact fractions (limit_denominator, checked to reproduce the float)
3. validate  TLC evaluates Trace_X07!X07Clauses on every case
"""
import concurrent.futures as cf
import contextlib
import itertools
import math
import os
import random
import shutil
import tempfile
import time
from fractions import Fraction

import numpy as np

from harness import cases as K
from harness import tlc
from harness.binding import Binding, LABEL_FAMILIES, quiet
from harness.verdict import Result

PROP = "X07"
FAMS = ("ident", "sparse", "str", "zero", "big", "neg", "long", "cat", "scat")
MAX_LEAVES = 8                 # hyperedges of the largest component (HLScale = lcm(1..7), 32-bit cross-multiplications)
HDEN = 20000                   # heights are k / (420 * |A| * |B|) <= 6720 in lowest terms

# candidate defects: each has its own signature
D1 = ("hyperlink_communities_runs_with_default_arguments", "saved_distances_are_read_back")
D2 = ("overlapping_on_disconnected_input",)
D3 = ("cp_scores_every_node",)

MERGE_INV = ["MergeShape", "MergeProgress", "HeightsMonotone", "ComponentsAtOne", "RootHeight", "CutsWellDefined", "CutsReachable"]
PERM_INV = ["PMProgress", "PMShape", "PMOutcome"]
LAW_INV = ["TFLaws", "NormLaws", "JaccardLawsX"]
PROBES = [("merge", "NeverTie"), ("merge", "CutAlwaysUnique"), ("merge", "StopsAtComponents"),
          ("perm", "PMGreedyIsOptimal"), ("perm", "PMAlwaysLexMax")]


# ---------------------------------------------------------------------------------------------
# 1. the design
def _consts(**kw):
    c = {"Kind": "hg", "Part": "merge", "Node": {1, 2, 3, 4}, "ESizes": {1, 2, 3, 4}, "MinE": 2, "MaxE": 3,
         "Linkage": "average", "PK": 2, "MaxV": 2, "TFN": {3}, "TFD": 4}
    c.update(kw)
    return c


def explore_jobs(tier):
    if tier == "quick":
        return [("merge-4nodes-3edges", _consts(MaxE=3), MERGE_INV),
                ("merge-4nodes-4edges-sizes23", _consts(MaxE=4, ESizes={2, 3}), MERGE_INV),
                ("perm-2x2-upto3", _consts(Part="perm", PK=2, MaxV=3), PERM_INV),
                ("perm-3x3-upto1", _consts(Part="perm", PK=3, MaxV=1), PERM_INV),
                ("laws", _consts(Part="laws", TFN={1, 2, 3, 4, 5}, TFD=4), LAW_INV)]
    return [("merge-4nodes-5edges", _consts(MaxE=5), MERGE_INV),
            ("merge-5nodes-4edges-sizes23", _consts(Node={1, 2, 3, 4, 5}, MaxE=4, ESizes={2, 3}), MERGE_INV),
            ("merge-6nodes-3edges-sizes234", _consts(Node={1, 2, 3, 4, 5, 6}, MaxE=3, ESizes={2, 3, 4}), MERGE_INV),
            ("perm-2x2-upto5", _consts(Part="perm", PK=2, MaxV=5), PERM_INV),
            ("perm-3x3-upto2", _consts(Part="perm", PK=3, MaxV=2), PERM_INV),
            ("laws", _consts(Part="laws", Node={1, 2, 3, 4, 5}, TFN={1, 2, 3, 4, 5, 6, 7}, TFD=8), LAW_INV)]


def _explore_one(job):
    name, consts, inv = job
    r = tlc.run("MC_Communities", tlc.cfg_text(consts, invariants=inv), workers=4, timeout=2400, heap="4g")
    if not tlc.ok_exploration(r):
        raise tlc.TLCError("MC_Communities %s failed:\n%s" % (name, tlc.error_excerpt(r["out"])))
    s = tlc.stats(r["out"]) or {"generated": 0, "distinct": 0}
    return {"module": "MC_Communities", "config": name, "part": consts["Part"], "invariants": inv,
            "states": s["distinct"], "transitions": s["generated"], "wall_s": round(r["wall"], 1)}


def _probe(p):
    part, inv = p
    c = _consts(Part=part, MaxE=3, PK=2, MaxV=3)
    r = tlc.run("MC_Communities", tlc.cfg_text(c, invariants=[inv]), workers=2, timeout=900)
    if "Invariant %s is violated" % inv not in r["out"]:
        raise tlc.TLCError("MC_Communities: the probe %s was expected to be violated (non-vacuity)\n%s"
                           % (inv, tlc.error_excerpt(r["out"])))
    return inv


def explore(res, tier):
    jobs = explore_jobs(tier)
    with cf.ThreadPoolExecutor(max_workers=3) as ex:
        pr = [ex.submit(_probe, p) for p in PROBES]
        recs = list(ex.map(_explore_one, jobs))
        probes = [p.result() for p in pr]
    res.cov(states=sum(r["states"] for r in recs), transitions=sum(r["transitions"] for r in recs))
    res.coverage["explorations"] = recs
    res.coverage["invariants"] = sorted({i for r in recs for i in r["invariants"]})
    res.coverage["probes_violated_as_expected"] = probes


# ---------------------------------------------------------------------------------------------
# 2. real objects
def edge_op(k, w=0):
    return {"op": "add_edge", "k": k, "w": w, "hasmd": False, "md": {}, "bad": ""}


def hg_key(nodes):
    return {"s": sorted(nodes), "t": [], "x": 0}


def history(weighted, n, rng, length):
    """structural calls only (insert / remove / re-insert / remove node / add node), spec-level format"""
    u = list(range(1, n + 1))
    ops, recent = [], []

    def key():
        if recent and rng.random() < 0.35:
            return dict(rng.choice(recent))
        z = rng.choice([1, 2, 2, 2, 3, 3, 4]) if n >= 4 else rng.randint(1, n)
        k = hg_key(rng.sample(u, min(z, n)))
        recent.append(k)
        del recent[:-6]
        return k

    for _ in range(length):
        r = rng.random()
        if r < 0.66:
            ops.append(edge_op(key(), rng.choice([1, 2, 3]) if weighted else 0))
        elif r < 0.76:
            its = [dict(edge_op(key(), rng.choice([1, 2, 3]) if weighted else 0)) for _ in range(rng.randint(2, 3))]
            for it in its:
                it.pop("op")
            ops.append({"op": "add_edges", "items": its})
        elif r < 0.88:
            ops.append({"op": "remove_edge", "k": key()})
        elif r < 0.94:
            ops.append({"op": "remove_node", "n": rng.choice(u), "keep": rng.random() < 0.3})
        else:
            ops.append({"op": "add_node", "n": rng.choice(u), "hasmd": False, "md": {}})
    return ops


def chains(rng, count):
    """5-7 nodes: a path of overlapping hyperedges plus chords; sometimes a small second component and an isolated
    node (the dendrogram is the one of the largest component)"""
    for _ in range(count):
        n = rng.choice([5, 6, 6, 7, 7])
        nodes = list(range(1, n + 1))
        rng.shuffle(nodes)
        split = rng.random() < 0.45
        main = nodes[:n - 2] if split and n >= 6 else (nodes[:n - 1] if split else nodes)
        rest = [x for x in nodes if x not in main]
        ops, j = [], 0
        while j < len(main) - 1 and len(ops) < 5:
            z = rng.choice([2, 2, 3, 3])
            ops.append(edge_op(hg_key(main[j:j + z])))
            j += max(1, z - rng.choice([1, 1, 2]))
        for _ in range(rng.randint(0, 2)):
            ops.append(edge_op(hg_key(rng.sample(main, rng.choice([2, 2, 3, 1])))))
        if len(rest) >= 2:
            ops.append(edge_op(hg_key(rest[:2])))
        elif rest:
            ops.append({"op": "add_node", "n": rest[0], "hasmd": False, "md": {}})
        rng.shuffle(ops)
        yield n, ops


def small_hypergraphs(rng, count):
    """2-4 hyperedges over 4 nodes: the shapes MC_Communities explores, as real objects"""
    es = [c for z in (1, 2, 3, 4) for c in itertools.combinations((1, 2, 3, 4), z)]
    for _ in range(count):
        sel = rng.sample(es, rng.choice([2, 3, 3, 4, 4]))
        yield 4, [edge_op(hg_key(e)) for e in sel]


def build(weighted, fam, n, ops, rng):
    b = Binding("hg", LABEL_FAMILIES[fam](n + 1), rng)
    obj = b.new(weighted)
    done = []
    for o in ops:
        if not b.supported(o) or b.corner(o, obj):
            continue
        b.apply(obj, o)
        done.append(o)
    return b, obj, done


def frac(x, den, tol=1e-12):
    f = Fraction(float(x)).limit_denominator(den)
    return f, abs(float(f) - float(x)) <= tol


@contextlib.contextmanager
def stubbed_distance_files(mod):
    """hyperlink_communities reads / writes its distance matrix through readwrite._load_pickle / _save_pickle; with
    the stubs the call behaves as `no file to load, nothing saved` whatever those helpers do (candidate defect X07-D1
    is observed separately, without the stubs)"""
    saved = {k: getattr(mod, k) for k in ("_load_pickle", "_save_pickle") if hasattr(mod, k)}

    def _nofile(name, *a, **k):
        raise FileNotFoundError(name)

    try:
        for k in saved:
            setattr(mod, k, _nofile if k == "_load_pickle" else (lambda *a, **kw: None))
        yield
    finally:
        for k, v in saved.items():
            setattr(mod, k, v)


@contextlib.contextmanager
def in_scratch_dir():
    old = os.getcwd()
    d = tempfile.mkdtemp(prefix="x07-", dir=tlc.workdir("x07io"))
    os.chdir(d)
    try:
        yield d
    finally:
        os.chdir(old)
        shutil.rmtree(os.path.dirname(d), ignore_errors=True)


def obs_io(obj):
    """the function as a user calls it: default arguments; save the distances, read them back"""
    import hypergraphx.communities.hyperlink_comm.hyperlink_communities as HC
    io = {"defaults": False, "roundtrip": False, "errors": []}
    with in_scratch_dir() as d:
        try:
            with quiet():
                z = HC.hyperlink_communities(obj)
            io["defaults"] = isinstance(z, np.ndarray)
        except Exception as ex:
            io["errors"].append("defaults: %s: %s" % (type(ex).__name__, str(ex)[:160]))
        try:
            p = os.path.join(d, "dist")
            with quiet():
                z1 = HC.hyperlink_communities(obj, save_distances=p)
                z2 = HC.hyperlink_communities(obj, load_distances=p)
            io["roundtrip"] = bool(np.array_equal(z1, z2)) and any(f.startswith("dist") for f in os.listdir(d))
        except Exception as ex:
            io["errors"].append("save/load: %s: %s" % (type(ex).__name__, str(ex)[:160]))
    return io


def cut_heights(hs, rng, limit):
    """rational cut heights: 0, the merge heights themselves, a small fraction strictly between consecutive distinct
    heights, 1 and 3/2"""
    ds = sorted(set(hs))
    out = {Fraction(0), Fraction(1), Fraction(3, 2)} | set(ds)
    prev = Fraction(0)
    for h in ds + [Fraction(1)]:
        if h > prev:
            mid = ((prev + h) / 2).limit_denominator(1000)
            if prev < mid < h:
                out.add(mid)
        prev = max(prev, h)
    out = sorted(out)
    if len(out) > limit:
        keep = {Fraction(0), Fraction(1)}
        out = sorted(keep | set(rng.sample([q for q in out if q not in keep], limit - 2)))
    return out


def obs_hyperlink(b, obj, rng, ncuts):
    """-> (case fields, inexact?) or None when the largest component has fewer than 2 / more than MAX_LEAVES hyperedges"""
    import hypergraphx.communities.hyperlink_comm.hyperlink_communities as HC
    with quiet():
        if obj.num_edges() < 2:
            return None
        conn = bool(obj.is_connected())
        hl = obj if conn else obj.subhypergraph(obj.largest_component())
        leaves = list(hl.get_edges())
    if not (2 <= len(leaves) <= MAX_LEAVES):
        return None
    c = {"ran": False, "conn": conn, "leaf": [sorted(b.unlab(x) for x in e) for e in leaves], "Z": [], "cuts": []}
    try:
        with stubbed_distance_files(HC), quiet():
            Z = HC.hyperlink_communities(obj)
        Z = np.asarray(Z, dtype=float)
        assert Z.ndim == 2 and Z.shape[1] == 4
    except Exception as ex:
        c["error"] = "%s: %s" % (type(ex).__name__, str(ex)[:200])
        return c, False
    c["ran"] = True
    inexact = False
    hs = []
    for row in Z:
        f, ok = frac(row[2], HDEN)
        inexact = inexact or not ok
        hs.append(f)
        c["Z"].append({"a": int(row[0]), "b": int(row[1]), "h": [f.numerator, f.denominator], "n": int(row[3])})
    for q in cut_heights(hs, rng, ncuts):
        t = 0.0 if q == 0 else float(q) + 1e-9
        rec = {"h": [q.numerator, q.denominator], "t": repr(t), "ok": False, "lab": [], "num": -1, "ovok": False, "ov": []}
        try:
            with quiet():
                lab = HC._cut_dendrogram(Z, t)
                rec["lab"] = [int(x) for x in lab]
                rec["num"] = int(HC.get_num_hyperlink_communties(Z, t))
            rec["ok"] = True
        except Exception as ex:
            rec["error"] = "%s: %s" % (type(ex).__name__, str(ex)[:120])
        for field, flag, target in (("ov", "ovok", hl),) + ((("full", "fullok", obj),) if not conn else ()):
            rec[flag] = False
            rec[field] = []
            try:
                with quiet():
                    d = HC.overlapping_communities(target, Z, t)
                rec[field] = [[b.unlab(k), [int(x) for x in v]] for k, v in d.items()]
                rec[flag] = isinstance(d, dict)
            except Exception as ex:
                rec[field + "_error"] = "%s: %s" % (type(ex).__name__, str(ex)[:120])
        c["cuts"].append(rec)
    return c, inexact


def obs_core_periphery(b, obj, rng, n_iter):
    from hypergraphx.communities.core_periphery.model import core_periphery
    runs = []
    for greedy in (False, True):
        seed = rng.randrange(1 << 30)
        r = {"greedy": greedy, "seed": seed, "n_iter": n_iter, "ok": False, "finite": False, "same": False, "keys": [], "micro": []}
        try:
            outs = []
            for _ in range(2):
                random.seed(seed)
                np.random.seed(seed % (2 ** 32))
                with quiet():
                    outs.append(core_periphery(obj, greedy_start=greedy, N_ITER=n_iter))
            d = outs[0]
            r["ok"] = isinstance(d, dict)
            r["keys"] = [b.unlab(k) for k in d]
            vals = [float(v) for v in d.values()]
            r["finite"] = all(math.isfinite(v) for v in vals)
            r["micro"] = [[b.unlab(k), int(round(float(v) * 1e6)) if math.isfinite(float(v)) else -1] for k, v in d.items()]
            r["same"] = list(outs[0].items()) == list(outs[1].items())
        except Exception as ex:
            r["error"] = "%s: %s" % (type(ex).__name__, str(ex)[:160])
        runs.append(r)
    return runs


def tf_cases(rng, count):
    from hypergraphx.communities.core_periphery.model import transition_function
    out, inexact = [], 0
    grid = [(j, 8) for j in range(8)]
    combos = [(n, a, bb) for n in range(1, 8) for a in grid for bb in grid]
    for n, a, bb in (combos if count >= len(combos) else rng.sample(combos, count)):
        c = {"N": n, "a": list(a), "b": list(bb), "vals": [], "ok": False}
        try:
            vs = [transition_function(i, n, a[0] / a[1], bb[0] / bb[1]) for i in range(1, n + 1)]
            for v in vs:
                f, ok = frac(v, 2000)
                inexact += 0 if ok else 1
                c["vals"].append([f.numerator, f.denominator])
            c["ok"] = True
        except Exception as ex:
            c["error"] = "%s: %s" % (type(ex).__name__, str(ex)[:120])
        out.append(c)
    return out, inexact


def norm_cases(rng, count):
    from hypergraphx.utils.community import normalize_array
    out, inexact = [], 0
    for i in range(count):
        r, k = rng.randint(1, 5), rng.randint(1, 4)
        u = [[rng.choice([0, 0, 1, 1, 2, 3, 4]) for _ in range(k)] for _ in range(r)]
        if rng.random() < 0.5:
            u[rng.randrange(r)] = [0] * k                      # a zero row
        if rng.random() < 0.3:
            j = rng.randrange(k)
            for row in u:
                row[j] = 0                                     # a zero column
        axis = i % 2
        arr = np.array(u, dtype=float if i % 3 else int)
        before = arr.copy()
        c = {"u": u, "axis": axis, "dtype": str(arr.dtype), "out": [], "ok": False, "unchanged": False}
        try:
            with quiet():
                o = normalize_array(arr, axis)
            o = np.asarray(o)
            c["unchanged"] = bool(np.array_equal(arr, before))
            if o.ndim == 2:
                for row in o:
                    cells = []
                    for v in row:
                        f, ok = frac(v, 1000)
                        inexact += 0 if ok else 1
                        cells.append([f.numerator, f.denominator])
                    c["out"].append(cells)
                c["ok"] = True
        except Exception as ex:
            c["error"] = "%s: %s" % (type(ex).__name__, str(ex)[:120])
        out.append(c)
    return out, inexact


def perm_cases(rng, count):
    from hypergraphx.utils.community import calculate_permutation_matrix
    out = []
    for i in range(count):
        k = rng.choice([1, 2, 2, 3, 3, 3, 4, 4, 4])
        n = rng.randint(1, 5)
        mode = ("random", "zero-one", "switched-hard", "switched-soft", "distinct")[i % 5]
        if mode == "random":
            ur = [[rng.randint(0, 3) for _ in range(k)] for _ in range(n)]
            up = [[rng.randint(0, 3) for _ in range(k)] for _ in range(n)]
        elif mode == "zero-one":                                 # many ties, empty rows / columns of the overlap
            ur = [[rng.choice([0, 0, 1]) for _ in range(k)] for _ in range(n)]
            up = [[rng.choice([0, 0, 1]) for _ in range(k)] for _ in range(n)]
        elif mode.startswith("switched"):
            n = max(n, k)
            if mode == "switched-hard":
                cols = list(range(k)) + [rng.randrange(k) for _ in range(n - k)]
                rng.shuffle(cols)
                ur = [[1 if j == cc else 0 for j in range(k)] for cc in cols]
            else:
                ur = [[rng.randint(0, 3) for _ in range(k)] for _ in range(n)]
            sigma = list(range(k))
            rng.shuffle(sigma)
            up = [[0] * k for _ in range(n)]
            for r_ in range(n):
                for cc in range(k):
                    up[r_][sigma[cc]] = ur[r_][cc]
        else:                                                     # overlaps that are pairwise distinct most of the time
            ur = [[rng.choice([0, 1, 2, 4, 5]) for _ in range(k)] for _ in range(n)]
            up = [[rng.choice([0, 1, 3, 5]) for _ in range(k)] for _ in range(n)]
        dt = float if i % 2 else int
        c = {"ur": ur, "up": up, "K": k, "mode": mode, "P": [], "ok": False, "binary": False}
        try:
            with quiet():
                p = calculate_permutation_matrix(u_ref=np.array(ur, dtype=dt), u_pred=np.array(up, dtype=dt))
            p = np.asarray(p)
            if p.ndim == 2:
                c["binary"] = bool(np.all((p == 0) | (p == 1)))
                c["P"] = [[int(v) if float(v) == int(v) else -1 for v in row] for row in p]
                c["ok"] = True
        except Exception as ex:
            c["error"] = "%s: %s" % (type(ex).__name__, str(ex)[:120])
        out.append(c)
    return out


# ---------------------------------------------------------------------------------------------
def _groups(failed):
    """failing clauses -> one list per signature (each candidate defect on its own)"""
    gs, rest = [], list(failed)
    for d in (D1, D2, D3):
        g = [f for f in rest if f in d]
        if g:
            gs.append(g)
            rest = [f for f in rest if f not in d]
    if rest:
        gs.append(rest)
    return gs


def run(tier, seed):
    res = Result(PROP, tier, seed, "model_checking")
    rng = random.Random(seed * 7919 + 7)
    quick = tier == "quick"
    t0 = time.time()
    pool = cf.ThreadPoolExecutor(max_workers=1)
    fut = pool.submit(explore, res, tier)           # the design is explored while the real objects are observed

    cases, descr = [], []
    inexact = []
    counters = {"objects": 0, "histories": 0, "dendrograms": 0, "disconnected_inputs": 0, "cuts": 0,
                "skipped_largest_component_out_of_range": 0, "core_periphery_runs": 0, "io_observations": 0}

    def add(c, d):
        cases.append(c)
        descr.append(d)

    def observe(n, ops, fam, weighted, origin, i):
        b, obj, done = build(weighted, fam, n, ops, rng)
        orng = random.Random(rng.randrange(1 << 30))      # what is observed never changes which inputs come next
        st = b.state(obj)
        counters["objects"] += 1
        d = {"n": n, "family": fam, "labels": b.labels, "weighted": weighted, "calls": done, "origin": origin,
             "hyperedges": [e["k"]["s"] for e in st["edges"]]}
        r = obs_hyperlink(b, obj, orng, 5 if quick else 8)
        if r is None:
            counters["skipped_largest_component_out_of_range"] += 1
        else:
            c, bad = r
            c["st"] = st
            counters["dendrograms"] += 1
            counters["cuts"] += len(c["cuts"])
            counters["disconnected_inputs"] += 0 if c["conn"] else 1
            if bad:
                inexact.append(dict(d, part="dendrogram heights"))
            add(c, dict(d, part="hyperlink_communities"))
            if i % (6 if quick else 12) == 0:
                counters["io_observations"] += 1
                add({"io": obs_io(obj)}, dict(d, part="hyperlink_communities (defaults, distance files)"))
        active = {x for e in st["edges"] for x in e["k"]["s"]}
        if len(active) >= 2 and i % 2 == 0:
            runs = obs_core_periphery(b, obj, orng, orng.choice([1, 2, 4]) if quick else orng.choice([1, 3, 8]))
            counters["core_periphery_runs"] += 2 * len(runs)
            add({"st": st, "runs": runs}, dict(d, part="core_periphery"))

    i = 0
    for n, ops in small_hypergraphs(rng, 36 if quick else 400):
        rng.shuffle(ops)
        observe(n, ops, FAMS[i % len(FAMS)], False, "small-hypergraphs-on-4-nodes", i)
        i += 1
    for n, ops in chains(rng, 40 if quick else 500):
        w = i % 4 == 1
        if w:
            ops = [dict(o, w=rng.choice([1, 2, 3])) if o["op"] == "add_edge" else o for o in ops]
        observe(n, ops, FAMS[i % len(FAMS)], w, "chains-with-chords", i)
        i += 1
    for _ in range(60 if quick else 700):
        n = rng.choice([3, 4, 5, 5, 6, 7])
        w = i % 3 == 1
        counters["histories"] += 1
        observe(n, history(w, n, rng, rng.randint(4, 12)), FAMS[i % len(FAMS)], w, "history", i)
        i += 1

    tfc, bad = tf_cases(rng, 80 if quick else 10 ** 6)
    for c in tfc:
        add(c, {"part": "transition_function", "args": {"N": c["N"], "a": c["a"], "b": c["b"]}})
    if bad:
        inexact.append({"part": "transition_function"})
    nc, bad = norm_cases(rng, 80 if quick else 1200)
    for c in nc:
        add(c, {"part": "normalize_array", "args": {"u": c["u"], "axis": c["axis"], "dtype": c["dtype"]}})
    if bad:
        inexact.append({"part": "normalize_array"})
    pc = perm_cases(rng, 150 if quick else 2500)
    for c in pc:
        add(c, {"part": "calculate_permutation_matrix", "args": {"u_ref": c["ur"], "u_pred": c["up"], "mode": c["mode"]}})
    tbind = time.time() - t0

    # 3. validation by TLC
    t1 = time.time()
    v = K.run_cases("Trace_X07", cases, {"Kind": "hg"}, 4 if quick else 8)
    for idx, failed in v["rejects"]:
        d, c = descr[idx], cases[idx]
        for g in _groups(failed):
            fn = d["part"].split(" ")[0]
            if "origin" in d:
                what = "%s: %s on a %d-node %s%s with hyperedges %s (labels %s) disagree(s) with Communities.tla" % (
                    d["part"], ",".join(g), d["n"], "weighted " if d["weighted"] else "", d["origin"], d["hyperedges"], d["labels"])
            else:
                what = "%s: %s disagree(s) with Communities.tla on %s" % (d["part"], ",".join(g), d["args"])
            if "io" in c and c["io"]["errors"]:
                what += "; " + " | ".join(c["io"]["errors"])
            payload = {"case": d, "failing_clauses": g, "logged": {k: x for k, x in c.items() if k != "st"}}
            if "st" in c:
                payload["state"] = c["st"]
            res.reject({"fn": fn, "clauses": g}, what, payload)
    for d in inexact[:1]:
        res.reject({"fn": d["part"], "clauses": ["float_is_small_fraction"]},
                   "a returned float (%s) is not the float of the small fraction the statement gives" % d["part"], {"case": d})
    fut.result()
    pool.shutdown()
    parts = {}
    for d in descr:
        parts[d["part"]] = parts.get(d["part"], 0) + 1
    res.cov(traces_validated_against_impl=len(cases), validator_states=v["states"], cases_by_part=parts,
            label_families=len(FAMS), bind_s=round(tbind, 1), validate_s=round(time.time() - t1, 1), **counters)
    hl = [c for c in cases if "leaf" in c and c.get("ran")]
    if hl:
        c = hl[len(hl) // 2]
        res.sample({"labels": descr[cases.index(c)]["labels"], "leaves": c["leaf"], "dendrogram": c["Z"],
                    "cuts": [{k: q[k] for k in ("h", "lab", "num")} for q in c["cuts"][:4]]})
    res.assume(
        "hyperlink_communities is run with readwrite._load_pickle/_save_pickle stubbed from the harness ('no file, nothing saved'); "
        "its behaviour with default arguments and with distance files is observed separately without the stubs (X07-D1)",
        "dendrogram heights enter TLC as the nearest fraction with denominator <= 20000 (reproducing the float within 1e-12); "
        "TLC compares them with the exact mean Jaccard distance",
        "a cut at the rational height q > 0 is requested as float(q) + 1e-9 (merge heights differ by more than 2e-8), q = 0 as 0.0",
        "largest components with fewer than 2 hyperedges (scipy cannot build a dendrogram: ValueError) or more than 8 are not observed",
        "labels returned by overlapping_communities are compared as a set per node (the code lists one label per hyperedge)",
        "core_periphery: scores enter TLC in millionths (rounded); finiteness and equality of the two equally seeded runs are "
        "decided in Python; inputs with fewer than two nodes in hyperedges are not observed (random.sample raises); "
        "`random` and `numpy.random` are seeded by the harness before every call (the function has no seed argument)",
        "transition_function / normalize_array values enter TLC as fractions with denominator <= 2000 / 1000 that reproduce the float",
        "calculate_permutation_matrix is observed on non-negative integer-valued matrices (int and float dtype), K <= 4; "
        "how rows and columns left without a positive overlap are paired is not demanded (any pairing is accepted)")
    return res.finish()
