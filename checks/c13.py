"""C13 - Configuration models preserve every node's degree and every hyperedge size.

1. explore   TLC, exhaustive, MC_Chains (spec/stochastic/Chains.tla): every input with 2..3 hyperedges over
             3-4 nodes, every (detailed, size) variant, every outcome of every random choice, any number
             of steps; spec mutants and negative controls must be rejected by TLC.
2. validate  the real configuration_model / directed_configuration_model are run for many seeds; TLC
             (Trace_C13) evaluates the statement's clause set CMPost on every (input, output) pair
             (black box: decides the property) and - when the HGX_VERIF hooks are present in the tree -
             re-executes every logged chain step as a Reshuffle / Swap step of Chains.tla (white box:
             `model_*` clauses, reported as MODEL-DRIFT, never as a violation).
"""
import concurrent.futures as cf
import itertools
import json
import os
import random
import shutil
import sys
import time

import numpy as np

from harness import tlc
from harness.binding import Binding, LABEL_FAMILIES, quiet
from harness.verdict import Result

try:                                    # add-only hook module (proposed: .work/proposed/hooks_c13.diff)
    from hypergraphx import _verif as HOOK
except Exception:                       # tree without hooks: black box only
    HOOK = None

FAMS = ("ident", "sparse", "str", "zero")
EMPTY_STATE = {"nodes": [], "edges": [], "nmd": [], "hmd": {}, "wtd": False, "err": ""}

HG_INV = ["EntriesAreHyperedges", "TotalDegConserved", "DegPerSizeConserved", "SizeBagConserved", "EmitNoIncrease",
          "EmitExactWhenCountKept", "CountKeptIffNoCoincidence", "UntouchedIntact", "EmitSatisfiesCMPost"]
DIR_INV = ["DirEntriesNonEmpty", "InDegConserved", "OutDegConserved", "ShapesConserved", "DirEmitSatisfiesCMPostDir"]
ASSUMES = ["RelIsOutcomes", "LoopRealisesRelation", "SameHyperedgeIsNoOp"]


# ---------------------------------------------------------------------------
# 1. the design
def _mc(kind, n, max_edges, mutant="none", invariants=None, workers=6, max_steps=0):
    inv = invariants or (HG_INV if kind == "hg" else DIR_INV)
    cfg = tlc.cfg_text({"Kind": kind, "Node": set(range(1, n + 1)), "MaxEdges": max_edges, "MaxSteps": max_steps,
                        "Mutant": mutant}, invariants=inv)
    r = tlc.run("MC_Chains", cfg, workers=workers, timeout=2400, heap="8g")
    s = tlc.stats(r["out"]) or {"generated": 0, "distinct": 0}
    violated = [l.split()[2] for l in r["out"].splitlines() if l.startswith("Error: Invariant ") and "is violated" in l]
    return {"module": "MC_Chains", "kind": kind, "n": n, "max_edges": max_edges, "max_steps": max_steps or "unbounded",
            "mutant": mutant, "invariants": inv, "ok": tlc.ok_exploration(r), "violated": violated,
            "states": s["distinct"], "transitions": s["generated"], "wall_s": round(r["wall"], 1),
            "excerpt": "" if tlc.ok_exploration(r) else tlc.error_excerpt(r["out"], 12)}


def explore(res, tier):
    pos = [("hg", 4, 3), ("dir", 3, 3), ("dir", 4, 2)]
    if tier == "thorough":
        pos = [("hg", 4, 4), ("hg", 5, 3), ("dir", 3, 3), ("dir", 4, 3)]
    # spec mutants / negative controls: TLC must report a violated invariant
    neg = [("hg", 4, 3, "ignore_detailed", None), ("hg", 4, 3, "drop_node", None), ("hg", 4, 3, "forget_untouched", None),
           ("dir", 3, 3, "allow_duplicates", None),
           ("hg", 4, 3, "none", ["DegPerSizeConservedEvenIfNotDetailed"])]
    with cf.ThreadPoolExecutor(max_workers=3 if tier == "quick" else 2) as ex:
        fp = [ex.submit(_mc, k, n, me, workers=6 if tier == "quick" else 8) for k, n, me in pos]
        fn = [ex.submit(_mc, k, n, me, mut, inv, 2) for k, n, me, mut, inv in neg]
        pos_r = [f.result() for f in fp]
        neg_r = [f.result() for f in fn]
    for r in pos_r:
        if not r["ok"]:
            raise tlc.TLCError("MC_Chains %s n=%d failed:\n%s" % (r["kind"], r["n"], r["excerpt"]))
    for r in neg_r:
        if r["ok"] or not r["violated"]:
            raise tlc.TLCError("MC_Chains mutant %s (%s) was NOT rejected by TLC: the invariants are vacuous\n%s"
                               % (r["mutant"], r["invariants"], r["excerpt"]))
    res.cov(states=sum(r["states"] for r in pos_r), transitions=sum(r["transitions"] for r in pos_r))
    for r in pos_r + neg_r:
        r.pop("excerpt", None)
    res.coverage["explorations"] = pos_r
    res.coverage["spec_mutants_rejected_by_tlc"] = [{"mutant": r["mutant"], "kind": r["kind"], "violated": r["violated"],
                                                     "checked": r["invariants"] if r["mutant"] == "none" else "all"}
                                                    for r in neg_r]
    res.coverage["invariants"] = HG_INV + DIR_INV
    res.coverage["assumptions_checked_by_tlc"] = ASSUMES


# ---------------------------------------------------------------------------
# 2. inputs
def _rand_edges(rng, n, m, zmin=1, zmax=5):
    out = set()
    tries = 0
    while len(out) < m and tries < 200:
        tries += 1
        z = rng.randint(zmin, min(zmax, n))
        out.add(tuple(sorted(rng.sample(range(1, n + 1), z))))
    return sorted(out)


def hg_inputs(rng, tier):
    """lists of hyperedges over spec nodes 1..n, at least two hyperedges each"""
    ins = []
    e3 = [c for z in (1, 2, 3) for c in itertools.combinations((1, 2, 3), z)]
    small = [list(c) for m in (2, 3) for c in itertools.combinations(e3, m)]          # all 56 inputs on 3 nodes
    for es in (small if tier == "thorough" else rng.sample(small, 14)):
        ins.append((3, es))
    for _ in range(30 if tier == "quick" else 260):
        n = rng.randint(3, 7)
        ins.append((n, _rand_edges(rng, n, rng.randint(2, 9))))
    for _ in range(10 if tier == "quick" else 90):                                    # dense uniform: coincidences are likely
        n = rng.choice([3, 4, 5])
        z = rng.choice([2, 2, 3])
        allz = list(itertools.combinations(range(1, n + 1), min(z, n - 1) if n == z else z))
        k = rng.randint(max(2, len(allz) // 2), len(allz))
        es = rng.sample(allz, k)
        if rng.random() < 0.5:
            es += _rand_edges(rng, n, 2, 1, 4)
        ins.append((n, sorted(set(es))))
    for _ in range(8 if tier == "quick" else 60):                                     # nested / overlapping families
        n = rng.randint(4, 7)
        core = rng.sample(range(1, n + 1), 2)
        es = {tuple(sorted(core))}
        for _ in range(rng.randint(2, 6)):
            extra = rng.sample([x for x in range(1, n + 1) if x not in core], rng.randint(0, min(3, n - 2)))
            es.add(tuple(sorted(core[:rng.randint(1, 2)] + extra)))
        if len(es) >= 2:
            ins.append((n, sorted(es)))
    return [(n, es) for n, es in ins if len(es) >= 2]


def dir_keys(rng, n, m):
    out = set()
    tries = 0
    while len(out) < m and tries < 200:
        tries += 1
        z = rng.randint(2, min(5, n))
        nodes = rng.sample(range(1, n + 1), z)
        a = rng.randint(1, z - 1)
        out.add((tuple(sorted(nodes[:a])), tuple(sorted(nodes[a:]))))
    return sorted(out)


def dir_inputs(rng, tier):
    ins = []
    for _ in range(36 if tier == "quick" else 400):
        n = rng.randint(3, 6)
        ins.append((n, dir_keys(rng, n, rng.randint(2, 8))))
    for _ in range(12 if tier == "quick" else 120):                                   # dense 1 -> 1 / 2 -> 1: coincidences
        n = rng.choice([3, 4])
        pairs = [((a,), (b,)) for a in range(1, n + 1) for b in range(1, n + 1) if a != b]
        es = rng.sample(pairs, rng.randint(3, len(pairs)))
        if rng.random() < 0.5:
            es += dir_keys(rng, n, 2)
        ins.append((n, sorted(set(es))))
    return [(n, ks) for n, ks in ins if len(ks) >= 2]


# ---------------------------------------------------------------------------
# 3. running the real code
def _drain():
    if HOOK is None or not getattr(HOOK, "ON", False):
        return []
    ev = list(HOOK.EVENTS)
    HOOK.EVENTS.clear()
    return ev


def build(b, spec):
    obj = b.new(spec.get("weighted", False))
    order = random.Random(spec["order_seed"])
    es = list(spec["edges"])
    order.shuffle(es)
    with quiet():
        for x in spec.get("isolated", ()):
            obj.add_node(b.lab(x))
        for i, e in enumerate(es):
            if spec["kind"] == "dir" and spec.get("weighted"):
                obj.add_edge((b._tuple(e[0]), b._tuple(e[1])), weight=1 + (i * 7 + spec["order_seed"]) % 4)
            elif spec["kind"] == "dir":
                obj.add_edge((b._tuple(e[0]), b._tuple(e[1])))
            elif spec.get("weighted"):
                obj.add_edge(b._tuple(e), weight=1 + (i * 7 + spec["order_seed"]) % 3)
            else:
                obj.add_edge(b._tuple(e))
    return obj


def _call(kind, obj, a):
    if kind == "hg":
        from hypergraphx.generation.configuration_model import configuration_model
        kw = {"n_steps": a["n_steps"], "label": a["label"], "detailed": a["detailed"]}
        if a["size"]:
            if a["spelled"] == "order":
                kw["order"] = a["size"] - 1
            else:
                kw["size"] = a["size"]
        return configuration_model(obj, **kw)
    from hypergraphx.generation.directed_configuration_model import directed_configuration_model
    return directed_configuration_model(obj)


def edit_into(b, obj, spec):
    """public calls that turn the object (built from spec["before"]["edges"]) into one holding spec["edges"]"""
    kind = spec["kind"]
    key = (lambda e: (frozenset(e[0]), frozenset(e[1]))) if kind == "dir" else frozenset
    api = (lambda e: (b._tuple(e[0]), b._tuple(e[1]))) if kind == "dir" else b._tuple
    target = {key(api(e)): e for e in spec["edges"]}
    with quiet():
        for e in list(obj.get_edges()):
            if key(e) not in target:
                obj.remove_edge(e)
        present = {key(e) for e in obj.get_edges()}
        for k, e in target.items():
            if k not in present:
                obj.add_edge(api(e))


def execute(spec):
    """spec -> trace (list of events for Trace_C13); everything needed to re-run is in spec"""
    kind = spec["kind"]
    b = Binding(kind, LABEL_FAMILIES[spec["family"]](spec["n"]), random.Random(spec["order_seed"]))
    if spec.get("before"):
        # history of the OBJECT: it held other hyperedges (as many), the model was run on it, it was edited in place
        obj = build(b, dict(spec, edges=spec["before"]["edges"]))
        np.random.seed(spec["np_seed"] ^ 0x5bd1)
        random.seed(spec["py_seed"] ^ 0x5bd1)
        try:
            with quiet():
                _call(kind, obj, spec["before"]["args"])
        except Exception:
            pass
        edit_into(b, obj, spec)
    else:
        obj = build(b, spec)
    inp = b.state(obj)
    a = spec["args"]
    _drain()
    np.random.seed(spec["np_seed"])
    random.seed(spec["py_seed"])
    ok, err, out = True, "", None
    try:
        with quiet():
            out = _call(kind, obj, a)
        if out is None:
            ok, err = False, "returned None"
    except Exception as ex:
        ok, err = False, "%s: %s" % (type(ex).__name__, ex)
    events = _drain()
    call = {"ev": "call", "inp": inp, "haschain": False, "chain": [],
            "args": {"detailed": bool(a.get("detailed", True)), "size": int(a.get("size", 0)),
                     "n_steps": int(a.get("n_steps", 0)), "label": a.get("label", "")}}
    trace = [call]
    u = b.unlab
    try:
        for e in events:
            k = e.get("kind")
            if k == "cm_start" and kind == "hg":
                call["haschain"], call["chain"] = True, [[u(x) for x in c] for c in e["chain"]]
            elif k == "dcm_start" and kind == "dir":
                call["haschain"], call["chain"] = True, [{"s": [u(x) for x in s], "t": [u(x) for x in t]} for s, t in e["chain"]]
            elif k == "cm_step" and kind == "hg":
                trace.append({"ev": "step", "i": int(e["i"]), "j": int(e["j"]), "f1": [u(x) for x in e["f1"]],
                              "f2": [u(x) for x in e["f2"]], "g1": [u(x) for x in e["g1"]], "g2": [u(x) for x in e["g2"]]})
            elif k == "dcm_swap" and kind == "dir":
                trace.append({"ev": "swap", "role": "s" if e["role"] == "source" else "t", "id1": int(e["id1"]),
                              "id2": int(e["id2"]), "n1": u(e["node1"]), "n2": u(e["node2"])})
    except Exception:
        trace = [call]
    if not call["haschain"]:
        trace = [call]                    # steps cannot be placed without the initial chain
    trace.append({"ev": "return", "ok": ok, "err": err, "out": b.state(out) if ok else EMPTY_STATE})
    return trace, b.labels


def plan(rng, tier):
    specs = []
    per_input = 7 if tier == "quick" else 10
    for n, es in hg_inputs(rng, tier):
        sizes = sorted({len(e) for e in es})
        for r in range(per_input):
            sz = 0 if r % 3 != 2 else rng.choice(sizes)
            specs.append({"kind": "hg", "n": n, "edges": [list(e) for e in es], "family": FAMS[(len(specs)) % 4],
                          "weighted": rng.random() < 0.15,
                          "isolated": [x for x in range(1, n + 1) if rng.random() < 0.1],
                          "args": {"n_steps": rng.choice([0, 1, 2, 3, 5, 8, 13, 21, 30, rng.randint(0, 30)]),
                                   "label": ("edge", "stub")[r % 2], "detailed": (r // 2) % 2 == 0,
                                   "size": sz, "spelled": rng.choice(["size", "order"])},
                          "np_seed": rng.randrange(2 ** 31), "py_seed": rng.randrange(2 ** 31),
                          "order_seed": rng.randrange(2 ** 31)})
    for n, ks in dir_inputs(rng, tier):
        for r in range(4 if tier == "quick" else 6):
            specs.append({"kind": "dir", "n": n, "edges": [[list(s), list(t)] for s, t in ks], "family": FAMS[len(specs) % 4],
                          "weighted": r == 3, "args": {}, "np_seed": rng.randrange(2 ** 31), "py_seed": rng.randrange(2 ** 31),
                          "order_seed": rng.randrange(2 ** 31)})
    # histories of the object (own generator: the specs above stay what they were for a seed): in a quarter of the specs the object
    # held as many hyperedges of OTHER sizes before, the model was run on it with the same arguments, it was edited in place
    hrng = random.Random(rng.randrange(1 << 30))
    for sp in specs:
        if hrng.random() >= 0.25:
            continue
        n, es = sp["n"], [e for e in sp["edges"]]
        if sp["kind"] == "hg":
            have = {tuple(e) for e in es}
            prev = list(es)
            for j in hrng.sample(range(len(es)), min(len(es), hrng.randint(1, 2))):
                for _ in range(20):
                    z = hrng.choice([x for x in range(1, min(5, n) + 1) if x != len(es[j])] or [len(es[j])])
                    c = tuple(sorted(hrng.sample(range(1, n + 1), z)))
                    if c not in have:
                        have.add(c)
                        prev[j] = list(c)
                        break
        else:
            have = {(tuple(e[0]), tuple(e[1])) for e in es}
            prev = list(es)
            for j in hrng.sample(range(len(es)), min(len(es), hrng.randint(1, 2))):
                for c in dir_keys(hrng, n, 6):
                    if c not in have:
                        have.add(c)
                        prev[j] = [list(c[0]), list(c[1])]
                        break
        sp["before"] = {"edges": prev, "args": dict(sp["args"])}
    return specs


# ---------------------------------------------------------------------------
# 4. TLC judges
def _validate_batch(args):
    kind, traces, idx, timeout = args
    wd = tlc.workdir("c13")
    try:
        path = os.path.join(wd, "batch.json")
        with open(path, "w") as f:
            json.dump({"traces": traces}, f)
        cfg = tlc.cfg_text({"Kind": kind}, init="TInit", next_="TNext")
        res = tlc.run("Trace_C13", cfg, wd=wd, workers=1, env={"TRACE_FILE": path}, timeout=timeout)
        rj, done = [], None
        for s in tlc.printed_strings(res["out"]):
            if s.startswith("RJ "):
                t, l, failed = tlc.parse_value(s[3:])
                rj.append((idx[t - 1], l - 1, sorted(failed)))
            elif s.startswith("DONE "):
                done = [int(x) for x in s.split()[1:]]
        nev = sum(len(t) for t in traces)
        if done is None or done[0] != nev:
            raise tlc.TLCError("Trace_C13 did not consume all %d events (DONE=%s)\n%s"
                               % (nev, done, tlc.error_excerpt(res["out"])))
        st = tlc.stats(res["out"]) or {"generated": 0, "distinct": 0}
        return {"rejects": rj, "events": nev, "states": st["distinct"]}
    finally:
        shutil.rmtree(wd, ignore_errors=True)


def validate(kind, traces, idx, procs=10, timeout=1500):
    per = max(8, len(traces) // procs + 1)
    jobs = [(kind, traces[i:i + per], idx[i:i + per], timeout) for i in range(0, len(traces), per)]
    out = {"rejects": [], "events": 0, "states": 0}
    with cf.ThreadPoolExecutor(max_workers=procs) as ex:
        for r in ex.map(_validate_batch, jobs):
            out["rejects"] += r["rejects"]
            out["events"] += r["events"]
            out["states"] += r["states"]
    return out


def judge(res, specs, traces, labels, rejects):
    by_trace = {}
    for t, l, failed in rejects:
        by_trace.setdefault(t, []).append((l, failed))
    nprop = nmodel = 0
    for t, lst in sorted(by_trace.items()):
        sp = specs[t]
        prop = sorted({c for _, f in lst for c in f if not c.startswith("model_")})
        model = sorted({c for _, f in lst for c in f if c.startswith("model_")})
        which = "configuration_model" if sp["kind"] == "hg" else "directed_configuration_model"
        if prop:
            nprop += 1
            ret = traces[t][-1]
            res.reject({"function": which, "clauses": prop, "detailed": sp["args"].get("detailed"),
                        "sized": bool(sp["args"].get("size")), "object_history": bool(sp.get("before"))},
                       "%s(%s) on hyperedges %s%s (labels %s, numpy seed %d, random seed %d): clause(s) %s fail%s"
                       % (which, ", ".join("%s=%s" % kv for kv in sp["args"].items()), sp["edges"],
                          " [the object held %s before, the model was run on it, it was edited in place]" % sp["before"]["edges"]
                          if sp.get("before") else "", labels[t], sp["np_seed"],
                          sp["py_seed"], ",".join(prop), "" if ret["ok"] else " (call raised %s)" % ret["err"]),
                       {"spec": sp, "labels": labels[t], "failing_clauses": prop, "input": traces[t][0]["inp"],
                        "output": ret["out"], "ok": ret["ok"], "err": ret["err"], "logged_steps": len(traces[t]) - 2})
        elif model:
            nmodel += 1
            l, f = lst[0]
            res.model_drift("%s: logged chain step %d of %d is not a step of Chains.tla (%s) - hyperedges %s, args %s, "
                            "event %s; the property clauses hold for this run"
                            % (which, l, len(traces[t]) - 2, ",".join(model), sp["edges"], sp["args"],
                               {k: v for k, v in traces[t][l].items() if k not in ("inp", "out")}))
    res.cov(runs_rejected_on_property=nprop, runs_with_model_drift_only=nmodel)


def run(tier, seed):
    res = Result("C13", tier, seed, "model_checking")
    t0 = time.time()
    with cf.ThreadPoolExecutor(max_workers=1) as bg:
        fut = bg.submit(explore, res, tier)
        rng = random.Random(seed * 1000003 + 13)
        specs = plan(rng, tier)
        traces, labels = [], []
        for sp in specs:
            tr, lab = execute(sp)
            traces.append(tr)
            labels.append(lab)
        t1 = time.time()
        if tier == "quick":
            fut.result()                 # keep the 16 cores for one thing at a time
        rejects, events, states = [], 0, 0
        for kind in ("hg", "dir"):
            idx = [i for i, sp in enumerate(specs) if sp["kind"] == kind]
            v = validate(kind, [traces[i] for i in idx], idx, procs=10 if tier == "quick" else 8)
            rejects += v["rejects"]
            events += v["events"]
            states += v["states"]
        fut.result()
    print("[C13] run code %.1fs, total %.1fs (%d runs, %d events)" % (t1 - t0, time.time() - t0, len(specs), events),
          file=sys.stderr)
    judge(res, specs, traces, labels, rejects)
    hooked = sum(1 for t in traces if t[0]["haschain"])
    coinc = sum(1 for t in traces if t[-1]["ok"] and len(t[-1]["out"]["edges"]) < len(t[0]["inp"]["edges"]))
    res.cov(traces_validated_against_impl=len(traces), events=events, validator_states=states,
            runs_undirected=sum(1 for s in specs if s["kind"] == "hg"), runs_directed=sum(1 for s in specs if s["kind"] == "dir"),
            runs_sized=sum(1 for s in specs if s["args"].get("size")),
            runs_not_detailed=sum(1 for s in specs if s["kind"] == "hg" and not s["args"]["detailed"]),
            runs_where_hyperedges_coincided=coinc, runs_with_logged_chain=hooked,
            chain_steps_validated=sum(len(t) - 2 for t in traces if t[0]["haschain"]),
            distinct_inputs=len({(s["kind"], json.dumps(s["edges"])) for s in specs}),
            runs_on_object_edited_in_place_after_an_earlier_run=sum(1 for s in specs if s.get("before")),
            hooks_present=bool(hooked))
    for t in (traces[0], traces[-1]):
        res.sample({"args": t[0]["args"], "input_hyperedges": [e["k"] for e in t[0]["inp"]["edges"]],
                    "logged_steps": [{k: v for k, v in e.items() if k != "ev"} for e in t[1:-1]][:4],
                    "output_hyperedges": [e["k"] for e in t[-1]["out"]["edges"]]})
    res.assume("the property is decided on the (input, output) pair through the public API only (get_nodes/get_edges); degrees are "
               "computed by TLC from the projected hyperedges (Degree of HGX.tla, bound to degree() by C08)",
               "label='vertex' is outside the quantifier and is not run; 'edge' and 'stub' share one code path and one model",
               "'returned intact' is read as: the same node sets (the model returns an unweighted hypergraph without metadata)",
               "numpy and random global generators are seeded before every call; seeds are in the replay payload",
               "step-level (hook) disagreements are MODEL-DRIFT, not violations" if hooked else
               "no HGX_VERIF hooks in this tree: black-box clauses only (proposed hooks: .work/proposed/hooks_c13.diff)")
    return res.finish()


def replay(path):
    with open(path) as f:
        rp = json.load(f)
    sp = rp["payload"]["spec"]
    tr, lab = execute(sp)
    v = validate(sp["kind"], [tr], [0], procs=1)
    res = Result("C13", "replay", rp.get("seed", 0), "model_checking")
    judge(res, [sp], [tr], [lab], v["rejects"])
    for r in res.rejections:                 # evidence/C13.json is not rewritten by a replay
        print("VIOLATION property=C13 replay=%s\n  what: %s" % (path, r["what"]))
    for d in res.drift:
        print("MODEL-DRIFT property=C13 %s" % d)
    print("C13 replay %s" % ("FAIL" if res.rejections else "PASS"))
    return 1 if res.rejections else 0
