"""C06, last sentence - the hMETIS (.hgr) reader and the HIF reader against spec/derive/Persist.tla.

Abstract files are produced by TLC (spec/mc/Gen_Hgr.tla, spec/mc/Gen_Hif.tla: BFS over all small files
with the design invariants ParseRecoversListed / HifDesign, plus -simulate for longer ones), written to a
scratch directory, read by the real readers, and the built object is judged by TLC
(spec/trace/Trace_C06R.tla: object == ParseHgr(lines) / ReadHif(doc) up to a bijection of node names).
`run(res, tier, seed)` only adds to the shared Result; checks/c06.py finishes it.
"""
import concurrent.futures as cf
import json
import os
import random
import shutil

from harness import cases as K
from harness import tlc
from harness.binding import Binding, LABEL_FAMILIES, quiet

FMTS = {2, 0, 1, 10, 11}          # 2 = header without a fmt token (Gen_Hgr.tla)


# ---------------------------------------------------------------------------------------------
# generation on the spec side
def _gen(module, consts, invariant, depth, simulate, seed, workers):
    cfg = tlc.cfg_text(consts, invariants=[invariant], constraints=["Emit"])
    if simulate:
        r = tlc.run(module, cfg, workers=1, simulate=simulate, depth=depth, seed=seed, timeout=900)
        if r["rc"] != 0:
            raise tlc.TLCError("%s -simulate failed:\n%s" % (module, tlc.error_excerpt(r["out"])))
        st = {"generated": 0, "distinct": 0}
    else:
        r = tlc.run(module, cfg, workers=workers, timeout=1800)
        if not tlc.ok_exploration(r):
            raise tlc.TLCError("%s exploration failed:\n%s" % (module, tlc.error_excerpt(r["out"])))
        st = tlc.stats(r["out"])
    docs = sorted(set(tlc.printed_strings(r["out"], "{")))
    if not docs:
        raise tlc.TLCError("%s produced no file:\n%s" % (module, tlc.error_excerpt(r["out"])))
    return [json.loads(s) for s in docs], st, r["wall"]


def gen_hgr(nn, depth, maxw, simulate=None, seed=1, workers=4):
    return _gen("Gen_Hgr", {"Kind": "hg", "NN": nn, "Fmts": FMTS, "MaxW": maxw, "Depth": depth,
                            "Balanced": bool(simulate)}, "ParseRecoversListed", depth, simulate, seed, workers)


def gen_hif(nn, ne, depth, variants=(0, 1, 2), types=("absent", "undirected", "asc"), simulate=None, seed=1, workers=4):
    return _gen("Gen_Hif", {"Kind": "hg", "NodeNames": set(range(1, nn + 1)), "EdgeNames": set(range(1, ne + 1)),
                            "Variants": set(variants), "Depth": depth, "Types": set(types)},
                "HifDesign", depth, simulate, seed, workers)


# ---------------------------------------------------------------------------------------------
# hMETIS: rendering, reading, observing
def render_hgr(lines, rng):
    """text of the file; the header is written with single spaces, the other token lines with 1-2 spaces
    and optional surrounding white space (hMETIS: integers separated by spaces)"""
    out, header_done = [], False
    for l in lines:
        if l["k"] == "t":
            toks = [str(x) for x in l["t"]]
            if not header_done:
                header_done = True
                out.append(" ".join(toks) + rng.choice(["", " "]))
            else:
                s = toks[0]
                for t in toks[1:]:
                    s += rng.choice([" ", " ", "  "]) + t
                out.append(rng.choice(["", "", " "]) + s + rng.choice(["", "", " "]))
        else:
            out.append(l["s"])
    return "\n".join(out) + rng.choice(["\n", "\n", ""])


def hgr_case(d, path, rng):
    from hypergraphx.readwrite.load import load_hypergraph
    text = render_hgr(d["lines"], rng)
    with open(path, "w") as f:
        f.write(text)
    header = next(l["t"] for l in d["lines"] if l["k"] == "t")
    b = Binding("hg", list(range(1, header[1] + 1)), rng)
    c = {"kind": "hgr", "lines": d["lines"], "ok": True}
    try:
        with quiet():
            obj = load_hypergraph(path)
        c["st"] = b.state(obj)
        err = ""
    except Exception as ex:
        c["ok"] = False
        c["st"] = {"nodes": [], "edges": [], "nmd": [], "hmd": {}, "wtd": False, "err": ""}
        err = "%s: %s" % (type(ex).__name__, ex)
    return c, {"text": text, "error": err}


# ---------------------------------------------------------------------------------------------
# HIF: concrete documents, reading, observing
EDGE_FAMILIES = {
    "ident": lambda m, nl: list(range(1, m + 1)),
    "str": lambda m, nl: ["e%d" % i for i in range(1, m + 1)],
    "as_nodes": lambda m, nl: list(nl[:m]) if len(nl) >= m else ["e%d" % i for i in range(1, m + 1)],
}


def _expand(kind, rec, nl, el):
    """the concrete JSON record of a generated record (variant v)"""
    v = rec["v"]
    out = {}
    if "edge" in rec:
        out["edge"] = el[rec["edge"] - 1]
    if "node" in rec:
        out["node"] = nl[rec["node"] - 1]
    ident = "%s%s" % (rec.get("edge", ""), ("-%s" % rec["node"]) if "node" in rec else "")
    if v == 1:
        out["weight"] = 2 if kind != "edges" else 3
        out["attrs"] = {"tag": "%s:%s" % (kind[0], ident), "k": 1}
    elif v == 2:
        out["attrs"] = {} if kind != "edges" else {"nested": {"a": [1, 2]}}
        if kind == "incidences":
            out["weight"] = 1
    return out


def _tok(rec, ninv, einv):
    """a record as one opaque value, node / edge names replaced by the abstract ids"""
    if not isinstance(rec, dict):
        return "!not-a-record:%s" % type(rec).__name__
    r = dict(rec)
    for fld, inv in (("node", ninv), ("edge", einv)):
        if fld in r:
            try:
                r[fld] = ["id", inv.get(r[fld], -1)]
            except TypeError:
                r[fld] = ["id", -1]
    try:
        return json.dumps(r, sort_keys=True, default=str)
    except Exception:
        return "!unserialisable"


def hif_case(d, path, nfam, efam, rng):
    from hypergraphx.readwrite.hif import read_hif
    nn = max([r["node"] for r in d["nodes"]] + [r["node"] for r in d["incidences"]] + [1])
    ne = max([r["edge"] for r in d["edges"]] + [r["edge"] for r in d["incidences"]] + [1])
    nl = LABEL_FAMILIES[nfam](max(nn, 4))
    el = EDGE_FAMILIES[efam](ne, nl)
    ninv = {l: i + 1 for i, l in enumerate(nl)}
    einv = {l: i + 1 for i, l in enumerate(el)}
    conc = {}
    if d["ty"] != "absent":
        conc[rng.choice(["network-type", "type"])] = d["ty"]
    if d["md"]:
        conc["metadata"] = {"name": "generated", "n": 1}
    doc = {}
    for kind in ("nodes", "edges", "incidences"):
        conc[kind] = [_expand(kind, r, nl, el) for r in d[kind]]
        doc[kind] = [dict({k: v for k, v in r.items() if k != "v"}, tok=_tok(x, ninv, einv))
                     for r, x in zip(d[kind], conc[kind])]
    with open(path, "w") as f:
        json.dump(conc, f)
    c = {"kind": "hif", "doc": doc, "ok": True, "built": {"nodes": [], "edges": [], "nmd": [], "imd": []}}
    err = ""
    try:
        with quiet():
            H = read_hif(path)
            nodes = list(H.get_nodes())
            ids = {}
            for n in nodes:
                ids.setdefault(n, len(ids) + 1)
            built = c["built"]
            built["nodes"] = [ids[n] for n in nodes]
            for n in nodes:
                built["nmd"].append([ids[n], _tok(H.get_node_metadata(n), ninv, einv)])
            seen = set()
            for e in list(H.get_edges()):
                built["edges"].append({"nodes": [ids.get(x, -1) for x in e], "tok": _tok(H.get_edge_metadata(e), ninv, einv)})
                for x in e:
                    try:
                        m = H.get_incidence_metadata(e, x)
                    except Exception:
                        continue
                    seen.add((tuple(e), x))
                    built["imd"].append({"e": [ids.get(y, -1) for y in e], "n": ids.get(x, -1), "tok": _tok(m, ninv, einv)})
            try:
                for (e, x), m in H.get_all_incidences_metadata().items():
                    if (tuple(e), x) not in seen:
                        built["imd"].append({"e": [ids.get(y, -1) for y in e], "n": ids.get(x, -1), "tok": _tok(m, ninv, einv)})
            except Exception:
                pass
    except Exception as ex:
        c["ok"] = False
        c["built"] = {"nodes": [], "edges": [], "nmd": [], "imd": []}
        err = "%s: %s" % (type(ex).__name__, ex)
    return c, {"document": conc, "node_labels": nl, "edge_labels": el, "error": err}


# ---------------------------------------------------------------------------------------------
def run(res, tier, seed):
    rng = random.Random(seed * 104729 + 6)
    quick = tier == "quick"
    jobs = {
        "hgr_bfs": lambda: gen_hgr(2, 3, 2),
        "hgr_sim": lambda: gen_hgr(4, 9 if quick else 11, 3, simulate=25 if quick else 250, seed=seed + 11),
        "hif_bfs": lambda: gen_hif(2, 2, 3, variants=(0, 1), types=("absent", "asc")),
        "hif_sim": lambda: gen_hif(4, 3, 10 if quick else 12, simulate=25 if quick else 250, seed=seed + 13),
    }
    if not quick:
        jobs["hgr_bfs3"] = lambda: gen_hgr(3, 3, 1)
        jobs["hgr_sim3"] = lambda: gen_hgr(3, 6, 2, simulate=150, seed=seed + 17)
        jobs["hif_bfs3"] = lambda: gen_hif(3, 2, 3, variants=(0, 1), types=("undirected",))
        jobs["hif_sim2"] = lambda: gen_hif(3, 3, 7, simulate=150, seed=seed + 19)
    got = {}
    with cf.ThreadPoolExecutor(max_workers=4) as ex:
        futs = {k: ex.submit(f) for k, f in jobs.items()}
        for k, f in futs.items():
            got[k] = f.result()
    states = trans = 0
    for k, (docs, st, wall) in got.items():
        if "bfs" in k:
            states += st["distinct"]
            trans += st["generated"]
            res.coverage.setdefault("explorations", []).append(
                {"module": "Gen_Hgr" if k.startswith("hgr") else "Gen_Hif", "job": k, "states": st["distinct"],
                 "transitions": st["generated"], "files_emitted": len(docs), "wall_s": round(wall, 1)})
    res.cov(states=states, transitions=trans)
    res.coverage.setdefault("invariants", [])
    for i in ("ParseRecoversListed", "HifDesign"):
        if i not in res.coverage["invariants"]:
            res.coverage["invariants"].append(i)

    cap = 1000 if quick else 6000
    wd = tlc.workdir("c06r")
    cases, info = [], []
    try:
        n = 0
        for k in sorted(got):
            docs = got[k][0]
            if len(docs) > cap:
                docs = rng.sample(docs, cap)
            for d in docs:
                n += 1
                if k.startswith("hgr"):
                    c, more = hgr_case(d, os.path.join(wd, "f%d.hgr" % n), rng)
                else:
                    nfam = ("ident", "sparse", "str", "zero")[n % 4]
                    efam = ("ident", "str", "as_nodes")[(n // 4) % 3]
                    c, more = hif_case(d, os.path.join(wd, "f%d.hif.json" % n), nfam, efam, rng)
                    more["families"] = [nfam, efam]
                more["origin"] = k
                cases.append(c)
                info.append(more)
    finally:
        shutil.rmtree(wd, ignore_errors=True)

    v = K.run_cases("Trace_C06R", cases, {"Kind": "hg"}, procs=8, per_batch=min(4000, max(50, len(cases) // 8 + 1)))
    for idx, failed in v["rejects"]:
        c, more = cases[idx], info[idx]
        if "hgr_file_is_valid_and_covered" in failed or "hif_document_is_covered" in failed:
            raise tlc.TLCError("generated file outside the covered inputs: %s" % json.dumps(c)[:600])
        if c["kind"] == "hgr":
            header = next(l["t"] for l in c["lines"] if l["k"] == "t")
            fmt = header[2] if len(header) == 3 else None
            res.reject({"part": "hgr_reader", "clauses": failed, "fmt": fmt},
                       "load_hypergraph(.hgr) does not build ParseHgr of the file (%s; fmt %s)%s: %r"
                       % (",".join(failed), fmt, (" [" + more["error"] + "]") if more["error"] else "", more["text"]),
                       {"file_text": more["text"], "lines": c["lines"], "built": c["st"], "error": more["error"]})
        else:
            res.reject({"part": "hif_reader", "clauses": failed},
                       "read_hif does not build ReadHif of the document (%s)%s: %s"
                       % (",".join(failed), (" [" + more["error"] + "]") if more["error"] else "", json.dumps(more["document"])),
                       {"document": more["document"], "abstract": c["doc"], "built": c["built"], "error": more["error"],
                        "node_labels": more["node_labels"], "edge_labels": more["edge_labels"]})

    hgr = [c for c in cases if c["kind"] == "hgr"]
    hif = [c for c in cases if c["kind"] == "hif"]

    def fmt_of(c):
        h = next(l["t"] for l in c["lines"] if l["k"] == "t")
        return str(h[2]) if len(h) == 3 else "absent"

    def coincide(c):
        sets = {}
        for r in c["doc"]["incidences"]:
            sets.setdefault(r["edge"], set()).add(r["node"])
        fs = [frozenset(s) for s in sets.values()]
        return len(set(fs)) < len(fs)

    res.cov(traces_validated_against_impl=len(cases), validator_states=v["states"],
            reader_hgr_files=len(hgr), reader_hif_documents=len(hif),
            reader_hgr_weighted=sum(1 for c in hgr if fmt_of(c) in ("1", "11")),
            reader_hgr_with_comment_or_blank=sum(1 for c in hgr if any(l["k"] != "t" for l in c["lines"])),
            reader_hgr_repeated_hyperedge=sum(1 for c in hgr if len(c["st"]["edges"]) < next(l["t"] for l in c["lines"] if l["k"] == "t")[0]),
            reader_hif_coinciding_edge_names=sum(1 for c in hif if coincide(c)),
            reader_hif_edges_without_record=sum(1 for c in hif if {r["edge"] for r in c["doc"]["incidences"]} - {r["edge"] for r in c["doc"]["edges"]}),
            reader_hif_records_without_incidence=sum(1 for c in hif if {r["edge"] for r in c["doc"]["edges"]} - {r["edge"] for r in c["doc"]["incidences"]}))
    res.coverage["reader_hgr_fmt_histogram"] = {f: sum(1 for c in hgr if fmt_of(c) == f) for f in ("absent", "0", "1", "10", "11")}
    pick = max(range(len(cases)), key=lambda i: (cases[i]["kind"] == "hgr", len(cases[i].get("lines", []))))
    # the shared Result already holds the round-trip samples: raise the cap for the two reader samples
    res.sample({"reader": "hgr", "file_text": info[pick]["text"], "built_edges": cases[pick]["st"]["edges"]},
               cap=len(res.coverage["samples"]) + 1)
    pick = max(range(len(cases)), key=lambda i: (cases[i]["kind"] == "hif", len(cases[i].get("doc", {}).get("incidences", []))))
    res.sample({"reader": "hif", "document": info[pick]["document"], "built": cases[pick]["built"]},
               cap=len(res.coverage["samples"]) + 1)
    res.assume(".hgr: header written with single spaces, other token lines with 1-2 spaces; nodes 1..N; every line of a "
               "hyperedge lists distinct nodes; weighted files never list the same hyperedge twice (not covered); only "
               "hyperedges and weights are compared (isolated nodes of the header are not promised)",
               "HIF: documents always carry the three arrays nodes/edges/incidences, every (edge,node) pair, node name "
               "and edge name described once; the object is compared with ReadHif up to a bijection of node names "
               "(the reader renames nodes); records are compared as opaque canonical JSON values; when two edge names "
               "have the same incidence set either record may be kept; write_hif is not covered")
