def run(res, tier, seed):
    pass
