"""C03 - TemporalHypergraph keeps (time, hyperedge) records; windows/snapshots agree."""
from checks.containers import run_container, explore, explore_kimpl
from harness.verdict import Result


def run(tier, seed):
    res = Result("C03", tier, seed, "model_checking")
    explore_kimpl(res, "temp", tier)
    explore(res, "temp", tier, module="MC_Derive",
            invariants=["TypeOK", "WindowPartition", "SnapshotUnion", "HalfOpen"],
            configs=[dict(n=2, maxw=2, batches=False, metaops=False, xs=[0, 1, 2] if tier == "thorough" else [0, 1])])
    return run_container("C03", "temp", tier, seed, res=res, plan={"derive": ("temporal", 0.35 if tier == "quick" else 0.6)})


def replay(path):
    from checks.containers import replay_container
    return replay_container("C03", path)
