"""X09 - topological distances between events (extension; statements in spec/ext/EventDist.tla).

1. explore   TLC, exhaustive: MC_EventDist = the bounded temporal container model + the laws of NodeDist / EdgeDist /
             PairCount / CondCount (metric, triangle inequality, line-graph distance, multiplicity formula, totals);
             one plausible statement that does not hold is kept as a configuration TLC must refute
2. bind      real TemporalHypergraph objects (3-6 nodes, short histories, several label families); real calls of
             compute_all_nodes_shortest_path, compute_all_edges_shortest_path, get_mean_distance_events, _to_df,
             topological_temporal_cond_distance; exact logging (floats as the small fractions they must be)
3. validate  TLC evaluates Trace_X09!X09Clauses on every case
"""
import concurrent.futures as cf
import importlib
import math
import random
import sys
import time
import types
from fractions import Fraction

from harness import cases as K
from harness import containers as C
from harness import tlc
from harness.binding import Binding, LABEL_FAMILIES, quiet
from harness.verdict import Result

PROP = "X09"
FAMS = ("ident", "sparse", "str", "zero")
MODNAME = "hypergraphx.measures.temporal.temporal_topological_correlation"
LAWS = ["EDNodeDistLaws", "EDEdgeDistLaws", "EDPairLaws"]
MAX_EVENTS = 12          # keeps every numerator / denominator product inside TLC's 32-bit integers
FRAC_DEN = 30000

FN = {
    "nodes_shortest_path": "compute_all_nodes_shortest_path",
    "nodes_shortest_path_rejects_disconnected": "compute_all_nodes_shortest_path",
    "edges_shortest_path": "compute_all_edges_shortest_path",
    "edges_shortest_path_symmetric": "compute_all_edges_shortest_path",
    "edges_shortest_path_rejects_disconnected": "compute_all_edges_shortest_path",
    "mean_distance_events_same_order": "get_mean_distance_events",
    "mean_distance_events_cross_order": "get_mean_distance_events",
    "mean_distance_events_total": "get_mean_distance_events",
    "to_df": "_to_df",
    "cond_distance_same_order_distribution": "topological_temporal_cond_distance(same_order=True)",
    "cond_distance_same_order_averages": "topological_temporal_cond_distance(same_order=True)",
    "cond_distance_diff_order_distribution": "topological_temporal_cond_distance(same_order=False)",
    "cond_distance_diff_order_averages": "topological_temporal_cond_distance(same_order=False)",
}
# candidate defects of /repo: one signature per defect
D2 = {"function": "compute_all_edges_shortest_path", "finding": "default aggregate=False raises AttributeError (H.edges)"}
FINDING = {"edges_shortest_path_default_aggregates": D2, "mean_distance_events_default_distance": D2}
D1 = {"function": "module import", "finding": "undeclared dependency tqdm"}


# ---------------------------------------------------------------------------------------------
# 1. the design
def _explore_one(job):
    name, n, xs, maxkeys, inv, must_fail = job
    c = C.consts("temp", False, n=n, maxw=1, batches=False, metaops=False, xs=xs)
    c.update({"EDMaxKeys": maxkeys})
    cfg = tlc.cfg_text(c, init="Init", next_="Next", invariants=inv, constraints=["EDBound"])
    r = tlc.run("MC_EventDist", cfg, workers=6, timeout=1500, heap="4g")
    s = tlc.stats(r["out"]) or {"generated": 0, "distinct": 0}
    rec = {"module": "MC_EventDist", "config": name, "nodes": n, "times": list(xs), "max_events": maxkeys, "invariants": inv,
           "states": s["distinct"], "transitions": s["generated"], "wall_s": round(r["wall"], 1)}
    if must_fail:
        if tlc.ok_exploration(r) or "Invariant %s is violated" % inv[0] not in r["out"]:
            raise tlc.TLCError("%s was NOT refuted by TLC (%s):\n%s" % (inv[0], name, tlc.error_excerpt(r["out"])))
        rec["refuted"] = True
    elif not tlc.ok_exploration(r):
        raise tlc.TLCError("MC_EventDist %s failed:\n%s" % (name, tlc.error_excerpt(r["out"])))
    return rec


def explore_jobs(tier):
    if tier == "quick":
        jobs = [("temp3-t2-e2", 3, [0, 1], 2, LAWS, False),
                ("temp2-t3-e4", 2, [0, 1, 2], 4, LAWS, False)]
    else:
        jobs = [("temp3-t2-e4", 3, [0, 1], 4, LAWS, False),
                ("temp3-t3-e3", 3, [0, 1, 2], 3, LAWS, False),
                ("temp4-t2-e2", 4, [0, 1], 2, LAWS, False)]
    jobs.append(("temp3-t2-e2 edge distance = least node distance (must fail)", 3, [0, 1], 2, ["EDNotNodeMin"], True))
    return jobs


def explore(res, tier):
    jobs = explore_jobs(tier)
    with cf.ThreadPoolExecutor(max_workers=len(jobs)) as ex:
        recs = list(ex.map(_explore_one, jobs))
    ok = [r for r in recs if not r.get("refuted")]
    res.cov(states=sum(r["states"] for r in ok), transitions=sum(r["transitions"] for r in ok))
    res.coverage.setdefault("explorations", []).extend(recs)
    res.coverage["invariants"] = sorted({i for r in ok for i in r["invariants"]})
    res.cov(spec_variants_refuted=[r["config"] for r in recs if r.get("refuted")])


# ---------------------------------------------------------------------------------------------
# 2. real objects
def load_module(res):
    """the module under test; `tqdm` (imported at the top, used for progress bars when verbose=True only) is not a
    declared dependency of the package: where it is missing a stand-in is installed and the fact is reported"""
    try:
        return importlib.import_module(MODNAME)
    except ModuleNotFoundError as ex:
        if ex.name != "tqdm":
            raise
    stand_in = types.ModuleType("tqdm")
    stand_in.tqdm = lambda it=None, *a, **k: it
    stand_in.tqdm.write = lambda *a, **k: None
    sys.modules["tqdm"] = stand_in
    res.reject(D1, "import %s raises ModuleNotFoundError: the module imports tqdm at the top, which is neither in requirements.txt "
               "nor in install_requires of setup.py (this environment has exactly the declared dependencies); the check goes on "
               "with a stand-in tqdm" % MODNAME, {"module": MODNAME, "missing": "tqdm"})
    return importlib.import_module(MODNAME)


def edge_op(s, t, w=0):
    return {"op": "add_edge", "k": {"s": sorted(s), "t": [], "x": t}, "w": w, "hasmd": False, "md": {}, "bad": ""}


def gen_connected(rng, n, times):
    """a chain of overlapping hyperedges over all n nodes at random times, a few chords and singletons, and repetitions
    of the same hyperedges at other times (multiplicities)"""
    nodes = list(range(1, n + 1))
    rng.shuffle(nodes)
    sets, j = [], 0
    while j < n - 1:
        z = rng.choice([2, 2, 3, 3, 4])
        sets.append(tuple(sorted(nodes[j:j + z])))
        j += max(1, z - rng.choice([1, 1, 2]) if z > 2 else 1)
    for _ in range(rng.randint(0, 2)):
        sets.append(tuple(sorted(rng.sample(nodes, rng.choice([1, 2, 2, 3])))))
    evs = set()
    for s in sets:
        evs.add((s, rng.choice(times)))
    for _ in range(rng.randint(1, 6)):
        evs.add((rng.choice(sets), rng.choice(times)))
    evs = sorted(evs)
    rng.shuffle(evs)
    must = {s: t for s, t in evs}                       # every hyperedge keeps one event
    evs = [(s, t) for s, t in must.items()] + [e for e in evs if must[e[0]] != e[1]]
    evs = evs[:MAX_EVENTS]
    rng.shuffle(evs)
    return [edge_op(s, t) for s, t in evs]


def gen_history(rng, n, times, length):
    """inserts / re-inserts / removals: any shape, connected or not"""
    nodes = list(range(1, n + 1))
    ops, recent = [], []
    for _ in range(length):
        r = rng.random()
        if recent and r < 0.3:
            s = rng.choice(recent)
        else:
            s = tuple(sorted(rng.sample(nodes, rng.choice([1, 2, 2, 2, 3, 3, min(4, n)]))))
            recent.append(s)
        t = rng.choice(times)
        if r > 0.88:
            ops.append({"op": "remove_edge", "k": {"s": list(s), "t": [], "x": t}})
        elif r > 0.82:
            ops.append({"op": "add_node", "n": rng.choice(nodes), "hasmd": False, "md": {}})
        else:
            ops.append(edge_op(s, t))
    return ops


def build(fam, n, weighted, ops, rng):
    b = Binding("temp", LABEL_FAMILIES[fam](n + 1), rng)
    obj = b.new(weighted)
    done = []
    for o in ops:
        if weighted and o["op"] == "add_edge":
            o = dict(o, w=rng.choice([1, 2, 3]))
        if not b.supported(o) or b.corner(o, obj):
            continue
        if o["op"] == "add_edge" and len(obj.get_edges()) >= MAX_EVENTS:
            continue
        b.apply(obj, o)
        done.append(o)
    return b, obj, done


def frac(x):
    if not math.isfinite(float(x)):          # 0/0 of the code (no pair / overall mean 0): outside the statement
        return [0, 1], False
    f = Fraction(float(x)).limit_denominator(FRAC_DEN)
    return [f.numerator, f.denominator], abs(float(f) - float(x)) <= 1e-12


def counter_out(cnt):
    """a returned Counter distance -> count as [[distance, count]]; counts that are whole numbers (1.0) are taken as such"""
    out, ok = [], True
    for d, c in cnt.items():
        try:
            di, ci = int(d), int(c)
            if di != d or ci != c or di < 0:
                raise ValueError
            out.append([di, ci])
        except Exception:
            ok = False
    return out, ok


def observe(M, b, obj, rng, quick):
    from hypergraphx.representations.projections import clique_projection
    st = b.state(obj)
    c = {"st": st}
    events = list(obj.get_edges())
    sizes = sorted({len(e[1]) for e in events})
    n_calls = 0

    def uset(e):
        return sorted(b.unlab(x) for x in e)

    # X09-e
    df = {"raised": False, "rows": []}
    try:
        with quiet():
            frame = M._to_df(obj)
        df["rows"] = [[int(r.timestamp), uset(r.nodes), int(r.order)] for r in frame.itertuples()]
        if list(frame.columns) != ["timestamp", "nodes", "order"]:
            df["raised"] = True
    except Exception:
        df["raised"] = True
    c["df"] = df
    n_calls += 1
    if not events:
        return c, n_calls
    agg = None
    try:
        with quiet():
            agg = obj.aggregate(max(t for t, _ in events) + 100)[0]
    except Exception:
        return c, n_calls
    # X09-a
    nd = {"raised": False, "ents": []}
    try:
        with quiet():
            g = clique_projection(agg)
            if g.number_of_nodes() > 0:
                d = M.compute_all_nodes_shortest_path(g)
                nd["ents"] = [[b.unlab(x), b.unlab(y), int(v)] for x, row in d.items() for y, v in row.items()]
        n_calls += 1
    except Exception:
        nd["raised"] = True
    c["nd"] = nd
    # X09-b
    ed = {"raised": False, "n": 0, "ents": []}
    dist = None
    try:
        with quiet():
            dist = M.compute_all_edges_shortest_path(agg, aggregate=True)
        ed["n"] = len(dist)
        ed["ents"] = [[uset(k[0]), uset(k[1]), int(v) if int(v) == v else -1] for k, v in dist.items()]
    except Exception:
        ed["raised"] = True
    n_calls += 1
    c["ed"] = ed
    # X09-c: the default arguments
    edd = {"raised": False, "n": 0, "ents": [], "pcraised": False}
    try:
        with quiet():
            dd = M.compute_all_edges_shortest_path(obj)
        edd["n"] = len(dd)
        edd["ents"] = [[uset(k[0]), uset(k[1]), int(v) if int(v) == v else -1] for k, v in dd.items()]
    except Exception as ex:
        edd["raised"] = True
        edd["exception"] = type(ex).__name__
    try:
        with quiet():
            M.get_mean_distance_events(obj, sizes[0])
    except Exception:
        edd["pcraised"] = True
    n_calls += 2
    c["edd"] = edd
    if dist is None:
        return c, n_calls
    # X09-d
    zs = sizes + [z for z in range(1, 6) if z not in sizes][:1]
    pc = []
    for z in zs:
        for cross in (False, True):
            r = {"z": z, "cross": cross, "raised": False, "intok": True, "cnt": []}
            try:
                with quiet():
                    cnt = M.get_mean_distance_events(obj, z, dict(dist), cross_order=cross)
                r["cnt"], r["intok"] = counter_out(cnt)
            except Exception as ex:
                r["raised"] = True
                r["exception"] = type(ex).__name__
            pc.append(r)
            n_calls += 1
    c["pc"] = pc
    # X09-f
    span = max(t for t, _ in events) - min(t for t, _ in events)
    cond = []
    for z in sizes:
        for same in (True, False):
            if quick and rng.random() < 0.4:
                continue
            pool = list(range(1, span + 3))
            dts = sorted(rng.sample(pool, min(len(pool), rng.choice([1, 2, 3]))))
            r = {"z": z, "same": same, "dts": dts, "raised": False, "avg": [0, 1], "avgok": True, "dist": [], "ravg": []}
            try:
                with quiet():
                    out = M.topological_temporal_cond_distance(obj, z, distance_dict=dict(dist), same_order=same,
                                                               fit_correlation=False, dt_list=list(dts))
                r["avg"], ok = frac(out["avg_top_dist"])
                r["avgok"] = ok
                for k, v in out["cond_top_dist_distribution"].items():
                    cc, ok = counter_out(v)
                    r["avgok"] = r["avgok"] and ok
                    r["dist"].append([int(k), cc])
                for k, v in out["avg_cond_top_dist"].items():
                    f, ok = frac(v)
                    r["avgok"] = r["avgok"] and ok
                    r["ravg"].append([int(k), f])
            except Exception as ex:
                r["raised"] = True
                r["exception"] = "%s: %s" % (type(ex).__name__, str(ex)[:120])
                r["avg"], r["dist"], r["ravg"] = [0, 1], [], []
            cond.append(r)
            n_calls += 1
    if cond:
        c["cond"] = cond
    return c, n_calls


# ---------------------------------------------------------------------------------------------
def run(tier, seed):
    res = Result(PROP, tier, seed, "model_checking")
    rng = random.Random(seed * 7793 + 9)
    quick = tier == "quick"
    t0 = time.time()
    pool = cf.ThreadPoolExecutor(max_workers=1)
    fut = pool.submit(explore, res, tier)
    M = load_module(res)

    cases, descr = [], []
    counters = {"objects": 0, "calls": 0, "connected_objects": 0, "rejected_as_disconnected": 0, "events": 0, "cond_calls": 0}
    plan = [("connected", 56 if quick else 280), ("history", 24 if quick else 120)]
    i = 0
    for origin, count in plan:
        for _ in range(count):
            n = rng.choice([3, 4, 4, 5, 5, 6])
            fam = FAMS[i % len(FAMS)]
            weighted = i % 3 == 1
            times = rng.choice([[0, 1], [0, 1, 2], [0, 2, 3], [1, 2, 4, 7], [0, 1, 2, 3]])
            ops = gen_connected(rng, n, times) if origin == "connected" else gen_history(rng, n, times, rng.randint(3, 12))
            b, obj, done = build(fam, n, weighted, ops, rng)
            c, k = observe(M, b, obj, rng, quick)
            cases.append(c)
            descr.append({"n": n, "family": fam, "labels": b.labels, "weighted": weighted, "origin": origin, "calls": done})
            counters["objects"] += 1
            counters["calls"] += k
            counters["events"] += len(c["st"]["edges"])
            counters["cond_calls"] += len(c.get("cond", []))
            if "ed" in c:
                counters["connected_objects" if not c["ed"]["raised"] else "rejected_as_disconnected"] += 1
            i += 1
    tbind = time.time() - t0

    t1 = time.time()
    v = K.run_cases("Trace_X09", cases, {"Kind": "temp"}, 10 if quick else 14)
    for idx, failed in v["rejects"]:
        d, c = descr[idx], cases[idx]
        groups = {}
        for f in failed:
            if f in FINDING:
                groups.setdefault(("finding", FINDING[f]["finding"]), (FINDING[f], []))[1].append(f)
            else:
                fn = FN.get(f, "?")
                groups.setdefault(("fn", fn), ({"function": fn}, []))[1].append(f)
        for (tag, _), (sig, cl) in groups.items():
            if tag == "fn":
                sig = dict(sig, clauses=sorted(cl))
            events = sorted((e["k"]["x"], e["k"]["s"]) for e in c["st"]["edges"])
            what = "%s: %s on a %d-node temporal hypergraph (labels %s, %s) disagree(s) with EventDist.tla; events (time, spec nodes): %s" % (
                sig["function"], ",".join(sorted(cl)), d["n"], d["labels"], d["origin"], events)
            logged = {k_: v_ for k_, v_ in c.items() if k_ != "st"}
            if tag == "finding":
                what += "; compute_all_edges_shortest_path(H) -> %s" % c.get("edd", {}).get("exception", "?")
            else:
                exs = sorted({r.get("exception") for key in ("pc", "cond") for r in c.get(key, []) if r.get("exception")})
                if exs:
                    what += "; exceptions: %s" % exs[:3]
            res.reject(sig, what, {"case": d, "state": c["st"], "failing_clauses": sorted(cl), "logged": logged})
    fut.result()
    pool.shutdown()
    res.cov(traces_validated_against_impl=len(cases), validator_states=v["states"], label_families=len(FAMS),
            bind_s=round(tbind, 1), validate_s=round(time.time() - t1, 1), **counters)
    good = [k for k, c in enumerate(cases) if "pc" in c and len(c["st"]["edges"]) >= 4]
    for k in good[:2]:
        c = cases[k]
        res.sample({"labels": descr[k]["labels"], "events(time, spec nodes)": sorted((e["k"]["x"], e["k"]["s"]) for e in c["st"]["edges"]),
                    "edge_distances": c["ed"]["ents"][:6], "pair_counts": c["pc"][:4], "cond": c.get("cond", [])[:2]})
    res.assume("`order` in this module is the number of nodes of the hyperedge (as _to_df documents), not size - 1",
               "distances between hyperedges are demanded where every hyperedge node lies in the connected clique projection; "
               "elsewhere only `the call is rejected` (any exception); a hypergraph of singletons only: nothing demanded",
               "Counter values that are whole floats (1.0) are taken as the integers they equal; a distance with count 0 may be present or absent",
               "objects have at most %d events so that all products of numerators/denominators stay inside TLC's 32-bit integers" % MAX_EVENTS,
               "returned averages are compared as the fraction with denominator <= %d reproducing the float within 1e-12; "
               "they are demanded only where every mean is over >= 1 pair and the overall mean is > 0" % FRAC_DEN,
               "dt_list is an ascending list of positive integers; fit_correlation (a least-squares slope of floats) is not checked; "
               "verbose=True (progress output through tqdm) is not exercised")
    return res.finish()
