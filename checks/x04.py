"""X04 - vertex-labelled configuration model and the activity-driven temporal generator.

Statements X04-a .. X04-i: top of spec/ext/ChainsV.tla.

1. explore   TLC, exhaustive, MC_ChainsV: (Model = "cmv") vertex_labeled_mh as the code runs it - Counter, epochs,
             n_clash - on every input with 2..3 hyperedges over 3-4 nodes, every (detailed, size) variant, every
             outcome of every random choice, any number of epochs: every step keeps degrees / sizes / entry count,
             a collected proposal is an accepted step of the sequential chain, the result satisfies the black-box
             clause set; the chain is irreducible on these instances; n_clash = 2 and the spec mutants must be
             REJECTED by TLC.  (Model = "hoad") HOADmodel over 2-4 nodes, every activity vector over {0, 1/2, 1},
             every variate and every draw; the validator's relations accept every behaviour of the model.
2. validate  the real functions are run for many seeds; TLC (Trace_X04) evaluates the relations on every
             (arguments, result) pair.  No hooks: black box.  configuration_model(label="vertex"): the clause set of
             C13 (CMPost), argument untouched, and - on inputs small enough to enumerate - "the result is the support of
             a bag the chain reaches", for n_steps <= 1 the single-step / single-epoch relation.  HOADmodel: HOADPost on
             seeded runs; HOADDriven on runs where the harness supplies the `random` module object of
             activity_driven (variates on a grid of eighths, so that `activity > u` is decided exactly by TLC,
             including u == activity).  rnd_pwl: bounds (float comparison in Python, see assumptions).
"""
import concurrent.futures as cf
import contextlib
import io
import itertools
import json
import math
import random
import re
import signal
import sys
import time

import numpy as np

from harness import cases as K
from harness import tlc
from harness.binding import Binding, LABEL_FAMILIES
from harness.verdict import Result

FAMS = ("ident", "sparse", "str", "zero")
EMPTY = {"nodes": [], "edges": [], "nmd": [], "hmd": {}, "wtd": False, "err": ""}
DEN = 8                                    # activities and variates of the driven HOAD runs are multiples of 1/8
D1 = "D1_hyperedge_ids_read_as_multiplicities"

CMV_INV = ["EntriesAreHyperedges", "CountsPositive", "DegConserved", "DegPerSizeConserved", "SizeBagConserved",
           "EntryCountConserved", "CounterConserved", "EpochRemovesEachValueOnce", "EmitNoIncrease", "EmitExactWhenCountKept",
           "CountKeptIffNoParallel", "UntouchedIntact", "EmitSatisfiesCMPost"]
CMV_ONCE = ["Irreducible", "EpochsAreChainRuns"]
HOAD_INV = ["HLinksWellFormed", "HAllZeroNothing", "HAllOneOnePerActivation", "HOnePerActivation", "HPostHolds", "HDrivenHolds"]


# ---------------------------------------------------------------------------
# 1. the design
def _mc(name, consts, invariants, constraints=(), workers=4, timeout=1500):
    base = {"Kind": "hg", "Model": "cmv", "Node": {1, 2, 3, 4}, "MaxEdges": 3, "NClash": 1, "Mutant": "none",
            "HN": 3, "HTime": 1, "HOrders": {1}, "HD": 2, "Hist": False}
    base.update(consts)
    base["Kind"] = "hg" if base["Model"] == "cmv" else "temp"
    cfg = tlc.cfg_text(base, invariants=invariants, constraints=constraints)
    r = tlc.run("MC_ChainsV", cfg, workers=workers, timeout=timeout, heap="6g")
    s = tlc.stats(r["out"]) or {"generated": 0, "distinct": 0}
    violated = [l.split()[2] for l in r["out"].splitlines() if l.startswith("Error: Invariant ") and "is violated" in l]
    if "The first argument of Assert evaluated to FALSE" in r["out"]:
        violated.append("Assert")
    shown = {k: (sorted(v) if isinstance(v, set) else v) for k, v in consts.items()}
    return {"module": "MC_ChainsV", "name": name, "constants": shown, "invariants": list(invariants),
            "constraints": list(constraints), "ok": tlc.ok_exploration(r), "violated": violated, "states": s["distinct"],
            "transitions": s["generated"], "wall_s": round(r["wall"], 1),
            "excerpt": "" if tlc.ok_exploration(r) else tlc.error_excerpt(r["out"], 14)}


def explore(res, tier):
    q = tier == "quick"
    n3, n4, n5 = {1, 2, 3}, {1, 2, 3, 4}, {1, 2, 3, 4, 5}
    pos = [("cmv n_clash=1", {"Node": n4, "MaxEdges": 3, "NClash": 1}, CMV_INV, 6),
           ("cmv n_clash=0 + irreducibility, 3 nodes", {"Node": n3, "MaxEdges": 3, "NClash": 0}, CMV_INV + CMV_ONCE, 2),
           ("cmv n_clash=0 + irreducibility, 2 hyperedges", {"Node": n4, "MaxEdges": 2, "NClash": 0}, CMV_INV + CMV_ONCE, 2),
           ("hoad two time steps", {"Model": "hoad", "HN": 3, "HTime": 2, "HOrders": {1}}, HOAD_INV, 2),
           ("hoad with draws, order 1", {"Model": "hoad", "HN": 3, "HTime": 1, "HOrders": {1}, "Hist": True}, HOAD_INV, 1),
           ("hoad with draws, order 2", {"Model": "hoad", "HN": 3, "HTime": 1, "HOrders": {2}, "Hist": True}, HOAD_INV, 1),
           ("hoad with draws, two time steps", {"Model": "hoad", "HN": 2, "HTime": 2, "HOrders": {1}, "Hist": True}, HOAD_INV, 1)]
    if not q:
        pos += [("cmv n_clash=0 + irreducibility, 4 nodes", {"Node": n4, "MaxEdges": 3, "NClash": 0}, CMV_INV + CMV_ONCE, 5),
                ("cmv n_clash=0, 5 nodes", {"Node": n5, "MaxEdges": 3, "NClash": 0}, CMV_INV, 6),
                ("cmv n_clash=0, 4 hyperedges", {"Node": n4, "MaxEdges": 4, "NClash": 0}, CMV_INV, 4),
                ("hoad orders {1,2}", {"Model": "hoad", "HN": 3, "HTime": 1, "HOrders": {1, 2}}, HOAD_INV, 3),
                ("hoad 4 nodes order 2", {"Model": "hoad", "HN": 4, "HTime": 1, "HOrders": {2}}, HOAD_INV, 2),
                ("hoad with draws, orders {1,2}", {"Model": "hoad", "HN": 2, "HTime": 1, "HOrders": {1, 2}, "Hist": True}, HOAD_INV, 1)]
    # spec mutants / negative controls: TLC must report a violation
    neg = [("mutant ids_as_multiplicities (Deviation D1)", {"Node": n3, "Mutant": "ids_as_multiplicities"}, CMV_INV, ()),
           ("mutant drop_node", {"Node": n3, "Mutant": "drop_node"}, CMV_INV, ()),
           ("mutant ignore_detailed", {"Node": n3, "Mutant": "ignore_detailed"}, CMV_INV, ()),
           ("mutant forget_untouched", {"Node": n3, "Mutant": "forget_untouched"}, CMV_INV, ()),
           ("n_clash=2 breaks degree conservation", {"Node": n4, "NClash": 2}, ["DegConserved"],
            ("ClashWitnessInput",) if q else ()),
           ("control: per-size degrees move without detailed", {"Node": n3}, ["DegPerSizeConservedEvenIfNotDetailed"], ()),
           ("control: the chain creates parallel hyperedges", {"Node": n3}, ["NeverParallel"], ()),
           ("hoad mutant >= instead of >", {"Model": "hoad", "Mutant": "geq", "Hist": True}, ["HPostHolds", "HDrivenHolds"], ()),
           ("hoad mutant self-collision kept", {"Model": "hoad", "Mutant": "keep_collision", "Hist": True},
            ["HPostHolds", "HDrivenHolds"], ())]
    with cf.ThreadPoolExecutor(max_workers=6 if q else 4) as ex:
        fp = [ex.submit(_mc, nm, c, inv, (), w) for nm, c, inv, w in pos]
        fn = [ex.submit(_mc, nm, c, inv, cons, 2) for nm, c, inv, cons in neg]
        pos_r = [f.result() for f in fp]
        neg_r = [f.result() for f in fn]
    for r in pos_r:
        if not r["ok"]:
            raise tlc.TLCError("MC_ChainsV %s failed:\n%s" % (r["name"], r["excerpt"]))
    for r in neg_r:
        if r["ok"] or not r["violated"]:
            raise tlc.TLCError("MC_ChainsV %s was NOT rejected by TLC: the invariants are vacuous\n%s" % (r["name"], r["excerpt"]))
    res.cov(states=sum(r["states"] for r in pos_r), transitions=sum(r["transitions"] for r in pos_r))
    for r in pos_r + neg_r:
        r.pop("excerpt", None)
    res.coverage["explorations"] = pos_r
    res.coverage["spec_mutants_rejected_by_tlc"] = [{"name": r["name"], "violated": r["violated"], "checked": r["invariants"]}
                                                    for r in neg_r]
    res.coverage["invariants"] = CMV_INV + CMV_ONCE + HOAD_INV


# ---------------------------------------------------------------------------
# 2. inputs
def _rand_edges(rng, n, m, zmin=1, zmax=4):
    out, tries = set(), 0
    while len(out) < m and tries < 200:
        tries += 1
        z = rng.randint(zmin, min(zmax, n))
        out.add(tuple(sorted(rng.sample(range(1, n + 1), z))))
    return sorted(out)


def cm_inputs(rng, tier):
    q = tier == "quick"
    ins = []
    e3 = [c for z in (1, 2, 3) for c in itertools.combinations((1, 2, 3), z)]
    small = [list(c) for m in (2, 3) for c in itertools.combinations(e3, m)]
    for es in (rng.sample(small, 12) if q else small):
        ins.append((3, es))
    for _ in range(40 if q else 300):                      # small enough for the chain-level clauses
        n = rng.randint(3, 6)
        ins.append((n, _rand_edges(rng, n, rng.randint(2, 4), 1, 3)))
    for _ in range(14 if q else 120):                      # dense uniform: parallel hyperedges are likely
        n = rng.choice([3, 4, 4, 5])
        z = rng.choice([2, 2, 3]) if n > 3 else 2
        allz = list(itertools.combinations(range(1, n + 1), z))
        es = rng.sample(allz, rng.randint(2, min(len(allz), 4 if rng.random() < 0.6 else 8)))
        ins.append((n, sorted(set(es))))
    for _ in range(16 if q else 140):                      # larger: black-box clauses only
        n = rng.randint(4, 8)
        ins.append((n, _rand_edges(rng, n, rng.randint(5, 10), 1, 5)))
    for _ in range(6 if q else 50):                        # nested / overlapping families
        n = rng.randint(4, 7)
        core = rng.sample(range(1, n + 1), 2)
        es = {tuple(sorted(core))}
        for _ in range(rng.randint(1, 4)):
            extra = rng.sample([x for x in range(1, n + 1) if x not in core], rng.randint(0, min(2, n - 2)))
            es.add(tuple(sorted(core[:rng.randint(1, 2)] + extra)))
        ins.append((n, sorted(es)))
    return [(n, es) for n, es in ins if len(es) >= 2]


def _proposable(es, detailed):
    """the statements quantify over inputs on which a proposal exists"""
    if len(es) < 2:
        return False
    if not detailed:
        return True
    zs = [len(e) for e in es]
    return any(zs.count(z) >= 2 for z in set(zs))


def plan_cmv(rng, tier):
    specs = []
    per_input = 5 if tier == "quick" else 8
    for n, es in cm_inputs(rng, tier):
        sizes = sorted({len(e) for e in es})
        for r in range(per_input):
            sz = 0 if r % 4 != 3 else rng.choice(sizes)
            sel = [e for e in es if sz == 0 or len(e) == sz]
            det = (r // 2) % 2 == 0
            if not _proposable(sel, det):
                det = False
            if not _proposable(sel, det):
                sz, sel = 0, es
            if not _proposable(sel, det):
                continue
            specs.append({"fn": "cmv", "n": n, "edges": [list(e) for e in es], "family": FAMS[len(specs) % 4],
                          "weighted": rng.random() < 0.1,
                          "isolated": [x for x in range(1, n + 1) if rng.random() < 0.08],
                          "args": {"n_steps": rng.choice([0, 1, 1, 1, 2, 3, 5, 8, 13, 30]), "n_clash": r % 2 if r < 4 else rng.choice([0, 1]),
                                   "detailed": det, "size": sz, "spelled": rng.choice(["size", "order"]),
                                   "pass_n_clash": rng.random() < 0.8},
                          "np_seed": rng.randrange(2 ** 31), "py_seed": rng.randrange(2 ** 31),
                          "order_seed": rng.randrange(2 ** 31)})
            a = specs[-1]["args"]
            if not a["pass_n_clash"]:
                a["n_clash"] = 1                           # the default
    return specs


def plan_hoad(rng, tier):
    specs = []
    grid = [0, 0, 1, 2, 4, 6, 8, 8]
    for i in range(260 if tier == "quick" else 3000):
        N = rng.randint(1, 6)
        orders = rng.sample(range(1, min(4, N) + 1), rng.randint(1, min(3, N)))
        mode = i % 6
        acts = []
        for o in orders:
            if mode == 0:
                a = [0] * N
            elif mode == 1:
                a = [DEN] * N
            elif mode == 2:
                a = [rng.choice([0, DEN]) for _ in range(N)]
            else:
                a = [rng.choice(grid) for _ in range(N)]
            acts.append([o, a])
        specs.append({"fn": "hoad", "n": N, "acts": acts, "time": rng.choice([0, 1, 1, 2, 3, 5]), "pass_time": rng.random() < 0.9,
                      "driven": i % 2 == 0, "as_int": mode in (0, 1) and rng.random() < 0.5,
                      "py_seed": rng.randrange(2 ** 31), "np_seed": rng.randrange(2 ** 31)})
    return specs


def plan_pwl(rng, tier):
    specs = []
    for i in range(60 if tier == "quick" else 600):
        xmin = rng.choice([0.001, 0.01, 0.5, 1.0, 2.0, 1e-6])
        xmax = xmin * rng.choice([1.0, 1.5, 10.0, 1000.0]) if rng.random() < 0.8 else max(xmin, 1.0)
        specs.append({"fn": "pwl", "xmin": xmin, "xmax": xmax, "g": rng.choice([2.25, 2.25, 0.0, 0.5, 1.5, 2.0, 3.0, -1.0]),
                      "size": rng.choice([0, 1, 1, 2, 5, 17, 100]), "pass_size": True, "driven": i % 2 == 0,
                      "np_seed": rng.randrange(2 ** 31), "r_seed": rng.randrange(2 ** 31)})
        if specs[-1]["size"] == 1 and rng.random() < 0.5:
            specs[-1]["pass_size"] = False                 # the default
    return specs


# ---------------------------------------------------------------------------
# 3. running the real code
class _Timeout(Exception):
    pass


@contextlib.contextmanager
def _limit(seconds):
    """a call that does not come back is a failed call, not a hung check (main thread only)"""
    def onalarm(signum, frame):
        raise _Timeout("no result after %d s" % seconds)
    try:
        old = signal.signal(signal.SIGALRM, onalarm)
    except ValueError:                                     # not the main thread
        yield
        return
    signal.alarm(seconds)
    try:
        yield
    finally:
        signal.alarm(0)
        signal.signal(signal.SIGALRM, old)


def _call(fn, *a, **kw):
    buf = io.StringIO()
    try:
        with _limit(30), contextlib.redirect_stdout(buf):
            out = fn(*a, **kw)
        if out is None:
            return False, None, "returned None", buf.getvalue()
        return True, out, "", buf.getvalue()
    except Exception as ex:
        return False, None, "%s: %s" % (type(ex).__name__, ex), buf.getvalue()


_MSG = re.compile(r"(\d+) epochs completed, (\d+) steps taken, (\d+) steps rejected")


def exec_cmv(sp):
    from hypergraphx.generation.configuration_model import configuration_model
    b = Binding("hg", LABEL_FAMILIES[sp["family"]](sp["n"]), random.Random(sp["order_seed"]))
    obj = b.new(sp.get("weighted", False))
    es = list(sp["edges"])
    random.Random(sp["order_seed"]).shuffle(es)
    for x in sp.get("isolated", ()):
        obj.add_node(b.lab(x))
    for i, e in enumerate(es):
        if sp.get("weighted"):
            obj.add_edge(b._tuple(e), weight=1 + (i * 7 + sp["order_seed"]) % 3)
        else:
            obj.add_edge(b._tuple(e))
    inp = b.state(obj)
    a = sp["args"]
    kw = {"n_steps": a["n_steps"], "label": "vertex", "detailed": a["detailed"]}
    if a["pass_n_clash"]:
        kw["n_clash"] = a["n_clash"]
    if a["size"]:
        if a["spelled"] == "order":
            kw["order"] = a["size"] - 1
        else:
            kw["size"] = a["size"]
    np.random.seed(sp["np_seed"])
    random.seed(sp["py_seed"])
    ok, out, err, printed = _call(configuration_model, obj, **kw)
    m = _MSG.search(printed or "")
    sel = [e for e in es if not a["size"] or len(e) == a["size"]]
    maxz = max(len(e) for e in sel)
    return {"fn": "cmv", "inp": inp, "after": b.state(obj), "ok": ok, "err": err, "out": b.state(out) if ok else EMPTY,
            "args": {"detailed": bool(a["detailed"]), "size": int(a["size"]), "n_steps": int(a["n_steps"]), "n_clash": int(a["n_clash"])},
            "listing": [sorted(e) for e in es], "steps": int(m.group(2)) if (ok and m) else -1,
            "deep": len(sel) <= 4 and maxz <= 4, "diag": len(sel) <= 4 and maxz <= 4, "labels": b.labels}


class _RandomProxy:
    """stands in for the `random` module object inside activity_driven: variates on the grid j/DEN, samples by a
    private generator; everything else is the real module"""

    def __init__(self, seed):
        self.rng = random.Random(seed)
        self.log = []

    def random(self):
        j = self.rng.choice([0, 0, 1, 2, 3, 4, 5, 6, 7, 7])
        self.log.append(("u", j))
        return j / DEN

    def sample(self, population, k, **kw):
        s = self.rng.sample(list(population), k)
        self.log.append(("s", list(s), len(population)))
        return list(s)

    def __getattr__(self, name):
        return getattr(random, name)


def _draws(log):
    """(u [s])* -> records; None when the calls are not shaped like that (the code no longer draws this way)"""
    out = []
    for ev in log:
        if ev[0] == "u":
            out.append({"u": ev[1], "has": False, "s": [], "pop": 0})
        elif ev[0] == "s":
            if not out or out[-1]["has"] or not all(isinstance(x, int) and not isinstance(x, bool) for x in ev[1]):
                return None
            out[-1].update(has=True, s=[x + 1 for x in ev[1]], pop=ev[2])
    return out


def exec_hoad(sp):
    import hypergraphx.generation.activity_driven as AD
    N = sp["n"]
    conv = (lambda v: int(v // DEN)) if sp["as_int"] else (lambda v: v / DEN)
    acts = {o: [conv(v) for v in a] for o, a in sp["acts"]}
    random.seed(sp["py_seed"])
    np.random.seed(sp["np_seed"])
    proxy, real = _RandomProxy(sp["py_seed"]), AD.__dict__.get("random")
    driven = sp["driven"] and real is random
    if driven:
        AD.random = proxy
    try:
        ok, out, err, _ = _call(AD.HOADmodel, N, acts, sp["time"]) if sp["pass_time"] else _call(AD.HOADmodel, N, acts)
    finally:
        if driven:
            AD.random = real
    draws = _draws(proxy.log) if driven else None
    time_ = sp["time"] if sp["pass_time"] else 100
    unused = bool(driven and not proxy.log and N * time_ * len(sp["acts"]) > 0 and ok)
    b = Binding("temp", list(range(N)))
    return {"fn": "hoad", "n": N, "acts": [{"order": o, "a": list(a)} for o, a in sp["acts"]], "time": time_,
            "driven": bool(driven and draws is not None and not unused), "draws": draws or [], "ok": ok, "err": err,
            "out": b.state(out) if ok else EMPTY, "proxy_unused": unused, "malformed": bool(driven and draws is None)}


class _NPRandomProxy:
    def __init__(self, rs):
        self.rs, self.calls = rs, 0

    def random(self, size=None):
        self.calls += 1
        if size is None:
            return float(self.rs[0])
        k = int(np.prod(size))
        return np.array(self.rs[:k], dtype=float).reshape(size)

    def __getattr__(self, name):
        return getattr(np.random, name)


class _NPProxy:
    def __init__(self, rs):
        self.random = _NPRandomProxy(rs)

    def __getattr__(self, name):
        return getattr(np, name)


def _ranks(xs):
    order = {v: i for i, v in enumerate(sorted(set(xs)))}
    return [order[v] for v in xs]


def exec_pwl(sp):
    import hypergraphx.generation.activity_driven as AD
    size = sp["size"]
    rr = random.Random(sp["r_seed"])
    rs = [rr.choice([0.0, 0.0, 0.5, 1.0 - 2.0 ** -53, rr.randrange(1, 1024) / 1024.0]) for _ in range(max(size, 1))]
    real = AD.__dict__.get("np")
    driven = sp["driven"] and real is np
    proxy = _NPProxy(rs)
    np.random.seed(sp["np_seed"])
    if driven:
        AD.np = proxy
    try:
        if sp["pass_size"]:
            ok, out, err, _ = _call(AD.rnd_pwl, sp["xmin"], sp["xmax"], sp["g"], size)
        else:
            ok, out, err, _ = _call(AD.rnd_pwl, sp["xmin"], sp["xmax"], sp["g"])
    finally:
        if driven:
            AD.np = real
    driven = bool(driven and proxy.random.calls == 1)
    case = {"fn": "pwl", "size": size, "ok": ok, "err": err, "len": 0, "codes": [], "driven": False, "rr": [], "xr": [],
            "rzero": [], "atmin": [], "values": []}
    if not ok:
        return case
    try:
        xs = [float(v) for v in np.asarray(out).ravel()]
    except Exception as ex:
        case.update(ok=False, err="result is not an array of numbers: %s" % ex)
        return case
    lo, hi, tol = sp["xmin"], sp["xmax"], 1e-9
    case.update(len=len(xs), values=xs[:8],
                codes=[(-1 if (not x >= lo * (1 - tol)) else 1 if (not x <= hi * (1 + tol)) else 0) for x in xs])
    if driven and len(xs) == size:
        case.update(driven=True, rr=_ranks(rs[:size]), xr=_ranks(xs), rzero=[r == 0.0 for r in rs[:size]],
                    atmin=[abs(x - lo) <= tol * lo for x in xs])
    return case


EXEC = {"cmv": exec_cmv, "hoad": exec_hoad, "pwl": exec_pwl}


# ---------------------------------------------------------------------------
# 4. TLC judges
def validate(cases, tier):
    groups = {"hg": [i for i, c in enumerate(cases) if c["fn"] != "hoad"],
              "temp": [i for i, c in enumerate(cases) if c["fn"] == "hoad"]}
    rejects, states = [], 0
    strip = ("labels", "values", "err", "proxy_unused", "malformed")
    procs = {"hg": 4, "temp": 2} if tier == "quick" else {"hg": 8, "temp": 4}
    with cf.ThreadPoolExecutor(max_workers=2) as ex:
        futs = {}
        for g, idx in groups.items():
            if idx:
                sub = [{k: v for k, v in cases[i].items() if k not in strip} for i in idx]
                futs[g] = ex.submit(K.run_cases, "Trace_X04", sub, {"Kind": g}, procs[g], None, 1500)
        for g, f in futs.items():
            v = f.result()
            rejects += [(groups[g][j], failed) for j, failed in v["rejects"]]
            states += v["states"]
    return sorted(rejects), states


def _is_model(c):
    return c.startswith("model_")


def judge(res, specs, cases, rejects):
    nprop = nmodel = nd1 = 0
    d1_seen = any(cases[i]["fn"] == "cmv" and any(not _is_model(c) and not c.startswith("diag_") for c in f)
                  and "diag_unexplained_by_D1" not in f for i, f in rejects)
    for i, failed in rejects:
        sp, c = specs[i], cases[i]
        prop = sorted(x for x in failed if not _is_model(x) and not x.startswith("diag_"))
        model = sorted(x for x in failed if _is_model(x))
        if prop:
            nprop += 1
            if sp["fn"] == "cmv":
                fnname = "configuration_model"
                call = "configuration_model(label='vertex', %s) on hyperedges %s inserted in the order %s (labels %s, numpy seed %d)" % (
                    ", ".join("%s=%s" % kv for kv in sorted(sp["args"].items()) if kv[0] not in ("spelled", "pass_n_clash")),
                    sp["edges"], c["listing"], c["labels"], sp["np_seed"])
                got = "returned hyperedges %s" % sorted(e["k"]["s"] for e in c["out"]["edges"]) if c["ok"] else "raised %s" % c["err"]
                if "diag_unexplained_by_D1" not in failed:
                    nd1 += 1
                    sig = {"function": fnname, "label": "vertex", "finding": D1}
                    what = ("%s %s: clause(s) %s fail, and the result is exactly what the chain yields when started from the bag in "
                            "which the k-th inserted hyperedge (id k-1) is present k-1 times - vertex_labeled_mh builds its bag with "
                            "Counter(hypergraph._edge_list), a dict hyperedge -> id (proposed patch: "
                            ".work/proposed/x04_vertex_cm_counter_of_ids.diff)" % (call, got, ",".join(prop)))
                elif d1_seen and not c["diag"]:
                    sig = {"function": fnname, "label": "vertex", "finding": "not_diagnosed_large_input_while_D1_is_present"}
                    what = "%s %s: clause(s) %s fail (input too large to decide whether Deviation D1 explains it)" % (call, got, ",".join(prop))
                else:
                    sig = {"function": fnname, "label": "vertex", "clauses": prop, "detailed": sp["args"]["detailed"],
                           "sized": bool(sp["args"]["size"]), "n_clash": sp["args"]["n_clash"]}
                    what = "%s %s: clause(s) %s fail" % (call, got, ",".join(prop))
            elif sp["fn"] == "hoad":
                sig = {"function": "HOADmodel", "clauses": prop, "driven": c["driven"]}
                what = ("HOADmodel(N=%d, activities=%s (in eighths), time=%s)%s, random seed %d: clause(s) %s fail; result %s%s"
                        % (sp["n"], sp["acts"], sp["time"] if sp["pass_time"] else "default",
                           " with the harness's random module" if c["driven"] else "", sp["py_seed"], ",".join(prop),
                           sorted((e["k"]["x"], [n - 1 for n in e["k"]["s"]]) for e in c["out"]["edges"])[:12],
                           "" if c["ok"] else " (raised %s)" % c["err"]))
            else:
                sig = {"function": "rnd_pwl", "clauses": prop}
                what = ("rnd_pwl(xmin=%r, xmax=%r, g=%r, size=%s), numpy seed %d: clause(s) %s fail; first values %s%s"
                        % (sp["xmin"], sp["xmax"], sp["g"], sp["size"] if sp["pass_size"] else "default", sp["np_seed"],
                           ",".join(prop), c["values"], "" if c["ok"] else " (raised %s)" % c["err"]))
            res.reject(sig, what, {"spec": sp, "failing_clauses": prop, "case": {k: v for k, v in c.items() if k != "values"}})
        elif model:
            nmodel += 1
            res.model_drift("%s: %s - spec %s; the property clauses hold for this run"
                            % (sp["fn"], ",".join(model), {k: v for k, v in sp.items() if k not in ("edges", "acts")}))
    res.cov(runs_rejected_on_property=nprop, runs_with_model_drift_only=nmodel, rejections_explained_by_deviation_D1=nd1)


def run(tier, seed):
    res = Result("X04", tier, seed, "model_checking")
    t0 = time.time()
    with cf.ThreadPoolExecutor(max_workers=1) as bg:
        fut = bg.submit(explore, res, tier)
        rng = random.Random(seed * 1000003 + 1004)
        specs = plan_cmv(rng, tier) + plan_hoad(rng, tier) + plan_pwl(rng, tier)
        cases = [EXEC[sp["fn"]](sp) for sp in specs]
        t1 = time.time()
        if tier == "quick":
            fut.result()
        rejects, states = validate(cases, tier)
        fut.result()
    print("[X04] run code %.1fs, total %.1fs (%d calls)" % (t1 - t0, time.time() - t0, len(specs)), file=sys.stderr)
    judge(res, specs, cases, rejects)
    cmv = [c for c in cases if c["fn"] == "cmv"]
    hoad = [c for c in cases if c["fn"] == "hoad"]
    pwl = [c for c in cases if c["fn"] == "pwl"]
    for c in hoad:
        if c["malformed"] or c["proxy_unused"]:
            res.model_drift("HOADmodel no longer draws through random.random / random.sample as (variate [, sample])*: "
                            "the relation HOADDriven cannot be evaluated, black-box clauses only")
            break
    res.cov(cases_validated=len(cases), traces_validated_against_impl=len(cases), validator_states=states,
            cmv_runs=len(cmv), cmv_runs_with_chain_level_clauses=sum(1 for c in cmv if c["deep"]),
            cmv_runs_single_epoch=sum(1 for c in cmv if c["args"]["n_steps"] <= 1),
            cmv_runs_n_clash_0=sum(1 for c in cmv if c["args"]["n_clash"] == 0),
            cmv_runs_sized=sum(1 for c in cmv if c["args"]["size"]),
            cmv_runs_not_detailed=sum(1 for c in cmv if not c["args"]["detailed"]),
            cmv_runs_where_hyperedges_coincided=sum(1 for c in cmv if c["ok"] and len(c["out"]["edges"]) < len(c["inp"]["edges"])),
            cmv_runs_that_changed_the_hypergraph=sum(1 for c in cmv if c["ok"] and sorted(map(str, (e["k"] for e in c["out"]["edges"])))
                                                     != sorted(map(str, (e["k"] for e in c["inp"]["edges"])))),
            cmv_runs_with_reported_steps=sum(1 for c in cmv if c["steps"] >= 0),
            cmv_distinct_inputs=len({json.dumps(s["edges"]) for s in specs if s["fn"] == "cmv"}),
            hoad_runs=len(hoad), hoad_runs_with_draws=sum(1 for c in hoad if c["driven"]),
            hoad_activity_tests_validated=sum(len(c["draws"]) for c in hoad if c["driven"]),
            hoad_variate_equal_to_activity=sum(1 for c in hoad if c["driven"] for k, d in enumerate(c["draws"])
                                               if _act_of(c, k) == d["u"]),
            hoad_self_collisions=sum(1 for c in hoad if c["driven"] for k, d in enumerate(c["draws"])
                                     if d["has"] and (k % c["n"]) + 1 in d["s"]),
            hoad_hyperedges=sum(len(c["out"]["edges"]) for c in hoad),
            hoad_all_zero_runs=sum(1 for s in specs if s["fn"] == "hoad" and all(v == 0 for _, a in s["acts"] for v in a)),
            hoad_all_one_runs=sum(1 for s in specs if s["fn"] == "hoad" and all(v == DEN for _, a in s["acts"] for v in a)),
            pwl_runs=len(pwl), pwl_runs_with_given_variates=sum(1 for c in pwl if c["driven"]),
            pwl_values=sum(c["len"] for c in pwl))
    for c in (cmv[:1] + hoad[:1] + pwl[:1]):
        if c["fn"] == "cmv":
            res.sample({"fn": "configuration_model(label='vertex')", "args": c["args"], "input": [e["k"]["s"] for e in c["inp"]["edges"]],
                        "output": [e["k"]["s"] for e in c["out"]["edges"]], "steps_reported": c["steps"]})
        elif c["fn"] == "hoad":
            res.sample({"fn": "HOADmodel", "n": c["n"], "acts_in_eighths": c["acts"], "time": c["time"], "draws": c["draws"][:6],
                        "output": [[e["k"]["x"], e["k"]["s"]] for e in c["out"]["edges"]][:8]})
        else:
            res.sample({"fn": "rnd_pwl", "size": c["size"], "values": c["values"], "codes": c["codes"][:8]})
    res.assume("black box: results are read through the public API only (Binding.state); there are no hooks for the vertex-labelled "
               "chain, so rejected proposals are not observable in the code - they are covered on the design (MC_ChainsV)",
               "quantifier of X04-a..e: n_clash in {0, 1} (n_clash >= 2 does not preserve degrees: negative control in MC_ChainsV), "
               "inputs with at least two different hyperedges (of one size when detailed)",
               "n_steps = 0 still runs one epoch in the code: the unchanged hypergraph and one epoch are both accepted",
               "chain-level clauses (reachability, single step / epoch) are evaluated by TLC on inputs with at most 4 selected "
               "hyperedges of size <= 4; larger inputs get the (input, output) clause set of C13 only",
               "the number of accepted steps is read from the line the function prints ('.. steps taken'): model_ clauses only",
               "HOADmodel with draws: the harness replaces the module attribute `random` of activity_driven by an object whose "
               "random() returns multiples of 1/8 and whose sample() is logged; activities are multiples of 1/8, so TLC decides "
               "`activity > u` exactly; loop order (order, time, node) is assumed; when the code stops drawing this way the "
               "check degrades to the black-box clauses",
               "rnd_pwl is real-valued: the comparison with xmin / xmax (relative tolerance 1e-9) and the ranks are computed in "
               "Python, TLC decides the count and the clauses over these integers; 0 < xmin <= xmax, g != 1",
               "numpy and random global generators are seeded before every call; seeds are in the replay payload")
    return res.finish()


def _act_of(c, k):
    n, t = c["n"], c["time"]
    if n * t == 0:
        return None
    oi = k // (t * n)
    return c["acts"][oi]["a"][k % n] if oi < len(c["acts"]) else None


def replay(path):
    with open(path) as f:
        rp = json.load(f)
    sp = rp["payload"]["spec"]
    case = EXEC[sp["fn"]](sp)
    rejects, _ = validate([case], "quick")
    res = Result("X04", "replay", rp.get("seed", 0), "model_checking")
    judge(res, [sp], [case], rejects)
    for r in res.rejections:
        print("VIOLATION property=X04 replay=%s\n  what: %s" % (path, r["what"]))
    for d in res.drift:
        print("MODEL-DRIFT property=X04 %s" % d)
    print("X04 replay %s" % ("FAIL" if res.rejections else "PASS"))
    return 1 if res.rejections else 0
