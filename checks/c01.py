"""C01 - Hypergraph answers every query as the abstract hypergraph of its history."""
from checks.containers import run_container
from harness import tlc
from harness.verdict import Result

MUTANTS = ("reappend", "nmd_leak", "partial", "weight_after")


def impl_consts(bug, n, maxid, weighted):
    return {"Kind": "hg", "Node": set(range(1, n + 1)), "MaxW": 2, "Weighted": weighted, "MaxId": maxid, "Bug": bug,
            "MKeys": {"a"}, "MVals": {"1"}}


def explore_impl(res, tier):
    """the implementation-shaped model (tables of the class) refines HGX and keeps IndexInv;
    its historic-fault variants must be rejected by TLC (non-vacuity of the invariants)"""
    runs = [(2, 3, True)] if tier == "quick" else [(2, 4, True), (2, 5, False), (3, 3, True)]
    for (n, maxid, weighted) in runs:
        cfg = tlc.cfg_text(impl_consts("none", n, maxid, weighted), init="Init", next_="INext",
                           invariants=["IndexInv"], constraints=["IBound"])
        r = tlc.run("HGImpl", cfg, workers=16, timeout=3000, heap="8g")
        if not tlc.ok_exploration(r):
            raise tlc.TLCError("HGImpl does not refine HGX / breaks IndexInv:\n" + tlc.error_excerpt(r["out"]))
        s = tlc.stats(r["out"])
        res.cov(states=s["distinct"], transitions=s["generated"])
        res.coverage.setdefault("explorations", []).append(
            {"module": "HGImpl", "n": n, "max_id": maxid, "weighted": weighted, "states": s["distinct"],
             "transitions": s["generated"], "wall_s": round(r["wall"], 1), "checked": ["IndexInv", "refines HGX (Assert in INext)"]})
    rejected = []
    for bug in (MUTANTS if tier == "thorough" else MUTANTS[:1]):
        cfg = tlc.cfg_text(impl_consts(bug, 3, 4, True), init="Init", next_="INext",
                           invariants=["IndexInv"], constraints=["IBound"])
        r = tlc.run("HGImpl", cfg, workers=16, timeout=600, heap="8g")
        if tlc.ok_exploration(r) or not ("is violated" in r["out"] or "Assert" in r["out"]):
            raise tlc.TLCError("spec mutant Bug=%s of HGImpl was NOT rejected by TLC (vacuous invariants?)" % bug)
        rejected.append(bug)
    res.cov(spec_mutants_rejected=rejected)


def run(tier, seed):
    res = Result("C01", tier, seed, "model_checking")
    explore_impl(res, tier)
    return run_container("C01", "hg", tier, seed, cc=False, res=res)


def replay(path):
    from checks.containers import replay_container
    return replay_container("C01", path)
