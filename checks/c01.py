"""C01 - Hypergraph answers every query as the abstract hypergraph of its history."""
from checks.containers import run_container


def run(tier, seed):
    return run_container("C01", "hg", tier, seed, cc=False)


def replay(path):
    from checks.containers import replay_container
    return replay_container("C01", path)
