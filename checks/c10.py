"""C10 - Graph projections (bipartite, clique, line, directed line) and the simplicial complex."""
import itertools
import random
import time
from fractions import Fraction

from checks.containers import explore
from harness import cases as K
from harness.binding import Binding, LABEL_FAMILIES, quiet
from harness.verdict import Result

FAMS = ("sparse", "str", "zero", "ident", "cat", "scat", "neg")
HG_INV = ["LineEdgesIsJoined", "LineSymmetric", "LineViaSharedNode", "LineMonotone", "LineOneIsDualSupport",
          "JaccardInUnitInterval", "CliqueIsAdjSupport", "BipDegrees", "SimplicialDownwardClosed", "SimplicialIdempotent"]
DIR_INV = ["DirLineArcsIsArc", "DirLineNoSelfLoop", "DirLineMonotone", "DirLineReversal", "DirSimBounded"]
THR = {"intersection": [(1, 1), (2, 1), (3, 1)],
       "jaccard": [(1, 4), (1, 3), (1, 2), (2, 3), (1, 1)]}
THR_EXTRA = {"intersection": [(4, 1)], "jaccard": [(2, 5), (3, 4), (1, 5), (3, 5)]}


def _exc(ex):
    return {"raised": True, "exc": type(ex).__name__ + ": " + str(ex)[:80]}


class Numbering:
    """vertex objects of a returned graph -> 0..V-1 (by equality of the objects)"""

    def __init__(self):
        self.ix = {}

    def __call__(self, v):
        try:
            return self.ix.setdefault(v, len(self.ix))
        except TypeError:
            return self.ix.setdefault(repr(v), len(self.ix))


def weight_frac(w, flags):
    """a returned weight as the exact small fraction it must be (floats never enter TLC)"""
    try:
        f = Fraction(w).limit_denominator(64)
        if float(f) != float(w):
            flags.append(repr(w))
        return [f.numerator, f.denominator]
    except Exception:
        flags.append(repr(w))
        return [-1, 1]


def log_bipartite(b, obj):
    from hypergraphx.representations.projections import bipartite_projection
    try:
        with quiet():
            g, table = bipartite_projection(obj)
        num = Numbering()
        rec = {"nodes": [num(v) for v in g.nodes()], "edges": [[num(u), num(v)] for u, v in g.edges()], "nid": [], "kid": []}
        for vid, o in table.items():
            if isinstance(o, tuple):
                rec["kid"].append([num(vid), b.from_api(o)])
            else:
                rec["nid"].append([num(vid), b.unlab(o)])
        return rec
    except Exception as ex:
        return _exc(ex)


def log_clique(b, obj, keep, spell):
    from hypergraphx.representations.projections import clique_projection
    try:
        with quiet():
            if spell == 0 and not keep:
                g = clique_projection(obj)
            elif spell == 1:
                g = clique_projection(obj, keep)
            else:
                g = clique_projection(obj, keep_isolated=keep)
        return {"keep": keep, "nodes": [b.unlab(v) for v in g.nodes()],
                "edges": [[b.unlab(u), b.unlab(v)] for u, v in g.edges()]}
    except Exception as ex:
        return dict(_exc(ex), keep=keep)


def threshold_value(dist, s, rng):
    """the argument passed for threshold p/q: an int (intersection) or the float p/q"""
    p, q = s
    if q == 1 and dist == "intersection":
        return p if rng.random() < 0.8 else float(p)
    return p / q


def log_line(b, obj, dist, s, weighted, rng, flags, directed=False, just_above=None):
    """just_above: None = drawn (a run); True / False = as logged (a replay)"""
    from hypergraphx.representations.projections import line_graph, directed_line_graph
    rec = {"dist": dist, "s": list(s), "weighted": weighted}
    try:
        sv = threshold_value(dist, s, rng)
        if dist == "jaccard" and s[0] < s[1] and (rng.random() < 0.3 if just_above is None else just_above):
            # a threshold a hair above p/q: the similarities of these inputs are fractions with denominators <= 12, none of
            # them lies in (p/q, p/q + 1/(1000 q)], so every threshold inside that gap selects the pairs ABOVE p/q; the code
            # gets p/q + 1e-10, the specification (1000 p + 1) / (1000 q)
            sv = s[0] / s[1] + 1e-10
            rec["s"] = [1000 * s[0] + 1, 1000 * s[1]]
            rec["just_above"] = list(s)
        with quiet():
            if directed:
                g, table = directed_line_graph(obj, distance=dist, s=sv, weighted=weighted)
            elif rng.random() < 0.5:
                g, table = obj.to_line_graph(distance=dist, s=sv, weighted=weighted)
            else:
                g, table = line_graph(obj, distance=dist, s=sv, weighted=weighted)
        num = Numbering()
        rec["nodes"] = [num(v) for v in g.nodes()]
        rec["ids"] = [[num(vid), b.from_api(e)] for vid, e in table.items()]
        edges = []
        for u, v, d in g.edges(data=True):
            e = [num(u), num(v)]
            if weighted:
                e.append(weight_frac(d["weight"], flags) if "weight" in d else [-1, 1])
            edges.append(e)
        rec["edges"] = edges
        return rec
    except Exception as ex:
        return dict(_exc(ex), **rec)


def log_simplicial(b, obj):
    from hypergraphx.representations.simplicial_complex import simplicial_complex
    try:
        with quiet():
            sc = simplicial_complex(obj)
            return {"edges": [b.from_api(e) for e in sc.get_edges()]}
    except Exception as ex:
        return _exc(ex)


def thresholds(tier, rng):
    out = []
    for dist in ("intersection", "jaccard"):
        ths = list(THR[dist])
        if tier == "thorough" or rng.random() < 0.3:
            ths += [rng.choice(THR_EXTRA[dist])]
        for s in ths:
            out.append((dist, s))
    return out


def observe_hg(b, obj, rng, tier, flags, first_only=False):
    """first_only: the same draws from rng, but only the FIRST argument combination of every function is called"""
    c = {"kind": "hg", "st": b.state(obj)}
    c["bip"] = log_bipartite(b, obj)
    spells = [rng.randrange(3), rng.randrange(3)]
    c["cliq"] = [log_clique(b, obj, keep, sp) for keep, sp in zip((False, True), spells) if not (first_only and keep)]
    c["line"] = []
    for dist, s in thresholds(tier, rng):
        ws = (False, True) if tier == "thorough" else (rng.random() < 0.6,)
        for w in ws:
            if not (first_only and c["line"]):
                c["line"].append(log_line(b, obj, dist, s, w, rng, flags))
    c["simp"] = log_simplicial(b, obj)
    return c


def observe_dir(b, obj, rng, tier, flags, first_only=False):
    c = {"kind": "dir", "st": b.state(obj), "dline": []}
    for dist, s in thresholds(tier, rng):
        ws = (False, True) if tier == "thorough" else (rng.random() < 0.6,)
        for w in ws:
            if not (first_only and c["dline"]):
                c["dline"].append(log_line(b, obj, dist, s, w, rng, flags, directed=True))
    return c


# ---------------------------------------------------------------------------
# histories of ONE object: every projection is computed on the object (results ignored) with the arguments the judged
# observation is going to use, the object is edited in place through public calls so that the numbers of nodes and of
# hyperedges stay what they were (k hyperedges removed, k others over the nodes already there added; weighted: a weight
# changed as well), nothing is computed in between, and then it is observed as usual.  What is judged is the object as it
# is now (its state is read back through the public API), so a table kept per object and revalidated by such counts shows.
HISTORY_SHARE = 0.2


def measure_before(observe, b, obj, rng, tier):
    """a clone of the generator replays the draws of the coming observation; the first argument combination of every function is
    then called once more: the LAST call before the edit and the FIRST call after it have the same arguments"""
    for first_only in (False, True):
        r = random.Random()
        r.setstate(rng.getstate())
        observe(b, obj, r, tier, [], first_only)


def _other_hg(present, taken, size, hr):
    for z in [size] * 6 + [1, 2, 3, 4, 5] * 4:
        if z <= len(present):
            e = tuple(sorted(hr.sample(present, z)))
            if e not in taken:
                return e
    return None


def _other_dir(present, taken, size, hr):
    for z in [size] * 6 + [2, 3, 4, 5] * 4:
        if 2 <= z <= len(present):
            nodes = hr.sample(present, z)
            a = hr.randint(1, z - 1)
            k = (tuple(sorted(nodes[:a])), tuple(sorted(nodes[a:])))
            if k not in taken:
                return k
    return None


def edit_in_place(b, obj, kind, es, weighted, hr):
    """-> (hyperedges afterwards, record of the edit) or None when the object cannot be edited that way"""
    es = [tuple(e) if kind == "hg" else (tuple(e[0]), tuple(e[1])) for e in es]
    with quiet():
        present = sorted(b.unlab(x) for x in obj.get_nodes())
    if not es or not present or -1 in present:
        return None
    out = hr.sample(es, hr.randint(1, min(2, len(es))))
    new = []
    for e in out:
        size = len(e) if kind == "hg" else len(e[0]) + len(e[1])
        o = (_other_hg if kind == "hg" else _other_dir)(present, set(es) | set(new), size, hr)
        if o is None:
            return None
        new.append(o)
    rec = {"removed": [list(e) if kind == "hg" else [list(e[0]), list(e[1])] for e in out],
           "added": [list(e) if kind == "hg" else [list(e[0]), list(e[1])] for e in new]}
    api = (lambda e: b._tuple(e)) if kind == "hg" else (lambda e: (b._tuple(e[0]), b._tuple(e[1])))
    keep, b.rng = b.rng, hr                      # listing orders of the edit come from the history generator
    try:
        with quiet():
            n0, m0 = obj.num_nodes(), obj.num_edges()
            for e in out:
                obj.remove_edge(api(e))
            for e in new:
                obj.add_edge(api(e), **({"weight": hr.randint(1, 3)} if weighted else {}))
            after = [e for e in es if e not in out] + new
            if weighted:
                e = hr.choice(after)
                w = hr.choice([2, 3, 4])
                obj.set_weight(api(e), w)
                rec["set_weight"] = [list(e), w]
            if (obj.num_nodes(), obj.num_edges()) != (n0, m0):
                return None                      # the container did something else: C01/C02 judge that, not C10
    except Exception:
        return None
    finally:
        b.rng = keep
    return after, rec


# ---------------------------------------------------------------------------
# inputs: duplicate-free hyperedges of sizes 1..5, nested ones, isolated nodes
def build_hg(b, n, edges, weighted, rng):
    obj = b.new(weighted)
    edges = list(edges)
    rng.shuffle(edges)
    with quiet():
        extra = [i for i in range(1, n + 1) if rng.random() < 0.5]
        for i in extra[:len(extra) // 2]:
            obj.add_node(b.lab(i))
        for j, e in enumerate(edges):
            obj.add_edge(b._tuple(e), **({"weight": rng.randint(1, 3)} if weighted else {}))
            if rng.random() < 0.2:        # holes in the internal ids, changed listing order
                v = edges[rng.randrange(0, j + 1)]
                try:
                    obj.remove_edge(b._tuple(v))
                    obj.add_edge(b._tuple(v), **({"weight": 1} if weighted else {}))
                except Exception:
                    pass
        for i in extra[len(extra) // 2:]:
            obj.add_node(b.lab(i))
    return obj


def random_edges(n, rng):
    out = set()
    for _ in range(rng.randint(0, 7)):
        z = min(n, rng.choice([1, 2, 2, 3, 3, 4, 5]))
        e = tuple(sorted(rng.sample(range(1, n + 1), z)))
        out.add(e)
        if rng.random() < 0.35 and z > 1:         # a nested hyperedge
            out.add(tuple(sorted(rng.sample(e, rng.randint(1, z - 1)))))
        if rng.random() < 0.25 and z < n:         # a strongly overlapping one
            rest = [x for x in range(1, n + 1) if x not in e]
            out.add(tuple(sorted(list(e[:-1]) + [rng.choice(rest)])))
    return sorted(out)


def hg_inputs(tier, rng):
    out = []
    e3 = [c for z in (1, 2, 3) for c in itertools.combinations((1, 2, 3), z)]
    for mask in range(1 << len(e3)):                      # every hypergraph on 3 nodes
        es = [e3[i] for i in range(len(e3)) if mask >> i & 1]
        for f in (FAMS if tier == "thorough" else (FAMS[mask % len(FAMS)],)):
            out.append((3 if mask % 3 else 4, es, False, f))
    e4 = [c for z in (1, 2, 3, 4) for c in itertools.combinations((1, 2, 3, 4), z)]
    for i in range(40 if tier == "quick" else 1000):      # 4 nodes: a seeded sample of the 2^15
        mask = rng.getrandbits(15) & rng.getrandbits(15) if rng.random() < 0.6 else rng.getrandbits(15)
        out.append((4, [e4[j] for j in range(15) if mask >> j & 1], False, FAMS[i % len(FAMS)]))
    for i in range(60 if tier == "quick" else 1000):      # 2..7 nodes, sizes 1..5
        n = rng.randint(2, 7)
        out.append((n, random_edges(n, rng), i % 3 == 0, FAMS[i % len(FAMS)]))
    return out


def random_dir_keys(n, rng):
    kk = set()
    for _ in range(rng.randint(0, 7)):
        z = rng.randint(2, min(5, n))
        nodes = rng.sample(range(1, n + 1), z)
        a = rng.randint(1, z - 1)
        S, T = tuple(sorted(nodes[:a])), tuple(sorted(nodes[a:]))
        kk.add((S, T))
        r = rng.random()
        if r < 0.25:
            kk.add((T, S))                                # reciprocated
        elif r < 0.5:                                     # a hyperedge fed by this one's targets
            rest = [x for x in range(1, n + 1) if x not in T]
            if rest:
                kk.add((T[:rng.randint(1, len(T))], tuple(sorted(rng.sample(rest, rng.randint(1, min(2, len(rest))))))))
        elif r < 0.65:
            # the quantifier does not ask for disjoint source and target sets: a node on both sides, next to a hyperedge with the
            # same source set (or the same target set)
            kk.add((S, tuple(sorted(set(T[:1]) | {S[0]}))))
            if rng.random() < 0.5:
                kk.add((tuple(sorted(set(S[:1]) | {T[0]})), T))
    return sorted(kk)


def dir_inputs(tier, rng):
    out = []
    nodes = (1, 2, 3)
    k3 = []
    for a in (1, 2):
        for S in itertools.combinations(nodes, a):
            rest = [x for x in nodes if x not in S]
            for bb in range(1, len(rest) + 1):
                for T in itertools.combinations(rest, bb):
                    k3.append((S, T))
    masks = range(1 << len(k3))                           # every directed hypergraph on 3 nodes (2^12)
    if tier == "quick":
        masks = rng.sample(list(masks), 80)
    for i, mask in enumerate(masks):
        out.append((3, [k3[j] for j in range(len(k3)) if mask >> j & 1], FAMS[i % len(FAMS)]))
    for i in range(60 if tier == "quick" else 1000):
        n = rng.randint(2, 6)
        out.append((n, random_dir_keys(n, rng), FAMS[i % len(FAMS)]))
    return out


def build_dir(b, n, keys, rng):
    obj = b.new(False)
    keys = list(keys)
    rng.shuffle(keys)
    with quiet():
        if rng.random() < 0.4:
            obj.add_node(b.lab(rng.randint(1, n)))
        for S, T in keys:
            obj.add_edge((b._tuple(S), b._tuple(T)))
    return obj


def _graphs(c):
    for k in ("bip", "simp"):
        if k in c:
            yield c[k]
    for k in ("cliq", "line", "dline"):
        for g in c.get(k, []):
            yield g


def strip(c):
    return {k: v for k, v in c.items() if k != "st"}


def run(tier, seed):
    res = Result("C10", tier, seed, "model_checking")
    explore(res, "hg", tier, module="MC_Projections", invariants=HG_INV,
            configs=[dict(n=3, maxw=1, batches=False, metaops=False)] if tier == "quick" else
                    [dict(n=3, maxw=2, batches=False, metaops=False)])
    explore(res, "dir", tier, module="MC_Projections", invariants=DIR_INV,
            configs=[dict(n=2, maxw=1, batches=False, metaops=False)] if tier == "quick" else
                    [dict(n=3, maxw=1, batches=False, metaops=False)])
    rng = random.Random(seed)
    hr = random.Random(seed * 7919 + 10)      # histories draw from their own generator: the inputs stay what they were for a seed
    t0 = time.time()
    flags = []
    cases, descr = [], []
    for (n, es, weighted, fam) in hg_inputs(tier, rng):
        b = Binding("hg", LABEL_FAMILIES[fam](n), rng)
        obj = build_hg(b, n, es, weighted, rng)
        d = {"kind": "hg", "n": n, "hyperedges": [list(e) for e in es], "weighted": weighted, "family": fam, "labels": b.labels}
        if hr.random() < HISTORY_SHARE and es:
            measure_before(observe_hg, b, obj, rng, tier)
            ed = edit_in_place(b, obj, "hg", es, weighted, hr)
            if ed:
                d.update(hyperedges=[list(e) for e in ed[0]], history=dict(ed[1], hyperedges_before=[list(e) for e in es]))
        cases.append(observe_hg(b, obj, rng, tier, flags))
        descr.append(d)
    dcases, ddescr = [], []
    for (n, keys, fam) in dir_inputs(tier, rng):
        b = Binding("dir", LABEL_FAMILIES[fam](n), rng)
        obj = build_dir(b, n, keys, rng)
        d = {"kind": "dir", "n": n, "hyperedges": [[list(S), list(T)] for S, T in keys], "weighted": False,
             "family": fam, "labels": b.labels}
        if hr.random() < HISTORY_SHARE and keys:
            measure_before(observe_dir, b, obj, rng, tier)
            ed = edit_in_place(b, obj, "dir", keys, False, hr)
            if ed:
                d.update(hyperedges=[[list(S), list(T)] for S, T in ed[0]],
                         history=dict(ed[1], hyperedges_before=[[list(S), list(T)] for S, T in keys]))
        dcases.append(observe_dir(b, obj, rng, tier, flags))
        ddescr.append(d)
    t_py = time.time() - t0
    v1 = K.run_cases("Trace_C10", cases, {"Kind": "hg"}, procs=14)
    v2 = K.run_cases("Trace_C10", dcases, {"Kind": "dir"}, procs=10)
    for v, cs, ds in ((v1, cases, descr), (v2, dcases, ddescr)):
        for idx, failed in v["rejects"]:
            d = ds[idx]
            raised = sorted({g.get("exc", "") for g in _graphs(cs[idx]) if g.get("raised")})
            h = d.get("history")
            res.reject({"clauses": failed},
                       "%s disagree(s) with Projections.tla for the %s hypergraph %s on %d nodes labelled %s%s%s"
                       % (",".join(failed), "directed" if d["kind"] == "dir" else ("weighted" if d["weighted"] else "unweighted"),
                          d["hyperedges"], d["n"], d["labels"], (" [raised: %s]" % "; ".join(raised)) if raised else "",
                          (" [history of the object: it held %s, every projection was computed on it with the same arguments, then %s "
                           "were removed and %s added in place%s, and it was observed again]"
                           % (h["hyperedges_before"], h["removed"], h["added"],
                              (", set_weight(%s, %s)" % tuple(h["set_weight"])) if "set_weight" in h else "")) if h else ""),
                       {"case": d, "logged": strip(cs[idx]), "state": cs[idx]["st"]})
    if flags:
        res.reject({"clauses": ["weight_is_small_fraction"]},
                   "returned line-graph weights are not floats of fractions with denominator <= 64: %s" % sorted(set(flags))[:5],
                   {"weights": sorted(set(flags))[:50]})
    ng = sum(len(list(_graphs(c))) for c in cases + dcases)
    res.cov(traces_validated_against_impl=len(cases) + len(dcases), graphs_validated=ng,
            validator_states=v1["states"] + v2["states"],
            distinct_hypergraphs=len({(d["n"], str(d["hyperedges"])) for d in descr}),
            distinct_directed_hypergraphs=len({(d["n"], str(d["hyperedges"])) for d in ddescr}),
            line_graphs=sum(len(c["line"]) for c in cases), directed_line_graphs=sum(len(c["dline"]) for c in dcases),
            label_families=len({d["family"] for d in descr}),
            objects_measured_again_after_in_place_edit=sum(1 for d in descr + ddescr if d.get("history")),
            directed_objects_measured_again_after_in_place_edit=sum(1 for d in ddescr if d.get("history")),
            python_wall_s=round(t_py, 1), validator_wall_s=round(v1["wall"] + v2["wall"], 1))
    c = cases[-1]
    res.sample({"input": descr[-1], "bipartite": c["bip"], "clique": c["cliq"], "line_graph": c["line"][-1], "simplicial": c["simp"]})
    res.sample({"input": ddescr[-1], "directed_line_graph": dcases[-1]["dline"][-1]})
    res.assume("vertices of the returned graphs are numbered by the harness (object identity); hyperedge vertices are bound to hyperedges through the returned id table only",
               "Jaccard weights are sent to TLC as Fraction(w).limit_denominator(64), which must reproduce the returned float exactly (hyperedges have <= 7 nodes)",
               "thresholds are passed as int or float p/q; float(p/q) compares exactly against |A n B|/|A u B| for these small denominators",
               "clique projection with keep_isolated=False: any vertex set between the endpoints of the edges and all nodes is accepted",
               "unweighted line graphs: the weight attribute is not inspected; the simplicial complex may contain the empty hyperedge; its node set is not inspected",
               "history of the OBJECT: about a fifth of the objects have every projection computed on them (results ignored, same arguments, the first "
               "argument combination once more at the end), are then edited in place (k hyperedges removed, k others over the same nodes added, "
               "weighted ones also set_weight; numbers of nodes and hyperedges unchanged) and only then observed; the statement speaks about the "
               "hypergraph as it is, so the observation is judged against the state read back through the public API",
               "thorough: all 128 hypergraphs on 3 nodes (4 label families) and all 4096 directed hypergraphs on 3 nodes; larger ones are seeded samples")
    return res.finish()


def replay(path):
    """rebuild the object of a replay file (with its history, if it has one), call the functions with the logged arguments and
    validate again.  Isolated nodes are those of the logged state; insertion order and listing orders are drawn anew."""
    import json
    with open(path) as f:
        rp = json.load(f)
    pl = rp["payload"]
    d, logged, st = pl["case"], pl["logged"], pl["state"]
    kind = d["kind"]
    rng = random.Random(rp.get("seed", 0))
    b = Binding(kind, d["labels"], rng)
    h = d.get("history")
    api = (lambda e: b._tuple(e)) if kind == "hg" else (lambda e: (b._tuple(e[0]), b._tuple(e[1])))
    wts = {json.dumps([e["k"]["s"], e["k"]["t"]]): e["w"] for e in st["edges"]}

    def w_of(e):
        k = [sorted(e), []] if kind == "hg" else [sorted(e[0]), sorted(e[1])]
        return {"weight": max(1, wts.get(json.dumps(k), 1))} if d["weighted"] else {}

    def observe():
        flags = []
        c = {"kind": kind, "st": b.state(obj)}
        if kind == "hg":
            c["bip"] = log_bipartite(b, obj)
            c["cliq"] = [log_clique(b, obj, keep, 2) for keep in (False, True)]
            c["simp"] = log_simplicial(b, obj)
        rows = logged.get("line" if kind == "hg" else "dline", [])
        c["line" if kind == "hg" else "dline"] = [
            log_line(b, obj, r["dist"], tuple(r.get("just_above", r["s"])), r["weighted"], rng, flags, directed=(kind == "dir"),
                     just_above="just_above" in r) for r in rows]
        return c, flags
    obj = b.new(d["weighted"])
    with quiet():
        for n in st["nodes"]:
            obj.add_node(b.lab(n))
        for e in (h["hyperedges_before"] if h else d["hyperedges"]):
            obj.add_edge(api(e), **w_of(e))
        if h:
            observe()
            logged_first = {k: v[:1] for k, v in logged.items() if k in ("line", "dline")}
            keep, logged = logged, dict(logged, **logged_first)
            observe()
            logged = keep
            for e in h["removed"]:
                obj.remove_edge(api(e))
            for e in h["added"]:
                obj.add_edge(api(e), **w_of(e))
            if "set_weight" in h:
                obj.set_weight(api(h["set_weight"][0]), h["set_weight"][1])
    c, flags = observe()
    v = K.run_cases("Trace_C10", [c], {"Kind": kind}, procs=1)
    bad = [f for _, failed in v["rejects"] for f in failed] + (["weight_is_small_fraction"] if flags else [])
    if bad:
        print("VIOLATION property=C10 replay=%s\n  what: %s disagree(s) with Projections.tla for %s" % (path, ",".join(bad), d))
    print("C10 replay %s" % ("FAIL" if bad else "PASS"))
    return 1 if bad else 0
