#!/venv/bin/python
"""Binding self-test: a recorded good batch must be accepted, and every single corruption of it
(one logged field flipped, one event dropped, two events swapped, one query answer changed)
must be rejected by the TLC validator with a named clause.  Writes evidence/selftest.json."""
import copy
import json
import os
import random
import sys

ROOT = os.path.dirname(os.path.dirname(os.path.abspath(__file__)))
sys.path.insert(0, ROOT)
sys.path.insert(0, os.environ.get("VERIF_REPO", "/repo"))
from harness import containers as C  # noqa


def main():
    rng = random.Random(7)
    out = {"kinds": {}, "ok": True}
    for kind in ("hg", "dir", "temp", "mux"):
        behs = [C.py_behaviour(kind, True, 3, 10, rng) for _ in range(12)]
        traces, _ = C.replay_many(kind, True, behs, 3, families=("ident", "str"), seed=3, cc=(kind == "hg"))
        base = C.validate(kind, traces, procs=2)
        res = {"events": base["events"], "baseline_rejects": len(base["rejects"]), "corruptions": []}
        cases = []
        names = ["weight+1", "degree+1", "drop_node_from_listing", "flip_ok"] + ["drop_event", "swap_events"] * 5
        for name in names:
            t = copy.deepcopy(rng.choice([x for x in traces if len(x) >= 6 and sum(1 for e in x if "q" in e) >= 3]))
            idx = [i for i, e in enumerate(t) if e["st"][0][1]["edges"] and i >= 2 and
                   (name not in ("degree+1", "drop_node_from_listing") or "q" in e)]
            if not idx:
                continue
            i = rng.choice(idx)
            if name == "weight+1":
                t[i]["st"][0][1]["edges"][0]["w"] += 1
            elif name == "drop_event":
                # drop an event that changed the state
                js = [j for j in range(1, len(t)) if t[j]["st"] != t[j - 1]["st"] and t[j]["op"]["op"] not in ("new", "copy")]
                if not js:
                    continue
                del t[rng.choice(js)]
            elif name == "swap_events":
                j = next((j for j in range(2, len(t)) if t[j]["st"] != t[j - 1]["st"] and t[j - 1]["st"] != t[j - 2]["st"]
                          and t[j]["op"]["op"] not in ("new", "copy") and t[j - 1]["op"]["op"] not in ("new", "copy")
                          and t[j]["obj"] == t[j - 1]["obj"]), None)
                if j is None:
                    continue
                t[j], t[j - 1] = t[j - 1], t[j]
            elif name == "degree+1":
                rs = [r for r in t[i].get("q", {}).get("bynode", []) if "deg" in r]
                if not rs:
                    continue
                rs[0]["deg"] += 1
            elif name == "drop_node_from_listing":
                if not t[i]["st"][0][1]["nodes"]:
                    continue
                t[i]["st"][0][1]["nodes"].pop()
            elif name == "flip_ok":
                t[i]["ok"] = not t[i]["ok"]
                if t[i]["st"] == t[i - 1]["st"] and t[i]["ok"]:
                    continue
            cases.append((name, t))
        v = C.validate(kind, [t for _, t in cases], procs=2)
        rejected = {ti for (ti, _, _) in v["rejects"]}
        structural = {"drop_event": [0, 0], "swap_events": [0, 0]}
        for n, (name, _) in enumerate(cases):
            cl = sorted({c for (ti, _, f) in v["rejects"] if ti == n for c in f})
            res["corruptions"].append({"corruption": name, "rejected": n in rejected, "clauses": cl})
            if name in structural:
                # a dropped / swapped event can leave a history the specification still explains
                # (the next call re-creates the node, overwrites the attribute ...): several are tried and at
                # least one of each kind must be rejected
                structural[name][0] += 1
                structural[name][1] += n in rejected
            elif n not in rejected:
                out["ok"] = False
        for name, (tot, rej) in structural.items():
            if tot and rej == 0:
                out["ok"] = False
        if res["baseline_rejects"]:
            out["ok"] = False
        out["kinds"][kind] = res
    with open(os.path.join(ROOT, "evidence", "selftest.json"), "w") as f:
        json.dump(out, f, indent=1)
    for k, r in out["kinds"].items():
        print(k, "baseline rejects:", r["baseline_rejects"], "| corruptions rejected:",
              sum(c["rejected"] for c in r["corruptions"]), "/", len(r["corruptions"]))
        for c in r["corruptions"]:
            print("   ", c["corruption"], "->", "REJECTED " + ",".join(c["clauses"][:4]) if c["rejected"] else "ACCEPTED (!)")
    print("selftest", "ok" if out["ok"] else "FAILED")
    return 0 if out["ok"] else 1


if __name__ == "__main__":
    sys.exit(main())
