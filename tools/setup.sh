#!/bin/sh
# Offline setup: nothing is built or downloaded. Verifies that the tools the checks need are present.
cd "$(dirname "$0")/.." || exit 1
test -f /opt/veriftools/tla/tla2tools.jar || { echo "tla2tools.jar missing"; exit 1; }
test -f /opt/veriftools/tla/CommunityModules-deps.jar || { echo "CommunityModules missing"; exit 1; }
java -version >/dev/null 2>&1 || { echo "java missing"; exit 1; }
/venv/bin/python -c "import sys; sys.path.insert(0, '/repo'); import hypergraphx, numpy, scipy, networkx" || { echo "repo interpreter broken"; exit 1; }
mkdir -p .work evidence replays
echo "setup ok"
