#!/bin/sh
# Offline setup: nothing is built or downloaded. Verifies that the tools the checks need are present.
set -e
cd "$(dirname "$0")/.."
java -cp /opt/veriftools/tla/tla2tools.jar:/opt/veriftools/tla/CommunityModules-deps.jar tlc2.TLC -h >/dev/null 2>&1 || { echo "TLC missing"; exit 1; }
/venv/bin/python -c "import sys; sys.path.insert(0, '/repo'); import hypergraphx, numpy, scipy, networkx" || { echo "repo interpreter broken"; exit 1; }
mkdir -p .work evidence replays
echo "setup ok"
