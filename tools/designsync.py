#!/usr/bin/env python3
"""Regenerates the two generated tables of DESIGN.md (defects from known_findings.json, seeded changes from
seeded/*/meta.json) between their marker comments."""
import json
import os
import re
import subprocess

ROOT = os.path.dirname(os.path.dirname(os.path.abspath(__file__)))
p = os.path.join(ROOT, "DESIGN.md")
s = open(p).read()

kf = json.load(open(os.path.join(ROOT, "known_findings.json")))["findings"]
rows = []
for f in kf:
    what = f["what"]
    if f["status"] == "fixed":
        what = what.split(" ", 3)[3]
    rows.append("| %s | %s | %s | %s | %s |" % (f["id"], f["property"], f["status"], "`%s`" % f.get("commit", "-") if f.get("commit") else "-", what.replace("|", "/")))
ftab = "| id | property | status | commit | what failed |\n|---|---|---|---|---|\n" + "\n".join(rows)
stab = subprocess.run([os.path.join(ROOT, "tools", "seedtable.py")], capture_output=True, text=True).stdout.strip()


def put(s, name, body):
    a, b = "<!-- %s-START -->" % name, "<!-- %s-END -->" % name
    if a not in s:
        raise SystemExit("marker %s missing in DESIGN.md" % a)
    return re.sub(re.escape(a) + r".*?" + re.escape(b), lambda m: a + "\n" + body + "\n" + b, s, flags=re.S)


s = put(s, "FINDINGS-TABLE", ftab)
s = put(s, "SEED-TABLE", stab)
open(p, "w").write(s)
print("DESIGN.md tables regenerated: %d findings, %d seeded changes" % (len(rows), stab.count("\n") - 1))
