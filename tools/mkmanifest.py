#!/usr/bin/env python3
"""Regenerates /verif/MANIFEST.json from the table below (single source for the interface file)."""
import json
import os

ROOT = os.path.dirname(os.path.dirname(os.path.abspath(__file__)))

TB = ("Trusted base: TLC 1.8.0 evaluating the TLA+ modules under /verif/spec; the harness projection "
      "of the real objects through their public API (harness/binding.py); CPython/numpy of /venv.")

CHECKS = {
    "C01": dict(
        level="model_checking", ref="3 C01",
        text=("Abstract container model HGX.tla (Kind=hg) explored exhaustively by TLC over 2-3 nodes "
              "(invariants + step assertions); TLC-generated behaviours (simulate + all histories of bounded "
              "length) and biased harness histories are replayed through the public API of real Hypergraph "
              "objects under several label maps and listing orders, and every logged event (state projection + "
              "every query for every order/size filter) is re-executed by TLC against Trace_HGX. Exhaustive only "
              "for the small universes; larger ones are sampled."),
        note=TB + " Weights are positive integers, metadata over keys a,b; corners of DESIGN.md section 5 not executed.",
        technique="TLA+ spec + TLC exhaustive exploration; spec->code replay of TLC behaviours; code->spec trace validation by TLC"),
}

NOT_APPLICABLE = {
}

PLANNED = ("not yet built in this revision of /verif (planned: TLA+ model + TLC trace validation, "
           "see DESIGN.md section 3); no claim is made")


def main():
    props = [json.loads(l)["id"] for l in open(os.path.join(ROOT, "properties.jsonl"))]
    checks = []
    for pid in props:
        if pid not in CHECKS:
            continue
        c = CHECKS[pid]
        checks.append({
            "property_id": pid,
            "quick_cmd": "./run.py check %s --tier quick" % pid,
            "thorough_cmd": "./run.py check %s --tier thorough" % pid,
            "evidence_file": "/verif/evidence/%s.json" % pid,
            "replay_cmd_template": "./run.py check %s --replay {path}" % pid,
            "engine": "tlc-trace-validation",
            "level_claimed": {"category": c["level"], "text": c["text"], "design_ref": "DESIGN.md section " + c["ref"]},
            "level_note": c["note"],
            "technique": c["technique"],
        })
    na = [{"property_id": p, "reason": NOT_APPLICABLE.get(p, PLANNED)} for p in props if p not in CHECKS]
    m = {
        "version": 1,
        "setup_cmd": "./tools/setup.sh",
        "hooks": {
            "guard": "HGX_VERIF",
            "enable": "environment variable HGX_VERIF=1 (set by run.py); pure Python, nothing to build: checks import /repo's working tree directly",
            "baseline_off_cmd": "cd /repo && env -u HGX_VERIF /venv/bin/python -m pytest -ra -q -p no:cacheprovider --timeout=900 --continue-on-collection-errors",
            "source_commits": HOOK_COMMITS,
            "add_only": True,
        },
        "engines": [
            {"name": "tlc-trace-validation", "path": "/verif/run.py",
             "serves_properties": sorted(CHECKS),
             "kind_free_text": "TLA+ specifications under /verif/spec checked with TLC (exhaustive exploration, simulation for behaviour generation, batch trace validation, exact oracle evaluation); Python harness under /verif/harness drives the real code"},
        ],
        "checks": checks,
        "not_applicable": na,
        "notes": "See DESIGN.md. Genuine defects found are listed in known_findings.json (fixed: entries name the fix: commit in /repo).",
    }
    with open(os.path.join(ROOT, "MANIFEST.json"), "w") as f:
        json.dump(m, f, indent=1)
    print("MANIFEST.json: %d checks, %d not_applicable" % (len(checks), len(na)))


HOOK_COMMITS = []

if __name__ == "__main__":
    main()
