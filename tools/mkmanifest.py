#!/usr/bin/env python3
"""Regenerates /verif/MANIFEST.json from the table below (single source for the interface file)."""
import json
import os

ROOT = os.path.dirname(os.path.dirname(os.path.abspath(__file__)))

TB = ("Trusted base: TLC 1.8.0 evaluating the TLA+ modules under /verif/spec; the harness projection "
      "of the real objects through their public API (harness/binding.py); CPython/numpy of /venv.")

TECH = "TLA+ spec + TLC exhaustive exploration; spec->code replay of TLC behaviours; code->spec trace validation by TLC"
NOTE = TB + " Weights are positive integers, metadata over keys a,b; corners of DESIGN.md section 5 not executed."


def container(kind_text, ref, extra=""):
    return dict(
        level="model_checking", ref=ref,
        text=("Abstract container model HGX.tla (%s) explored exhaustively by TLC over 2-3 nodes (invariants + step "
              "assertions); TLC-generated behaviours (simulate + all histories of bounded length) and biased harness "
              "histories are replayed through the public API of real objects under several label maps and listing "
              "orders, and every logged event (state projection + queries) is re-executed by TLC against Trace_HGX. "
              "%sHistories are replayed under nine label families (small / sparse / large / negative ints, short and long "
              "strings, colliding concatenations, neighbours beyond 2^53; every label is passed as a fresh equal object), with "
              "explicit zero weights, falsy, None and nested metadata values, repeated entries inside one batch, listings "
              "that the caller empties after copying, and in three observation modes (queries after most calls, after every third call, only at the end) so "
              "that stale caches are not refreshed by the observer. Exhaustive only for the small universes; larger ones are "
              "sampled." % (kind_text, extra)),
        note=NOTE, technique=TECH)


CHECKS = {
    "C01": container("Kind=hg", "3 C01", "Every query for every order/size filter is compared after every call. "),
    "C02": container("Kind=dir", "3 C02", "Source/target listings, in/out degrees and neighbours compared after every call. "),
    "C03": container("Kind=temp", "3 C03", "Time windows, snapshots and aggregate(w) for all windows/widths are derived "
                     "objects compared with the operators of Derive.tla (WindowPartition, SnapshotUnion, HalfOpen checked "
                     "by TLC on the design). "),
    "C04": container("Kind=mux", "3 C04", "aggregated_hypergraph and edge_overlap compared with MuxAggE/Overlap "
                     "(AggregatedIsSum checked by TLC on the design). "),
    "C05": container("Kind=hg and dir", "3 C05", "Every selection (all node subsets, size lists, (order|size, up_to, "
                     "keep_isolated), largest component) is extracted after random prefixes and compared with Derive.tla; "
                     "copies are mutated on both sides. "),
    "C07": container("all four kinds", "3 C07", "SHA-256 is abstracted as an unknown function: TLC checks that all "
                     "digests observed in a batch (hundreds of histories over 2-6 nodes, many reaching the same content "
                     "through different insertion orders and insert/remove detours) are explained by an injective "
                     "function of the abstract content. "),
    "C08": container("Kind=hg for connectivity, all kinds for degrees", "3 C08", "All 128 hypergraphs on 3 nodes plus the "
                     "replayed histories; every function of utils/cc.py and measures/degree.py (method and module level, "
                     "order= and size= spellings) compared with Components/Degree of Derive.tla. Large block-structured inputs "
                     "(20-400 nodes: long paths, big hyperedges with pendants, stars, unions) are decided by the block formulas "
                     "of Blocks.tla, which MC_Blocks proves equal to the general definitions for small parameters. "),
    "C12": dict(
        level="model_checking", ref="3 C12",
        text=("Directed.tla defines in/out degrees, the signature vector and the three reciprocity ratios as exact "
              "rationals; TLC checks ExactLeStrongLeWeak, PointwiseImplication, RatiosInUnitInterval, SignatureCellSum and "
              "InOutDegreeSum in every reachable state of the bounded directed container (3 nodes, all 4096 key sets), and "
              "validates the values returned by hypergraphx.measures.directed.* for every directed hypergraph on 3 nodes "
              "(thorough; a seeded sample in quick) and random ones on 4-6 nodes with bounds 2..7, under four label maps; every third "
              "input is a weighted DirectedHypergraph with weights != 1 (the measures count hyperedges, not weights)."),
        note=TB + " Returned floats are converted to the nearest fraction with denominator <= 1000, which must reproduce the float.",
        technique="TLA+ definitions + TLC exhaustive invariants; TLC validation of logged return values (one-call traces)"),
    "C16": dict(
        level="model_checking", ref="3 C16",
        text=("Sampler.tla is a state machine of the discrete part of HyMMSBMSampler (greedy Extract from the remaining degree "
              "sequence with zero-degree padding / shrinking and the matching flag, Finish, McmcStep = pairwise reshuffle with "
              "accept/reject, Yield = drop zero weights, map labels back, merge equal hyperedges by summing). TLC explores it "
              "exhaustively for ALL outcomes of the random choices (4 nodes x 3 hyperedges, degrees <= 2-3, raw weights 0..1-2, "
              "initial hypergraph / both sequences / one sequence / sampling from the model; thorough also 5 nodes and 4 "
              "hyperedges) and checks NeverSingleton, DegNeverExceeds, SizeCountNeverExceeds, ExactWhenNoCoincidence (incl. "
              "soundness of its black-box reading), MatchingMeansExhausted, OutputWellFormed and the whole post-condition "
              "SamplerPost, plus step assertions (a move keeps both sizes and the union multiset; weights conserved by the "
              "merge). Every hypergraph yielded by the real sampler (initial_hyg under str/sparse/int labels, matching and "
              "non-matching (degree, size) sequences with equal totals, sampling from the model, burn-in/thinning >= 0, many "
              "seeds, 3-4 consecutive samples) is judged by TLC against the conjuncts of SamplerPost through the public API, "
              "and against a twin sampler built with the same parameters and seed (SeedFunctional). With HGX_VERIF=1 every "
              "_extract_hye, _mcmc_step and yield is additionally validated as a step of Sampler.tla (model clauses: "
              "MODEL-DRIFT, never a violation), and the statement's exactness claim is applied whenever the logged chain at the "
              "yield holds no two equal hyperedges (property clause exact_when_no_coincidence_at_yield). A third of the inputs use "
              "hard 0/1 memberships with diagonal affinity (zero-rate hyperedges); multi-call runs make 2-4 sample() calls on one "
              "sampler object and judge every sample against the flag reported at that time."),
        note=TB + " Exactness is applied when num_edges(sample) equals the number of hyperedges asked for (shown equivalent to "
             "'no coincidence, no zero weight' on the design). Initial hypergraphs have hyperedges of size >= 2; numpy integer "
             "weights count as integers (type test in Python, sign in TLC). Runs that raise before the first sample (too few "
             "hyperedges for a move, no zero-degree node to pad with, the degree-only branch) are counted, not judged. "
             "Exhaustive only for the small universes; real runs are sampled.",
        technique="TLA+ state machine + TLC exhaustive invariants/step assertions; TLC post-condition validation of every "
                  "sampled hypergraph; TLC step validation of hooked events (stateful trace validator)"),
    "C13": dict(
        level="model_checking", ref="3 C13",
        text=("Chains.tla models both configuration-model chains as relations (Reshuffle: intersection kept in both, sizes kept, "
              "rest redistributed, same-size pairs when detailed; directed single-node swaps refused on duplicates; Emit = set of "
              "chain elements plus untouched hyperedges). TLC explores MC_Chains exhaustively, unbounded in n_steps: every input with "
              "2..3(4) hyperedges over 3-5 nodes, every (detailed, size) variant, every outcome of every random choice; invariants "
              "DegPerSizeConserved/TotalDegConserved, SizeBagConserved, EmitNoIncrease, EmitExactWhenCountKept, UntouchedIntact, "
              "directed in/out degree and shape bag, and that the statement's clause set CMPost holds for every emitted result; "
              "the code's distribution loop is shown to realise exactly the relation; four spec mutants must be rejected. The real "
              "configuration_model / directed_configuration_model are run for hundreds (thorough: thousands) of seeded calls "
              "(n_steps 0..30, edge/stub, detailed, size/order, four label maps) and TLC evaluates CMPost/CMPostDir on every "
              "(input, output) pair; with HGX_VERIF hooks every logged chain step is re-executed as a Reshuffle/Swap step "
              "(MODEL-DRIFT only). Exhaustive only for the small universes; real runs are sampled over seeds."),
        note=TB + " numpy/random globals seeded per call; label='vertex' outside the quantifier; 'returned intact' = same node sets.",
        technique="TLA+ chain model + TLC exhaustive invariants over all random outcomes; TLC trace validation of seeded runs (black-box post-condition, optional hooked step validation)"),
    "C14": dict(
        level="model_checking", ref="3 C14",
        text=("Generators.tla states each generator as a relation between arguments and result as the property words it (RandHG, "
              "ScaleFree, HOAD, AddRandom, Shuffle/ShuffleAll incl. p=0 changes nothing with weights and metadata, inplace=False "
              "leaves the argument untouched) plus SeedFunctional as a batch-wide history variable. TLC checks small sampler models "
              "exhaustively against the relations (MC_Generators; the re-add-all variant of random_shuffle is rejected on weighted "
              "inputs, off-by-one HOAD times and sampling with replacement are rejected) and validates thousands of real calls "
              "(quick 2400, thorough 31800) over parameter grids x seeds, incl. scale_free_hypergraph with default arguments, "
              "correlated/uncorrelated, corr_target given or omitted, activity vectors with 0/1 entries, weighted/metadata-carrying "
              "arguments under four label maps; the rewired hyperedges of random_shuffle are captured by a harness-side wrapper of "
              "random.sample (weaker clauses when not observable); scale_free requests at and next to saturation (calls longer than "
              "2 s are counted, not judged). Sampled over seeds and grids, not exhaustive for the real code."),
        note=TB + " Reproducibility demanded for random_hypergraph/random_uniform_hypergraph only; admissible grids keep requested counts "
                  "feasible; a call must return within 30 s.",
        technique="TLA+ relations + TLC exhaustive check of sampler models; TLC validation of logged calls incl. a batch-wide seed-functionality history"),
    "C06": container("all four kinds", "3 C06", "save_hypergraph + load_hypergraph (JSON and binary at random) are pure events after random "
                     "prefixes of the replayed histories: the loaded object must be of the same class and equal in nodes, hyperedges "
                     "(direction / time / layer), weightedness, weights and the three kinds of metadata (hyperedge metadata modulo weight/time/layer), "
                     "and saving must leave the saved object unchanged. File readers: Persist.tla defines ParseHgr (token lines, header E N [fmt], "
                     "weights iff fmt mod 10 = 1, comment/blank/node-weight lines ignored) and ReadHif (one hyperedge per incidence set, node/"
                     "hyperedge/incidence records). TLC generates the files itself (Gen_Hgr/Gen_Hif: BFS over all small files with "
                     "ParseRecoversListed and HifDesign, plus simulation) and validates the objects built by load_hypergraph(.hgr) and read_hif "
                     "against them (Trace_C06R; HIF up to a bijection of node names, four node-label and three edge-name families). "),
    "C09": dict(
        level="model_checking", ref="3 C09",
        text=("Matrices.tla defines incidence, weighted incidence, adjacency, per-order adjacency/degree/Laplacian (L_d = d*D_d - A_d), "
              "dual adjacency, the adjacency tensor and the temporal adjacency as integer-valued operators indexed by nodes and "
              "hyperedges; TLC checks AdjSymmetricZeroDiag, AdjIsBBt, AdjIsSumOfOrders, DualIsBtB, DegDIsFilteredDegree, "
              "LapSymmetricZeroRowSum, LapIsIncidenceForm, TensorSymmetric, IncidenceRowsAndColumns and TempAdjIsSnapshotAdj in every "
              "reachable state of the bounded containers (thorough: Hypergraph on 4 nodes unweighted / 3 nodes weights <= 2, "
              "TemporalHypergraph on 3 nodes x 2 times), and validates every matrix returned by hypergraphx.linalg (densified, with the "
              "returned mapping required only to be a bijection, incidence columns matched to hyperedges as a bag) for all hypergraphs on "
              "3 nodes and (thorough) all 32768 on 4 nodes, random weighted/unweighted ones on 2-6 nodes, uniform ones on nodes 0..N-1 "
              "for the tensor and random temporal hypergraphs at every time, under four label families (sparse ints, strings, 0..N-1, 1..N), "
              "with isolated nodes, every order present or absent and both keep_isolated_nodes values; hub inputs (a node in >= 256 "
              "hyperedges of one order, a pair in >= 256 hyperedges), non-integer weights (as quarters) and re-observation of the "
              "SAME object after count-preserving mutations."),
        note=TB + " Entries must be integral (checked in Python) and are compared as integers by TLC. The Laplacian returns no mapping: "
                  "its rows are read through the mapping of adjacency_matrix_by_order for the same order. Dual adjacency indices are read as "
                  "positions in get_edges() (any consistent renumbering accepted for <= 6 hyperedges). Per-order matrices only on unweighted "
                  "hypergraphs; compute_multiorder_laplacian, annealed_* and are_commuting are not covered.",
        technique="TLA+ definitions + TLC exhaustive invariants; TLC validation of logged return values (one-call traces)"),
    "C10": dict(
        level="model_checking", ref="3 C10",
        text=("Projections.tla defines the bipartite, clique, line (intersection / Jaccard >= s, exact rationals) and directed line "
              "projections and the simplicial complex (downward closure) as operators over hypergraph states; TLC checks LineSymmetric, "
              "LineViaSharedNode, LineMonotone, LineOneIsDualSupport and CliqueIsAdjSupport (cross-checks with Matrices.tla), "
              "JaccardInUnitInterval, BipDegrees, SimplicialDownwardClosed, SimplicialIdempotent, DirLineNoSelfLoop, DirLineMonotone, "
              "DirLineReversal and DirSimBounded in every reachable state of the bounded Hypergraph / DirectedHypergraph containers "
              "(3 nodes), and validates the networkx graphs, id tables and weights returned by representations.projections and the "
              "hypergraph returned by simplicial_complex for all hypergraphs on 3 nodes, all 4096 directed hypergraphs on 3 nodes "
              "(thorough; seeded samples in quick), sampled 4-node and random 2-7 node ones with nested hyperedges of sizes 1..5 and "
              "isolated nodes, thresholds s in {1,2,3,4} and {1/5..1}, weighted in {False, True}, under four label families."),
        note=TB + " Graph vertices are numbered by the harness and bound to hyperedges only through the returned id table. Jaccard weights "
                  "are compared as Fraction(w).limit_denominator(64), which must reproduce the float. With keep_isolated=False any vertex set "
                  "between the edge endpoints and all nodes is accepted; weights of unweighted line graphs, the node set of the simplicial "
                  "complex and its empty hyperedge are not judged.",
        technique="TLA+ definitions + TLC exhaustive invariants; TLC validation of logged return values (one-call traces)"),
    "C19": container("all four kinds for the filter", "3 C19", "filter_hypergraph is ONE mutating call whose allowed successors are FilterSucc of "
                     "Derive.tla = the composition of the container's own removals (KeepRemoveDual and FilterSound checked by TLC on the design); "
                     "criteria dictionaries over the model's keys with attributes missing from some items, both modes, both keep_edges. "
                     "SVH.tla defines occurrences, Nocc/Kocc, the tested set, the exact binomial-tail p-value TailNum/N^(size*N) and the per-size "
                     "step-up threshold. MC_SVH checks TailTotal, TailMonotone, TailMonotoneInP, KoccSum, TestedPartition, LowerSetInv and StepUpRule "
                     "exhaustively on all exact-regime instances over 4-5 nodes. Trace_C19S validates the per-size tables of get_svh (max_order "
                     "varied, mp in {False, True}, four label families): tested set, lower-set and parameter-dependence in all cases, p-values "
                     "and validated flags exactly where the tails fit 32 bits (size 2 N<=5, size 3 N<=4, sizes 4-6 N<=3). "),
    "C11": dict(
        level="model_checking", ref="3 C11",
        text=("Motifs.tla defines Pattern, Connected, Orbit, Classes and Census (class -> number of k-subsets showing it) and, for "
              "directed patterns, the nested sorted-tuple order with IsCanonicalDef (no relabelling has a smaller encoding). TLC "
              "establishes 6 / 171 classes (12 / 1990 connected labelled patterns), that classes partition them, that the tuple order "
              "is total and the integer codes follow it, exactly one canonical pattern per orbit (all 3-node directed hypergraphs, all "
              "1-2-hyperedge patterns on 4 nodes), and checks CensusRelabelInvariant, CensusIgnoresLarge, CensusIgnoresSingletons, "
              "CensusTotal and ThreePassCover in all 32768 hypergraphs on 4 nodes (sizes 1..4) and the canonical-form invariants in all "
              "4096 directed hypergraphs on 3 nodes. TLC then validates compute_motifs / compute_directed_motifs(...)['observed'] "
              "(orders 3 and 4) for all 2048 hypergraphs on 4 nodes with sizes 2..4 plus singletons, all 4096 directed hypergraphs on 3 "
              "nodes (thorough; seeded samples in quick) and random ones on 5-7 nodes with sizes 1..6, each through several real objects "
              "(permuted integer labels from five families, other insertion histories, extra larger hyperedges, isolated nodes): "
              "representatives connected, every class exactly once, every count = the specification's census, same census across "
              "variants; directed: reported tuple is the canonical encoding, each class once, count <= node sets showing it, same "
              "census across variants. Families of look-alike directed patterns (equal simple invariants, not isomorphic) on disjoint "
              "node sets and nested 3-in-4 undirected families on 5-6 nodes are part of the inputs."),
        note=TB + " Integer labels only and disjoint source/target sets, as the statement restricts. For directed hypergraphs the "
             "statement does not say which node sets are visited: equality with the enumeration the anchors describe is reported as "
             "information (0 mismatches), not as a verdict. Hypergraphs on 5-7 nodes are sampled; the sampled approximate census and "
             "the config-model scores are not covered.",
        technique="TLA+ definitions + TLC ASSUME facts and exhaustive invariants; TLC validation of logged return values (one-call "
                  "traces, metamorphic variants in one case)"),
    "C15": dict(
        level="model_checking", ref="3 C15",
        text=("HyMMSBM.tla defines Lambda(e), kappa(d), the brute-force expected degrees / counts over ALL possible hyperedges and the "
              "closed forms C, C', C'' as the code states them, over integer matrices with exact rationals; TLC checks "
              "ClosedFormsEqualBruteForce (poisson_params shortcut, ExpCount, ExpDeg, AvgDeg for every set of sizes, handshake) for EVERY "
              "u in {0..V}^(NxK) and symmetric w (quick N<=4: 57 665 states; thorough adds N=4,K=2,V=2: 177 147 states, N=5). Real HyMMSBM "
              "objects (integer u,w divided by 1/2/4, N<=6, K<=3, weighted/unweighted hypergraphs, four label maps) are validated by TLC "
              "(Trace_C15) value by value; Oracle_C15 returns the exact rationals for the float comparison. fit() is run with the same seed "
              "and n_iter=1..T with u, w, both or none supplied; TLC re-executes the monitor EMDriver (explored exhaustively with two "
              "must-fail mutants) along every run: FixedStay, FiniteNonNeg, WSymmetric, WDiagonalIfAssortative, Ascent. Exhaustive only for "
              "the small universes; fits are sampled (for the fit part the assurance is that of an exploration). Scale-shifted and two-scale "
              "parameters (exact powers of two) and models with up to 64 nodes (exact integers, Trace_C15L) are part of the inputs."),
        note=TB + " Real-valued parts decided in Python: the log-likelihood from its definition and the MAP objective (enter TLC as "
             "order-preserving integer ranks, tolerance 1e-9*max(1,|L|), single linkage), byte-identity/finite/symmetry flags; floats "
             "are converted to the nearest fraction with denominator <= 10000, which must reproduce them at 1e-9. Known finding: the plain "
             "likelihood is not monotone when w_prior > 0 (MAP updates).",
        technique="TLA+ definitions + TLC exhaustive algebraic identity; TLC validation of logged return values and oracle mode (exact rationals); TLC trace validation of EM runs against a monitor state machine"),
    "C17": dict(
        level="exploration", ref="3 C17",
        text=("ESP.tla (incrementally maintained elementary symmetric polynomials; PsiIsESP checked by TLC for all memberships in (0..2)^4, "
              "every visiting order, two must-fail recurrence mutants) and EMDriver.tla (realisations, best' = max(best, cur), ties keep the "
              "earlier, Return; explored exhaustively with two must-fail bookkeeping mutants). Every HypergraphMT.fit (480 configurations "
              "quick / 6000 thorough: weighted or not, isolated nodes, four label maps, K, seeds, n_realizations, max_iter, normalizeU, "
              "baseline_r0, min_value_par, check_convergence_every) is run twice; its train_info table (and mt_step/mt_end hook events when "
              "installed) is re-executed by TLC against EMDriver (ascent per realisation for normalizeU=False, maxL = best final value, model "
              "clauses for order/stopping/chosen realisation), and the discrete output contracts of HypergraphMT.fit and HySC.fit are decided "
              "by TLC on logged flags/integers (Trace_C17: isolated set and D computed by TLC). Non-integer weights, model objects "
              "that were fitted before on another hypergraph, and a second same-seed run under a different global RNG state are "
              "part of the inputs. Sampled, not exhaustive."),
        note=TB + " Decided in Python: the log-likelihood from its definition with brute-force e_d (1e-8 relative plus a forward rounding "
             "bound of the recurrences), tolerance ranks of the recorded log-likelihoods (a harness subclass observing _LogLikelihood supplies "
             "the rounding bound; values computed while a logged hyperedge has rate 0 count as -inf), finite/non-negative/row-sum flags.",
        technique="TLA+ recurrence + bookkeeping models checked exhaustively by TLC; TLC trace validation of the training table / hook events; TLC validation of output contracts on logged flags"),
    "C18": dict(
        level="model_checking", ref="3 C18",
        text=("RandWalk.tla defines W, K and Pi as exact rationals; TLC checks RowStochastic, KProportionalToWeight, PiIsDistribution, "
              "PiStationary (Pi K = Pi exactly), DetailedBalance and PushKeepsMass on every connected hypergraph over 4 nodes with sizes "
              "2..4 (1990 of 2048; thorough also 5 nodes with at most 4 hyperedges). Contagion.tla has one action Sweep reading only the old "
              "infected set (may/must relation over rates 0/mid/1); TLC explores all hypergraphs on 3 nodes (and on 4 nodes in thorough, "
              "2.8-7 M states), all initial sets and rate triples: monotonicity, functional deterministic regimes, horizon, returned vector. "
              "Validation: TLC emits K and Pi for every connected hypergraph executed (all on 4 nodes in thorough, random ones up to 8 nodes); "
              "transition_matrix, RW_stationary_state and every random_walk_density step (s_t K with the specification's K) are compared, "
              "sampled walks are decided by TLC as K-positive steps; simplicial_contagion runs (all 3-node hypergraphs x initial sets x 8 "
              "deterministic regimes, random larger ones and random rates/seeds, four label maps) are trace-validated: exact trajectory in "
              "the deterministic regimes, bounds and monotonicity elsewhere, and with the hook every sweep as one Sweep step. Objects "
              "edited after a first call (stale caches), integer-typed densities and nodes lying only in hyperedges of size 4-5 are "
              "part of the inputs."),
        note=TB + " Floats are compared with TLC's exact rationals at 1e-9 (1e-8 for the solved stationary vector) in numpy; numpy's global "
                  "generator is seeded per call; intermediate rates: only bounds/monotonicity are verdict-bearing (sweep relation = MODEL-DRIFT); "
                  "exhaustive only for the small universes.",
        technique="TLA+ exact-rational definitions + TLC exhaustive invariants; TLC oracle mode (exact K, Pi); TLC trace validation of the contagion (hooked sweeps)"),
    "C20": dict(
        level="exploration", ref="3 C20",
        text=("Centrality.tla defines the s-line graph and the bipartite graph of a hypergraph, BFS distances, shortest-path counts, "
              "betweenness (networkx: undirected, normalised) and closeness (Wasserman-Faust) as exact rationals, the temporal averages and "
              "the integer co-membership matrix; TLC checks OneValuePerEdge/Node, RelabellingEquivariance, path-length identities, symmetry of "
              "the projections and AveragedIsMeanOverSnapshots on all hypergraphs over 3 nodes and over 4 nodes with at most 4 (thorough 7) "
              "hyperedges. Validation (oracle mode): for thousands of static and temporal hypergraphs under int, sparse-int and string labels "
              "(including labels containing E) TLC decides the key sets of the returned dictionaries and emits the rationals, compared at 1e-9 "
              "with s_betweenness/closeness (s = 1..3), the node versions and the averaged versions; relabelling events compare values through "
              "the permutation. Sub-hypergraph centrality is compared with log(expm(Adj)_ii) computed by scipy on the specification's Adj; "
              "CEC/HEC (connected 3-/4-uniform, labels 0..N-1, many random starts): positivity, normalisation and eigen-equation residuals "
              "evaluated with the specification's clique-expansion matrix and hyperedges; a share of the objects is edited after a "
              "first call and evaluated again."),
        note=TB + " Not decided by TLA+: matrix exponential and eigen-residual arithmetic (numpy/scipy on spec-provided integer structures); "
                  "runs printing 'did not converge' are counted, not judged; snapshot node sets accepted both ways; sampled, not exhaustive, beyond 4 nodes.",
        technique="TLA+ exact-rational Brandes/closeness on the spec's own projections + TLC invariants; TLC oracle mode; numpy on spec structures for real-valued claims"),
}

NOT_APPLICABLE = {
}   # all twenty properties are claimed; sub-claims decided outside TLC are named in each level_note

PLANNED = ("not yet built in this revision of /verif (planned: TLA+ model + TLC trace validation, "
           "see DESIGN.md section 3); no claim is made")


CHECKS["C06"] = dict(CHECKS["C06"], note=NOTE + " HIF records are compared as opaque canonical-JSON values produced by the harness; "
                     "weighted .hgr files with repeated hyperedges, write_hif, and HIF documents lacking the nodes/edges arrays are not covered.")
CHECKS["C19"] = dict(CHECKS["C19"], note=NOTE + " Outside the exact regime TLC emits the parameters (w, N, K_i, spanned nodes) and the same "
                     "tail and threshold definitions are evaluated over Python Fractions (relative tolerance 1e-9; the two regimes are counted "
                     "separately in the evidence); alpha is not varied (the code ignores it); get_svc is not covered.")


HIST = (" Part of the inputs are HISTORIES OF ONE OBJECT: it is measured (fitted / sampled) with the same arguments, edited in place "
        "through public calls so that the numbers of nodes and hyperedges stay what they were, and measured again - only the second "
        "answer is judged, so a table kept per object and revalidated by counts shows.")
for _p in ("C10", "C11", "C12", "C13", "C17", "C18", "C20"):
    CHECKS[_p] = dict(CHECKS[_p], text=CHECKS[_p]["text"] + HIST)
CHECKS["C19"] = dict(CHECKS["C19"], note=CHECKS["C19"]["note"].replace("get_svc is not covered.", "get_svc is covered by the extension X05 (DESIGN.md section 12), not by this check."))


def main():
    props = [json.loads(l)["id"] for l in open(os.path.join(ROOT, "properties.jsonl"))]
    checks = []
    for pid in props:
        if pid not in CHECKS:
            continue
        c = CHECKS[pid]
        checks.append({
            "property_id": pid,
            "quick_cmd": "./run.py check %s --tier quick" % pid,
            "thorough_cmd": "./run.py check %s --tier thorough" % pid,
            "evidence_file": "/verif/evidence/%s.json" % pid,
            "replay_cmd_template": "./run.py check %s --replay {path}" % pid,
            "engine": "tlc-trace-validation",
            "level_claimed": {"category": c["level"], "text": c["text"], "design_ref": "DESIGN.md section " + c["ref"]},
            "level_note": c["note"],
            "technique": c["technique"],
        })
    na = [{"property_id": p, "reason": NOT_APPLICABLE.get(p, PLANNED)} for p in props if p not in CHECKS]
    m = {
        "version": 1,
        "setup_cmd": "./tools/setup.sh",
        "hooks": {
            "guard": "HGX_VERIF",
            "enable": "environment variable HGX_VERIF=1 (set by run.py); pure Python, nothing to build: checks import /repo's working tree directly",
            "baseline_off_cmd": "cd /repo && env -u HGX_VERIF /venv/bin/python -m pytest -ra -q -p no:cacheprovider --timeout=900 --continue-on-collection-errors",
            "source_commits": HOOK_COMMITS,
            "add_only": True,
        },
        "engines": [
            {"name": "tlc-trace-validation", "path": "/verif/run.py",
             "serves_properties": sorted(CHECKS),
             "kind_free_text": "TLA+ specifications under /verif/spec checked with TLC (exhaustive exploration, simulation for behaviour generation, batch trace validation, exact oracle evaluation); Python harness under /verif/harness drives the real code"},
        ],
        "checks": checks,
        "not_applicable": na,
        "notes": "See DESIGN.md. Genuine defects found are listed in known_findings.json (fixed: entries name the fix: commit in /repo). Beyond the listed properties the specification also covers ten extensions (./run.py check X01 .. X10, DESIGN.md section 12; evidence/ext/); they are not registered here because the functions they cover are outside the quantifiers of C01-C20.",
    }
    with open(os.path.join(ROOT, "MANIFEST.json"), "w") as f:
        json.dump(m, f, indent=1)
    print("MANIFEST.json: %d checks, %d not_applicable" % (len(checks), len(na)))


HOOK_COMMITS = ["0508060", "9afb12b", "50585b8", "894336c", "b8b16da"]

if __name__ == "__main__":
    main()
