#!/usr/bin/env python3
"""Keeps seeded/<id>/patch.diff applicable to /repo's HEAD with `git -C /repo apply`: a patch that no
longer applies exactly (hooks / fixes landed next to it) is re-applied with fuzz in a scratch copy
and regenerated as a plain unified diff; patches that cannot be re-applied are reported."""
import glob
import os
import shutil
import subprocess
import sys
import tempfile

ROOT = os.path.dirname(os.path.dirname(os.path.abspath(__file__)))


def sh(cmd, cwd=None):
    p = subprocess.run(cmd, shell=True, cwd=cwd, stdout=subprocess.PIPE, stderr=subprocess.STDOUT, text=True)
    return p.returncode, p.stdout


bad = 0
for d in sorted(glob.glob(os.path.join(ROOT, "seeded", "*"))):
    pf = os.path.join(d, "patch.diff")
    rc, _ = sh("git -C /repo apply --check %s" % pf)
    if rc == 0:
        continue
    scratch = tempfile.mkdtemp(prefix="seedrb-", dir="/tmp")
    try:
        sh("rsync -a --exclude .git /repo/ %s/a/ && cp -r %s/a %s/b" % (scratch, scratch, scratch))
        rc, out = sh("patch -p1 --no-backup-if-mismatch < %s" % pf, cwd=os.path.join(scratch, "b"))
        if rc != 0:
            print("CANNOT REBASE", os.path.basename(d), out.strip().splitlines()[-1] if out.strip() else "")
            bad += 1
            continue
        sh("find b -name '*.orig' -delete -o -name '*.rej' -delete", cwd=scratch)
        rc, diff = sh("diff -ruN a b", cwd=scratch)
        lines = [l for l in diff.splitlines(True) if not l.startswith("diff -ruN")]
        with open(pf, "w") as f:
            f.write("".join(lines))
        rc, _ = sh("git -C /repo apply --check %s" % pf)
        print("rebased", os.path.basename(d), "ok" if rc == 0 else "STILL NOT APPLICABLE")
        bad += rc != 0
    finally:
        shutil.rmtree(scratch, ignore_errors=True)
print("done, problems:", bad)
sys.exit(1 if bad else 0)
