#!/usr/bin/env python3
"""Confirm a seeded change and run the checks against it.

  tools/seedtest.py <seed dir> [--props C05,C06] [--tier quick] [--keep-into /verif/seeded]

1. scratch copy of /repo (outside /repo and /verif), patch applied
2. repo test-suite on the copy (must stay green), demo on the copy (must fail) and on /repo (must pass)
3. the registered check(s) of the property with VERIF_REPO=<copy>: caught iff exit 1 + VIOLATION line
4. copy removed; result written into meta.json of /verif/seeded/<id>/ when --keep-into is given
"""
import argparse
import json
import os
import shutil
import subprocess
import sys
import tempfile
import time

ROOT = os.path.dirname(os.path.dirname(os.path.abspath(__file__)))


def sh(cmd, cwd=None, env=None, timeout=3600):
    e = dict(os.environ)
    if env:
        e.update(env)
    p = subprocess.run(cmd, shell=True, cwd=cwd, env=e, stdout=subprocess.PIPE, stderr=subprocess.STDOUT, text=True,
                       timeout=timeout)
    return p.returncode, p.stdout


def main():
    ap = argparse.ArgumentParser()
    ap.add_argument("seed")
    ap.add_argument("--props")
    ap.add_argument("--tier", default="quick")
    ap.add_argument("--keep-into")
    ap.add_argument("--skip-tests", action="store_true")
    a = ap.parse_args()
    sd = os.path.abspath(a.seed)
    meta = json.load(open(os.path.join(sd, "meta.json")))
    props = a.props.split(",") if a.props else [meta["property"]]
    scratch = tempfile.mkdtemp(prefix="seedrun-", dir="/tmp")
    tree = os.path.join(scratch, "repo")
    out = {"seed": os.path.basename(sd), "property": meta["property"]}
    try:
        sh("rsync -a --exclude .git /repo/ %s/" % tree)
        rc, o = sh("patch -p1 --no-backup-if-mismatch < %s" % os.path.join(sd, "patch.diff"), cwd=tree)
        out["patch_applies"] = rc == 0
        if rc != 0:
            print(o)
            print(json.dumps(out))
            return 2
        if not a.skip_tests:
            rc, o = sh("env -u HGX_VERIF /venv/bin/python -m pytest -q -p no:cacheprovider --timeout=900 tests 2>&1 | tail -1", cwd=tree)
            out["tests"] = o.strip().splitlines()[-1] if o.strip() else ""
            out["tests_green"] = " passed" in out["tests"] and "failed" not in out["tests"]
        rc1, o1 = sh("/venv/bin/python %s" % os.path.join(sd, "demo.py"), env={"PYTHONPATH": tree}, cwd=scratch)
        rc0, o0 = sh("/venv/bin/python %s" % os.path.join(sd, "demo.py"), env={"PYTHONPATH": "/repo"}, cwd=scratch)
        out["demo_changed_exit"] = rc1
        out["demo_unchanged_exit"] = rc0
        out["checks"] = {}
        for p in props:
            t0 = time.time()
            rc, o = sh("./run.py check %s --tier %s" % (p, a.tier), cwd=ROOT, env={"VERIF_REPO": tree})
            lines = [l for l in o.splitlines() if l.startswith("VIOLATION") or l.startswith("  what:") or "MACHINERY" in l]
            out["checks"][p] = {"exit": rc, "caught": rc == 1 and any(l.startswith("VIOLATION") for l in lines),
                                "wall_s": round(time.time() - t0, 1), "lines": lines[:6]}
    finally:
        shutil.rmtree(scratch, ignore_errors=True)
    print(json.dumps(out, indent=1))
    if a.keep_into:
        dst = os.path.join(a.keep_into, os.path.basename(sd))
        os.makedirs(dst, exist_ok=True)
        for f in ("patch.diff", "demo.py"):
            if os.path.abspath(os.path.join(sd, f)) != os.path.abspath(os.path.join(dst, f)):
                shutil.copy(os.path.join(sd, f), os.path.join(dst, f))
        prev = meta.get("confirmed") or {}
        meta["confirmed"] = {k: (out.get(k) if out.get(k) is not None else prev.get(k))
                             for k in ("patch_applies", "tests", "tests_green", "demo_changed_exit", "demo_unchanged_exit")}
        meta["ran"] = ["repo test-suite on a scratch copy with the patch", "demo.py with and without the patch",
                       "./run.py check <prop> --tier %s with VERIF_REPO=<scratch copy>" % a.tier]
        meta["checks"] = out.get("checks")
        json.dump(meta, open(os.path.join(dst, "meta.json"), "w"), indent=1)
    return 0


if __name__ == "__main__":
    sys.exit(main())
