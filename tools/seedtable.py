#!/usr/bin/env python3
"""Prints the markdown table of seeded changes (section 11 of DESIGN.md) from seeded/*/meta.json"""
import glob
import json
import os

ROOT = os.path.dirname(os.path.dirname(os.path.abspath(__file__)))
rows = []
for f in sorted(glob.glob(os.path.join(ROOT, "seeded", "*", "meta.json"))):
    m = json.load(open(f))
    sid = os.path.basename(os.path.dirname(f))
    checks = m.get("checks") or {}
    caught = ", ".join("%s: %s" % (p, "caught" if c.get("caught") else "not caught") for p, c in checks.items())
    if m.get("not_caught_because"):
        caught += " — " + m["not_caught_because"].replace("|", "/")
    clauses = ""
    for c in checks.values():
        for l in c.get("lines", []):
            if "what:" in l:
                clauses = l.split("what:")[1].strip()[:110]
                break
        if clauses:
            break
    rows.append("| %s | %s | %s | %s | %s |" % (sid, m.get("summary", "").replace("|", "/")[:160],
                                            m.get("needs", "").replace("|", "/")[:140], caught, clauses.replace("|", "/")))
print("| id | change | needs | quick check | first rejection |")
print("|---|---|---|---|---|")
print("\n".join(rows))
