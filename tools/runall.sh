#!/bin/sh
# runs every registered quick (or $1=thorough) check sequentially and prints one summary line each
cd "$(dirname "$0")/.."
tier=${1:-quick}
for p in $(python3 -c "import json;print(' '.join(c['property_id'] for c in json.load(open('MANIFEST.json'))['checks']))"); do
  start=$(date +%s)
  ./run.py check $p --tier $tier > .work/$p.$tier.log 2>&1
  rc=$?
  echo "$p rc=$rc $(( $(date +%s) - start ))s $(grep -E 'VIOLATION|KNOWN-FINDING|MACHINERY' .work/$p.$tier.log | head -3 | tr '\n' ' ')"
done
