#!/venv/bin/python
"""Entry point of the verification machinery.

  run.py check <property id> [--tier quick|thorough] [--replay <file>]
  run.py list

Environment: VERIF_SEED (int, default 1), VERIF_TIER (quick|thorough).
Exit codes: 0 property held on everything explored (or only listed known findings),
            1 VIOLATION printed, 2 machinery failure.
"""
import argparse
import importlib
import os
import shutil
import sys
import traceback

ROOT = os.path.dirname(os.path.abspath(__file__))
sys.path.insert(0, ROOT)
# the checks always run against /repo's current working tree, with hooks enabled
sys.path.insert(0, os.environ.get("VERIF_REPO", "/repo"))
os.environ.setdefault("HGX_VERIF", "1")
os.environ.setdefault("PYTHONHASHSEED", "0")

REGISTRY = {
    "C01": ("checks.c01", "run"),
    "C02": ("checks.c02", "run"),
    "C03": ("checks.c03", "run"),
    "C04": ("checks.c04", "run"),
    "C05": ("checks.c05", "run"),
    "C06": ("checks.c06", "run"),
    "C07": ("checks.c07", "run"),
    "C08": ("checks.c08", "run"),
    "C09": ("checks.c09", "run"),
    "C10": ("checks.c10", "run"),
    "C11": ("checks.c11", "run"),
    "C12": ("checks.c12", "run"),
    "C13": ("checks.c13", "run"),
    "C14": ("checks.c14", "run"),
    "C15": ("checks.c15", "run"),
    "C16": ("checks.c16", "run"),
    "C17": ("checks.c17", "run"),
    "C18": ("checks.c18", "run"),
    "C19": ("checks.c19", "run"),
    "C20": ("checks.c20", "run"),
    # specification growth beyond the listed properties (DESIGN.md section 12): not registered in
    # MANIFEST.json, evidence under evidence/ext/
    "X01": ("checks.x01", "run"),
    "X02": ("checks.x02", "run"),
    "X03": ("checks.x03", "run"),
    "X04": ("checks.x04", "run"),
    "X05": ("checks.x05", "run"),
    "X06": ("checks.x06", "run"),
    "X07": ("checks.x07", "run"),
    "X08": ("checks.x08", "run"),
    "X09": ("checks.x09", "run"),
    "X10": ("checks.x10", "run"),
}


def main():
    ap = argparse.ArgumentParser()
    sub = ap.add_subparsers(dest="cmd", required=True)
    c = sub.add_parser("check")
    c.add_argument("prop")
    c.add_argument("--tier", default=os.environ.get("VERIF_TIER", "quick"), choices=["quick", "thorough"])
    c.add_argument("--replay")
    sub.add_parser("list")
    a = ap.parse_args()
    if a.cmd == "list":
        for k in sorted(REGISTRY):
            print(k)
        return 0
    from harness import tlc, verdict
    seed = int(os.environ.get("VERIF_SEED", "1"))
    mod, fn = REGISTRY[a.prop]
    try:
        m = importlib.import_module(mod)
        if a.replay:
            return m.replay(a.replay)
        return getattr(m, fn)(a.tier, seed)
    except tlc.TLCError as ex:
        return verdict.machinery_failure(a.prop, str(ex))
    except Exception:
        return verdict.machinery_failure(a.prop, traceback.format_exc())
    finally:
        # scratch space of this process only
        try:
            for d in os.listdir(tlc.WORK):
                p = os.path.join(tlc.WORK, d)
                if d.endswith(".%d" % os.getpid()):
                    shutil.rmtree(p, ignore_errors=True)
        except FileNotFoundError:
            pass


if __name__ == "__main__":
    sys.exit(main())
