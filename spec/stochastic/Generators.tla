---------------------------- MODULE Generators ----------------------------
(***************************************************************************)
(* C14: every random generator of hypergraphx as a RELATION between its    *)
(* arguments and its result, worded as the property statement words it.    *)
(* A relation is a set of named clauses <<name, holds>> over HGX states    *)
(* (P = the argument hypergraph before the call, Q = the result), so the   *)
(* validator can say which part of the contract failed; AllHold(R) is the    *)
(* relation itself.  Whatever the random draws: nothing here mentions a    *)
(* distribution, only what every outcome must satisfy.                     *)
(*                                                                         *)
(* Nodes "0..n-1" are the spec nodes 1..n (label map i |-> i-1).           *)
(* counts : size -> requested number of hyperedges (a function).           *)
(***************************************************************************)
EXTENDS HGX

AllHold(clauses) == \A cl \in clauses : cl[2]
KeysOfSize(S, z)   == {k \in Keys(S) : KSize(k) = z}
NumOfSize(S, z) == Cardinality(KeysOfSize(S, z))
SizesOf(S)     == {KSize(k) : k \in Keys(S)}
NodesOf(Ks)    == UNION {KN(k) : k \in Ks}
ZeroBased(n)   == 1..n                       \* spec ids of the labels 0..n-1

---------------------------------------------------------------------------
(* random_hypergraph(n, counts, seed) / random_uniform_hypergraph(n, size, count, seed) *)
RandHG(n, counts, Q) ==
  {<<"nodes_are_0_to_n_minus_1", Q.nodes = ZeroBased(n)>>,
   <<"only_requested_sizes", \A k \in Keys(Q) : KSize(k) \in DOMAIN counts>>,
   <<"hyperedges_over_the_nodes", \A k \in Keys(Q) : KN(k) \subseteq ZeroBased(n)>>,
   <<"at_most_requested_per_size", \A z \in DOMAIN counts : NumOfSize(Q, z) <= counts[z]>>,
   <<"at_least_one_when_requested", \A z \in DOMAIN counts : counts[z] >= 1 => NumOfSize(Q, z) >= 1>>}

(* scale_free_hypergraph(n, counts, scales, ...) *)
ScaleFree(n, counts, Q) ==
  {<<"n_nodes", Cardinality(Q.nodes) = n>>,
   <<"exact_number_per_size", \A z \in DOMAIN counts : NumOfSize(Q, z) = counts[z]>>,
   <<"no_other_size", \A k \in Keys(Q) : KSize(k) \in DOMAIN counts>>}

(* HOADmodel(N, {order: activities}, time): Kind = "temp", the x of a key is its time *)
HOAD(N, orders, time, Q) ==
  {<<"size_is_order_plus_one", \A k \in Keys(Q) : KSize(k) - 1 \in orders>>,
   <<"nodes_below_N", \A k \in Keys(Q) : KN(k) \subseteq ZeroBased(N)>>,
   <<"times_in_0_to_time", \A k \in Keys(Q) : 0 <= k.x /\ k.x < time>>}

---------------------------------------------------------------------------
(* add_random_edge(hg, size) (num = 1) / add_random_edges(hg, num, size):             *)
(* the result is `hg` after inserting at most `num` hyperedges of that size over its  *)
(* nodes; an inserted hyperedge that existed already is a re-insertion as AddEdge of  *)
(* HGX defines it (weight accumulates when weighted), everything else is as before.   *)
Reinsertions(P, k) == {S.E[k] : S \in AddEdge(P, k, 0, FALSE, NoMeta)}
AddRandom(P, size, num, Q) ==
  LET new == Keys(Q) \ Keys(P)
      touched == {k \in Keys(P) \cap Keys(Q) : Q.E[k] # P.E[k]}
  IN {<<"node_set_kept", Q.nodes = P.nodes>>,
      <<"existing_hyperedges_kept", Keys(P) \subseteq Keys(Q)>>,
      <<"added_have_requested_size", \A k \in new : KSize(k) = size>>,
      <<"added_over_existing_nodes", \A k \in new : KN(k) \subseteq P.nodes>>,
      <<"at_most_num_added", Cardinality(new) + Cardinality(touched) <= num>>,
      <<"everything_else_intact",
           /\ Q.nmd = P.nmd /\ Q.hmd = P.hmd /\ Q.wtd = P.wtd
           /\ \A k \in touched : KSize(k) = size /\ Q.E[k] \in Reinsertions(P, k)>>}

---------------------------------------------------------------------------
(* random_shuffle(hg, size, p): R = the rewired hyperedges when they were observed   *)
(* (known = TRUE), otherwise only what the statement implies without knowing them.   *)
SameRecords(P, Q, Ks) == \A k \in Ks : k \in Keys(Q) /\ Q.E[k] = P.E[k]
ShuffleSize(P, size, known, R, Q) ==
  LET old  == KeysOfSize(P, size)
      stay == IF known THEN old \ R ELSE {}
      pool == IF known THEN NodesOf(R) ELSE NodesOf(old)
      repl == KeysOfSize(Q, size) \ (IF known THEN stay ELSE old)         \* hyperedges that must be replacements
  IN {<<"rewired_keep_their_size", NumOfSize(Q, size) <= NumOfSize(P, size)>>,
      <<"rewired_are_of_that_size", known => R \subseteq old>>,
      <<"not_rewired_are_kept", stay \subseteq Keys(Q)>>,
      <<"at_most_one_replacement_per_rewired", known => Cardinality(repl) <= Cardinality(R)>>,
      <<"replacement_nodes_from_rewired", \A k \in repl : KN(k) \subseteq pool>>}
Shuffle(P, size, pzero, known, R, Q) ==
  ShuffleSize(P, size, known, R, Q) \cup
  {<<"node_set_kept", Q.nodes = P.nodes>>,
   <<"other_sizes_kept", /\ SameRecords(P, Q, {k \in Keys(P) : KSize(k) # size})
                         /\ \A k \in Keys(Q) : KSize(k) # size => k \in Keys(P)>>,
   <<"p_zero_changes_nothing", pzero => Q = P>>}

(* random_shuffle_all_orders(hg, p): the same for every size present; Rs : size -> rewired *)
ShuffleAll(P, pzero, known, Rs, Q) ==
  UNION {ShuffleSize(P, z, known /\ z \in DOMAIN Rs, IF z \in DOMAIN Rs THEN Rs[z] ELSE {}, Q) : z \in SizesOf(P)}
  \cup {<<"node_set_kept", Q.nodes = P.nodes>>,
        <<"no_new_size", SizesOf(Q) \subseteq SizesOf(P)>>,
        <<"p_zero_changes_nothing", pzero => Q = P>>}

\* inplace = False: the argument after the call (A) is the argument before the call (P)
ArgumentUntouched(P, A) == {<<"argument_untouched_when_not_inplace", A = P>>}
=============================================================================
