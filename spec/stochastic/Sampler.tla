---------------------------- MODULE Sampler ----------------------------
(***************************************************************************)
(* The discrete part of hypergraphx.generation.hy_mmsbm_sampling           *)
(* (HyMMSBMSampler), C16.  Everything real-valued (Poisson means, the      *)
(* Metropolis-Hastings ratio) is abstracted into the outcome of a random   *)
(* choice: which nodes rng.choice returned, whether the move was accepted, *)
(* which integer weight the truncated Poisson produced (0 = underflow).    *)
(*                                                                         *)
(* Part 1: pure relations (used by the state machine below, by the bounded *)
(*         exploration MC_Sampler and by the trace validator Trace_C16).   *)
(* Part 2: the state machine, one action per code step:                    *)
(*   Extract(size, chosen)   _extract_hye called from _match_sequences     *)
(*   Finish                  end of _match_sequences (flag None -> True)   *)
(*   McmcStep(i,j,g1,g2,acc) _mcmc_step / _pairwise_reshuffle              *)
(*   Yield(wts)              one turn of the `while True` loop of sample   *)
(*   Resume                  the consumer calls next() again               *)
(* One behaviour = one call of sample() on a sampler object.  The object   *)
(* may have served earlier calls: rem, todo, chain, fixed start afresh, but *)
(* `flag` (matching_sequences) is an attribute of the object that no call   *)
(* resets - a call starts with whatever flag the earlier ones left, and     *)
(* Extract can only lower it to "no" (MC_Sampler: Flags0, Trace_C16: flag0).*)
(* Nodes are the code's indices (0..N-1); `lab` maps them back to labels.  *)
(* A disabled action = the code raises there (no sample is produced).      *)
(***************************************************************************)
EXTENDS Naturals, Integers, FiniteSets, Sequences, TLC

SRng(f) == {f[i] : i \in DOMAIN f}
RECURSIVE SSum(_, _)
SSum(F(_), D) == IF D = {} THEN 0 ELSE LET d == CHOOSE c \in D : TRUE IN F(d) + SSum(F, D \ {d})

---------------------------------------------------------------------------
(* Part 1a: measures *)
\* of a list (sequence) of hyperedges, repetitions counted
ListDeg(L, n)   == Cardinality({i \in DOMAIN L : n \in L[i]})
ListCount(L, z) == Cardinality({i \in DOMAIN L : Cardinality(L[i]) = z})
NoCoincidence(L) == \A i, j \in DOMAIN L : i # j => L[i] # L[j]
\* of a sequence of sizes
Cnt(sq, z) == Cardinality({i \in DOMAIN sq : sq[i] = z})
SeqTotal(sq) == LET F(i) == sq[i] IN SSum(F, DOMAIN sq)
\* of a weighted hypergraph W : [set of hyperedges -> weight]
HDeg(W, n)   == Cardinality({e \in DOMAIN W : n \in e})
HCount(W, z) == Cardinality({e \in DOMAIN W : Cardinality(e) = z})
HTotalW(W)   == LET F(e) == W[e] IN SSum(F, DOMAIN W)

---------------------------------------------------------------------------
(* Part 1b: _extract_hye.  rem : node -> remaining degree (the dictionary   *)
(* nodes_with_deg read as a function).  The code walks the positive degrees *)
(* in decreasing order and takes whole classes, a random part of the last.  *)
Pos(rem)   == {n \in DOMAIN rem : rem[n] > 0}
Zero(rem)  == {n \in DOMAIN rem : rem[n] = 0}
Avail(rem) == Cardinality(Pos(rem))
Short(rem, size) == Avail(rem) < size           \* the StopIteration branch is taken
GreedyTop(rem, P, k) == /\ P \subseteq Pos(rem) /\ Cardinality(P) = k
                        /\ \A a \in P, b \in Pos(rem) \ P : rem[a] >= rem[b]
\* pad = force_dim_seq or not force_deg_seq
ExtractOK(rem, size, pad, chosen) ==
  LET P == chosen \cap Pos(rem)  Z == chosen \ P IN
  /\ size >= 1
  /\ IF ~Short(rem, size) THEN Z = {} /\ GreedyTop(rem, P, size)
     ELSE IF pad THEN /\ P = Pos(rem)                        \* all that is left ...
                      /\ Z \subseteq Zero(rem)               \* ... padded with zero-degree nodes
                      /\ Cardinality(Z) = size - Avail(rem)  \* (too few of them: rng.choice raises)
     ELSE chosen = (IF Avail(rem) <= 1 THEN {} ELSE Pos(rem))     \* shrunk; never a singleton
          \* (with no positive key at all in nodes_with_deg, i.e. an all-zero degree sequence,
          \*  set.union() of nothing raises instead of returning {}: over-approximated here)
\* only nodes chosen with a positive remaining degree are decremented
DecOn(rem, P) == [n \in DOMAIN rem |-> IF n \in P THEN rem[n] - 1 ELSE rem[n]]
ExtractRem(rem, chosen) == DecOn(rem, chosen \cap Pos(rem))
ExtractFlag(flag, rem, size) == IF Short(rem, size) THEN "no" ELSE flag
\* _match_sequences keeps the hyperedge only `if len(new_hye) > 1`
Kept(L, chosen) == IF Cardinality(chosen) > 1 THEN Append(L, chosen) ELSE L
Choices(rem, size, pad) == {c \in SUBSET (DOMAIN rem) : ExtractOK(rem, size, pad, c)}

---------------------------------------------------------------------------
(* Part 1c: _pairwise_reshuffle: the intersection stays in both, the rest is *)
(* dealt out again, |f1| - |I| nodes to the first.                           *)
Reshuffle(f1, f2, g1, g2) ==
  LET I == f1 \cap f2   D == (f1 \cup f2) \ I IN
  /\ I \subseteq g1 /\ I \subseteq g2
  /\ (g1 \ I) \cup (g2 \ I) = D /\ (g1 \ I) \cap (g2 \ I) = {}
  /\ Cardinality(g1) = Cardinality(f1) /\ Cardinality(g2) = Cardinality(f2)
Splits(f1, f2) ==
  LET I == f1 \cap f2   D == (f1 \cup f2) \ I IN
  {<<I \cup A, I \cup (D \ A)>> : A \in {A \in SUBSET D : Cardinality(A) = Cardinality(f1) - Cardinality(I)}}
\* what one move keeps: both sizes and the union multiset (hence every node's degree)
MovePreserves(f1, f2, g1, g2) ==
  /\ Cardinality(g1) = Cardinality(f1) /\ Cardinality(g2) = Cardinality(f2)
  /\ \A n \in f1 \cup f2 \cup g1 \cup g2 :
       (IF n \in g1 THEN 1 ELSE 0) + (IF n \in g2 THEN 1 ELSE 0) = (IF n \in f1 THEN 1 ELSE 0) + (IF n \in f2 THEN 1 ELSE 0)
Moved(L, i, j, g1, g2, accepted) == IF accepted THEN [L EXCEPT ![i] = g1, ![j] = g2] ELSE L

---------------------------------------------------------------------------
(* Part 1d: the body of the loop of `sample`: raw weights (0 = underflow) are  *)
(* filtered, indices mapped back to labels, equal hyperedges merged by summing *)
Merged(L, wts) ==
  LET live == {i \in DOMAIN L : wts[i] > 0}
      es   == {L[i] : i \in live}
  IN [e \in es |-> LET F(i) == wts[i] IN SSum(F, {i \in live : L[i] = e})]
Image(lb, f) == {lb[n] : n \in f}
YieldOut(L, wts, lb) == Merged([i \in DOMAIN L |-> Image(lb, L[i])], wts)
\* a raw weight of 0 is not an outcome of the truncated Poisson (Y = X | X > 0): the code filters it "although
\* theoretically impossible".  The design tolerates it for well-formedness; the statement's exactness does not
\* excuse it - on a list without coincidences a dropped hyperedge is a violation (Trace_C16: ..._at_yield).
CleanYield(L, wts) == NoCoincidence(L) /\ \A i \in DOMAIN L : wts[i] > 0

---------------------------------------------------------------------------
(* Part 1e: what C16 states about one yielded hypergraph W (nodes = labels).  *)
(* cnd = [mode, deg : label -> degree, sizes : sequence of sizes, maxsize]    *)
(* mode "init" (initial_hyg), "seqs" (deg_seq and dim_seq given), "model"     *)
(* (nothing given), "partial" (one of the two given: not conditioned).        *)
Conditioned(cnd, flag) == cnd.mode = "init" \/ (cnd.mode = "seqs" /\ flag = "yes")
PositiveWeights(W) == \A e \in DOMAIN W : W[e] >= 1
SizesAtLeastTwo(W) == \A e \in DOMAIN W : Cardinality(e) >= 2
SizesAtMostMax(cnd, W) == cnd.mode = "model" => \A e \in DOMAIN W : Cardinality(e) <= cnd.maxsize
KnownNodes(labels, W) == \A e \in DOMAIN W : e \subseteq labels
WellFormedOut(cnd, labels, W) ==
  PositiveWeights(W) /\ SizesAtLeastTwo(W) /\ SizesAtMostMax(cnd, W) /\ KnownNodes(labels, W)
DegNotExceeded(cnd, W)  == \A n \in DOMAIN cnd.deg : HDeg(W, n) <= cnd.deg[n]
SizeNotExceeded(cnd, W) == \A z \in {Cardinality(e) : e \in DOMAIN W} : HCount(W, z) <= Cnt(cnd.sizes, z)
ExactOut(cnd, W) == /\ \A n \in DOMAIN cnd.deg : HDeg(W, n) = cnd.deg[n]
                    /\ \A z \in {Cardinality(e) : e \in DOMAIN W} \cup SRng(cnd.sizes) : HCount(W, z) = Cnt(cnd.sizes, z)
TotalsEqual(cnd) == LET D(n) == cnd.deg[n] IN SSum(D, DOMAIN cnd.deg) = SeqTotal(cnd.sizes)
\* black-box reading of "no two sampled hyperedges coincided": as many hyperedges as were asked for
NothingLost(cnd, W) == Cardinality(DOMAIN W) = Len(cnd.sizes)
SamplerPost(cnd, flag, labels, W) ==
  /\ WellFormedOut(cnd, labels, W)
  /\ Conditioned(cnd, flag) => DegNotExceeded(cnd, W)
  /\ cnd.mode \in {"init", "seqs"} => SizeNotExceeded(cnd, W)
  /\ (Conditioned(cnd, flag) /\ TotalsEqual(cnd) /\ NothingLost(cnd, W)) => ExactOut(cnd, W)

---------------------------------------------------------------------------
(* Part 2: the state machine *)
VARIABLES rem,      \* remaining degree of every node (nodes_with_deg)
          todo,     \* sizes still to be extracted (dim_seq, flattened in iteration order)
          chain,    \* hye_list: sequence of hyperedges, rewritten two at a time
          fixed,    \* fixed_hyperedges (dyadic, only when nothing was given)
          flag,     \* matching_sequences: "none" | "yes" | "no"
          pad,      \* force_dim_seq or not force_deg_seq
          keys,     \* the keys of nodes_with_deg: every degree value some node has had so far
          phase,    \* "build" (_match_sequences) | "run" (_mcmc_routine)
          lab,      \* code index -> label of the caller
          out,      \* [ok, W]: the hypergraph handed out by the last step, if it was a Yield
          clean     \* that Yield saw no coinciding hyperedges and no zero weight
svars == <<rem, todo, chain, fixed, flag, pad, keys, phase, lab, out, clean>>
NoOut == [ok |-> FALSE, W |-> <<>>]

Extract(size, chosen) ==
  /\ phase = "build" /\ todo # <<>> /\ size = Head(todo)
  /\ ExtractOK(rem, size, pad, chosen)
  /\ rem' = ExtractRem(rem, chosen)
  /\ flag' = ExtractFlag(flag, rem, size)
  /\ chain' = Kept(chain, chosen)
  /\ todo' = Tail(todo)
  /\ keys' = keys \cup {rem[n] - 1 : n \in chosen \cap Pos(rem)}
  /\ UNCHANGED <<fixed, pad, phase, lab, out, clean>>

\* end of _match_sequences.  When only the degree sequence is forced (pad = FALSE) the code
\* tests the KEYS of nodes_with_deg (any degree ever seen), sets the flag to False and then
\* needs at most one node with positive degree left (otherwise it goes on extracting hyperedges
\* of random sizes - in the code as it is that line raises AttributeError: self.model).
Finish ==
  /\ phase = "build" /\ todo = <<>>
  /\ IF ~pad /\ keys \ {0} # {}
     THEN Avail(rem) <= 1 /\ flag' = "no"
     ELSE flag' = IF flag = "none" THEN "yes" ELSE flag
  /\ phase' = "run"
  /\ UNCHANGED <<rem, todo, chain, fixed, pad, keys, lab, out, clean>>

\* rng.choice(len(hye_list), size=2, replace=False) raises with fewer than two hyperedges
McmcStep(i, j, g1, g2, accepted) ==
  /\ phase = "run" /\ ~out.ok /\ i \in DOMAIN chain /\ j \in DOMAIN chain /\ i # j
  /\ Reshuffle(chain[i], chain[j], g1, g2)
  /\ chain' = Moved(chain, i, j, g1, g2, accepted)
  /\ UNCHANGED <<rem, todo, fixed, flag, pad, keys, phase, lab, out, clean>>

Yield(wts) ==
  /\ phase = "run" /\ ~out.ok
  /\ LET L == chain \o fixed IN
     /\ DOMAIN wts = DOMAIN L
     /\ out' = [ok |-> TRUE, W |-> YieldOut(L, wts, lab)]
     /\ clean' = CleanYield(L, wts)
  /\ UNCHANGED <<rem, todo, chain, fixed, flag, pad, keys, phase, lab>>

\* the consumer asks for the next sample: the generator goes on from the same chain
Resume ==
  /\ out.ok /\ out' = NoOut /\ clean' = FALSE
  /\ UNCHANGED <<rem, todo, chain, fixed, flag, pad, keys, phase, lab>>
=============================================================================
