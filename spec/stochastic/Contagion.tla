---------------------------- MODULE Contagion ----------------------------
(* Simplicial contagion (C18): SIS dynamics through pairs and triangles.      *)
(* State (I, t): the infected set and the number of entries of the returned   *)
(* vector written so far.  ONE action, Sweep, which reads only the OLD        *)
(* infected set I (synchronous update):                                       *)
(*   a susceptible node MAY become infected iff                               *)
(*        (beta  > 0 and it has an infected pairwise neighbour)  or           *)
(*        (betaD > 0 and both other members of one of its 3-node hyperedges   *)
(*                       are infected)                                        *)
(*   and MUST when the corresponding rate is 1;                               *)
(*   an infected node MAY recover iff mu > 0 and MUST iff mu = 1.             *)
(* Rates are abstracted to "0" | "mid" | "1" (mid = any value strictly        *)
(* between).  With all three rates in {"0","1"} Sweep has exactly one         *)
(* successor: the deterministic regimes of the statement.                     *)
(* The run stops when I = {} or when T entries have been written; from I = {} *)
(* no node can ever be infected, so stopping early and writing zeros is the   *)
(* same as sweeping on.                                                       *)
EXTENDS HGX

HE(S) == {KN(k) : k \in Keys(S)}
PairNbrs(S, n) == {m \in S.nodes : m # n /\ {n, m} \in HE(S)}
TriangleHit(S, J, n) == \E e \in HE(S) : Cardinality(e) = 3 /\ n \in e /\ (e \ {n}) \subseteq J

PairPressure(S, J, n) == PairNbrs(S, n) \cap J # {}
MayInfect(S, J, r, n)  == (r.beta # "0" /\ PairPressure(S, J, n)) \/ (r.betaD # "0" /\ TriangleHit(S, J, n))
MustInfect(S, J, r, n) == (r.beta = "1" /\ PairPressure(S, J, n)) \/ (r.betaD = "1" /\ TriangleHit(S, J, n))

\* nodes that are certainly / possibly infected after one sweep from J
MustIn(S, J, r) == {n \in J : r.mu = "0"} \cup {n \in S.nodes \ J : MustInfect(S, J, r, n)}
MayIn(S, J, r)  == {n \in J : r.mu # "1"} \cup {n \in S.nodes \ J : MayInfect(S, J, r, n)}
SweepOK(S, J, r, J2) == MustIn(S, J, r) \subseteq J2 /\ J2 \subseteq MayIn(S, J, r)
SweepSucc(S, J, r)   == {MustIn(S, J, r) \cup X : X \in SUBSET (MayIn(S, J, r) \ MustIn(S, J, r))}

Deterministic(r) == r.beta \in {"0", "1"} /\ r.betaD \in {"0", "1"} /\ r.mu \in {"0", "1"}
\* the unique successor in a deterministic regime
DetSweep(S, J, r) == MustIn(S, J, r)

\* the vector of infected COUNTS the call returns (fractions = counts / N): entry 1 is the
\* initial count; at most T - 1 sweeps; zeros once the epidemic has died
RECURSIVE DetCounts(_, _, _, _, _)
DetCounts(S, J, r, T, acc) ==
  IF Len(acc) >= T THEN acc
  ELSE LET J2 == IF J = {} THEN {} ELSE DetSweep(S, J, r)
       IN DetCounts(S, J2, r, T, Append(acc, Cardinality(J2)))
DetTrajectory(S, I0, r, T) == DetCounts(S, I0, r, T, <<Cardinality(I0)>>)

\* count vectors that SOME behaviour of the model produces (any rates): sets of infected sets
\* compatible with the counts so far
RECURSIVE Feasible(_, _, _, _, _)
Feasible(S, Js, r, cnt, x) ==
  IF x > Len(cnt) THEN Js # {}
  ELSE IF Js = {} THEN FALSE
  ELSE Feasible(S, {J2 \in UNION {SweepSucc(S, J, r) : J \in Js} : Cardinality(J2) = cnt[x]}, r, cnt, x + 1)
CountsFeasible(S, I0, r, cnt) == Len(cnt) >= 1 /\ cnt[1] = Cardinality(I0) /\ Feasible(S, {I0}, r, cnt, 2)

---------------------------------------------------------------------------
VARIABLES I, t
cvars == <<I, t>>
CInit(I0) == I = I0 /\ t = 1
Sweep(S, r, T) == /\ t < T /\ I # {}
                  /\ I' \in SweepSucc(S, I, r)
                  /\ t' = t + 1
=============================================================================
