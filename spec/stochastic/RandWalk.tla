---------------------------- MODULE RandWalk ----------------------------
(* The random walk on a hypergraph (C18; Carletti et al. 2017) as exact      *)
(* rationals over HGX states of Kind "hg".                                   *)
(*   W[i,j] = sum over the hyperedges containing i and j (i # j) of (|e|-1)   *)
(*   K[i,j] = W[i,j] / sum_j W[i,j]                                           *)
(*   Pi[i]  proportional to the sum over i's hyperedges of (|e|-1)^2          *)
(* K is defined on hypergraphs in which every node has a neighbour (the      *)
(* statement quantifies over connected hypergraphs with at least two nodes). *)
EXTENDS HGX, RatOps

HEdges(S) == {KN(k) : k \in Keys(S)}                      \* the hyperedges as node sets
Share(S, i, j) == {e \in HEdges(S) : i \in e /\ j \in e}

RWWeight(S, i, j) == IF i = j THEN 0
                     ELSE LET F(e) == Cardinality(e) - 1 IN SumSet(F, Share(S, i, j))
RWRow(S, i)  == LET F(j) == RWWeight(S, i, j) IN SumSet(F, S.nodes)
RWDefined(S) == \A i \in S.nodes : RWRow(S, i) > 0
RWK(S, i, j) == RNorm(<<RWWeight(S, i, j), RWRow(S, i)>>)

RWPiWeight(S, i) == LET F(e) == (Cardinality(e) - 1) * (Cardinality(e) - 1) IN SumSet(F, Share(S, i, i))
RWPiTotal(S)     == LET F(i) == RWPiWeight(S, i) IN SumSet(F, S.nodes)
RWPi(S, i)       == RNorm(<<RWPiWeight(S, i), RWPiTotal(S)>>)

\* TLCEval: TLC evaluates function constructors lazily (once per application) unless told otherwise
RWKMat(S)   == TLCEval([p \in S.nodes \X S.nodes |-> RWK(S, p[1], p[2])])
RWPiVec(S)  == TLCEval([i \in S.nodes |-> RWPi(S, i)])

\* one step of the density: (d K)[j] = sum_i d[i] K[i,j]   (d : node -> rational)
RWPushK(V, K, d) == TLCEval([j \in V |-> LET F(i) == RMul(d[i], K[i, j]) IN RSumSet(F, V)])
RWPush(S, d)     == RWPushK(S.nodes, RWKMat(S), d)
RWMass(S, d) == LET F(i) == d[i] IN RSumSet(F, S.nodes)

\* a sampled walk: consecutive nodes are distinct and share a hyperedge (K-positive steps)
RWStepAllowed(S, a, b) == a \in S.nodes /\ b \in S.nodes /\ RWWeight(S, a, b) > 0
RWPathAllowed(S, p) == \A x \in 1..(Len(p) - 1) : RWStepAllowed(S, p[x], p[x + 1])
=============================================================================
