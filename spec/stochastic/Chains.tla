---------------------------- MODULE Chains ----------------------------
(***************************************************************************)
(* C13: the two configuration-model chains of hypergraphx as relations.    *)
(*                                                                         *)
(* Undirected (generation/configuration_model.py, label "edge"/"stub": the *)
(* code path is the same).  Chain state  c : Seq(SUBSET Node)  (the list   *)
(* c_new of the code; every entry is a sorted list without repetition, so  *)
(* a set).  One action per code step:                                      *)
(*   Load      c = listing of the hyperedges (of the requested size)       *)
(*   Propose   indices i, j (re-drawn until the sizes agree when detailed) *)
(*   Reshuffle __pairwise_reshuffle(c[i], c[j]) = (g1, g2): the for loop   *)
(*             of the code is Distribute; ReshuffleRel is what it is meant *)
(*             to compute (intersection kept in both, sizes kept, the rest *)
(*             split); MC_Chains checks that they coincide                 *)
(*   Write     c[i] := g1 ; c[j] := g2                                     *)
(*   Emit      set of the chain elements (+ the untouched hyperedges)      *)
(* All outcomes of np.random are allowed: the operators return SETS.       *)
(*                                                                         *)
(* Directed (generation/directed_configuration_model.py).  Chain state     *)
(* d : Seq([s, t]); a swap exchanges one node of side s (then of side t)   *)
(* between two different entries and is refused when either entry would    *)
(* list a node twice.                                                      *)
(*                                                                         *)
(* CMPost / CMPostDir are the clause sets of the property statement on an  *)
(* (input, output) pair of HGX states: they judge the code (Trace_C13) and *)
(* are proved of the model for every outcome (MC_Chains).                  *)
(***************************************************************************)
EXTENDS HGX

---------------------------------------------------------------------------
(* Undirected chain *)
Rest(f1, f2) == (f1 \cup f2) \ (f1 \cap f2)

\* what a reshuffle of (f1, f2) may return
ReshuffleRel(f1, f2, g1, g2) ==
  LET I == f1 \cap f2 IN
  /\ I \subseteq g1 /\ I \subseteq g2
  /\ Cardinality(g1) = Cardinality(f1) /\ Cardinality(g2) = Cardinality(f2)
  /\ (g1 \ I) \cap (g2 \ I) = {}
  /\ (g1 \ I) \cup (g2 \ I) = Rest(f1, f2)

\* the same, constructively
ReshuffleOutcomes(f1, f2) ==
  LET I == f1 \cap f2
      D == Rest(f1, f2)
      k == Cardinality(f1) - Cardinality(I)
  IN {<<I \cup A, I \cup (D \ A)>> : A \in {X \in SUBSET D : Cardinality(X) = k}}

\* the loop of __pairwise_reshuffle over the remaining nodes f (a sequence), line by line:
\* both have room -> either; one has room -> that one; none -> the node is dropped
RECURSIVE Distribute(_, _, _, _, _, _)
Distribute(f, k, g1, g2, n1, n2) ==
  IF k > Len(f) THEN {<<g1, g2>>}
  ELSE LET v == f[k]
           room1 == Cardinality(g1) < n1
           room2 == Cardinality(g2) < n2
       IN (IF room1 THEN Distribute(f, k + 1, g1 \cup {v}, g2, n1, n2) ELSE {})
          \cup (IF room2 THEN Distribute(f, k + 1, g1, g2 \cup {v}, n1, n2) ELSE {})
          \cup (IF ~room1 /\ ~room2 THEN Distribute(f, k + 1, g1, g2, n1, n2) ELSE {})
LoopOutcomes(f1, f2, order) ==
  Distribute(order, 1, f1 \cap f2, f1 \cap f2, Cardinality(f1), Cardinality(f2))

Proposable(c, det, i, j) ==
  /\ i \in DOMAIN c /\ j \in DOMAIN c
  /\ det => Cardinality(c[i]) = Cardinality(c[j])
\* c[i] := g1 first, then c[j] := g2
Write(c, i, j, g1, g2) == [x \in DOMAIN c |-> IF x = j THEN g2 ELSE IF x = i THEN g1 ELSE c[x]]
ReshuffleStep(c, det, i, j, g1, g2) == Proposable(c, det, i, j) /\ ReshuffleRel(c[i], c[j], g1, g2)
ChainSucc(c, det) ==
  UNION {{Write(c, p[1], p[2], o[1], o[2]) : o \in ReshuffleOutcomes(c[p[1]], c[p[2]])}
         : p \in {q \in (DOMAIN c) \X (DOMAIN c) : Proposable(c, det, q[1], q[2])}}

Selected(H, z)  == IF z = 0 THEN H ELSE {e \in H : Cardinality(e) = z}     \* z = 0: no size / order argument
Untouched(H, z) == H \ Selected(H, z)
EmitEdges(c, U) == {c[i] : i \in DOMAIN c} \cup U

\* degrees of a chain (a hyperedge listed twice counts twice) and of a set of hyperedges
ChainDegZ(c, n, z) == Cardinality({i \in DOMAIN c : n \in c[i] /\ Cardinality(c[i]) = z})
ChainDeg(c, n)     == Cardinality({i \in DOMAIN c : n \in c[i]})
ChainSizes(c)      == [z \in {Cardinality(c[i]) : i \in DOMAIN c} |-> Cardinality({i \in DOMAIN c : Cardinality(c[i]) = z})]
SetDegZ(H, n, z)   == Cardinality({e \in H : n \in e /\ Cardinality(e) = z})
SetDeg(H, n)       == Cardinality({e \in H : n \in e})
SetSizes(H)        == [z \in {Cardinality(e) : e \in H} |-> Cardinality({e \in H : Cardinality(e) = z})]

\* the unweighted hypergraph with hyperedge set H
AsHG(H) == [nodes |-> UNION H,
            E     |-> [k \in {Key(e, {}, 0) : e \in H} |-> [w |-> 1, md |-> NoMeta]],
            nmd   |-> [n \in UNION H |-> NoMeta], hmd |-> NoMeta, wtd |-> FALSE]

---------------------------------------------------------------------------
(* Directed chain *)
Side(h, role) == IF role = "s" THEN h.s ELSE h.t
SwapOK(d, role, a, b, n1, n2) ==
  /\ a \in DOMAIN d /\ b \in DOMAIN d /\ a # b
  /\ n1 \in Side(d[a], role) /\ n2 \in Side(d[b], role)
  /\ n2 \notin Side(d[a], role) /\ n1 \notin Side(d[b], role)
Put(h, role, S) == IF role = "s" THEN [h EXCEPT !.s = S] ELSE [h EXCEPT !.t = S]
SwapWrite(d, role, a, b, n1, n2) ==
  [x \in DOMAIN d |-> IF x = a THEN Put(d[a], role, (Side(d[a], role) \ {n1}) \cup {n2})
                      ELSE IF x = b THEN Put(d[b], role, (Side(d[b], role) \ {n2}) \cup {n1})
                      ELSE d[x]]
SwapSucc(d, role) ==
  UNION {{SwapWrite(d, role, p[1], p[2], n[1], n[2])
            : n \in {m \in Side(d[p[1]], role) \X Side(d[p[2]], role) : SwapOK(d, role, p[1], p[2], m[1], m[2])}}
         : p \in {q \in (DOMAIN d) \X (DOMAIN d) : q[1] # q[2]}}
DirEmit(d) == {Key(d[i].s, d[i].t, 0) : i \in DOMAIN d}
AsDir(Ks) == [nodes |-> UNION {KN(k) : k \in Ks},
              E     |-> [k \in Ks |-> [w |-> 1, md |-> NoMeta]],
              nmd   |-> [n \in UNION {KN(k) : k \in Ks} |-> NoMeta], hmd |-> NoMeta, wtd |-> FALSE]
ShapeBag(S) == LET Sh(k) == <<Cardinality(k.s), Cardinality(k.t)>>
               IN [sh \in {Sh(k) : k \in Keys(S)} |-> Cardinality({k \in Keys(S) : Sh(k) = sh})]

---------------------------------------------------------------------------
(* The statement of C13 on an (input, output) pair; a = [detailed, size] (size 0 = not given) *)
AllNodes(P, Q) == P.nodes \cup Q.nodes \cup UNION {KN(k) : k \in Keys(P) \cup Keys(Q)}
AllSizes(P, Q) == {KSize(k) : k \in Keys(P) \cup Keys(Q)}
CountKept(P, Q) == Cardinality(Keys(Q)) = Cardinality(Keys(P))

CMPost(P, Q, a) ==
  LET ns == AllNodes(P, Q)
      zs == AllSizes(P, Q)
      kept == CountKept(P, Q)
  IN {<<"no_total_degree_increase", \A n \in ns : Degree(Q, n, NoF) <= Degree(P, n, NoF)>>,
      <<"no_degree_increase_at_any_size",
          a.detailed => \A n \in ns, z \in zs : Degree(Q, n, <<"eq", z>>) <= Degree(P, n, <<"eq", z>>)>>,
      <<"total_degree_kept_when_count_kept", kept => \A n \in ns : Degree(Q, n, NoF) = Degree(P, n, NoF)>>,
      <<"degree_at_every_size_kept_when_count_kept",
          (kept /\ a.detailed) => \A n \in ns, z \in zs : Degree(Q, n, <<"eq", z>>) = Degree(P, n, <<"eq", z>>)>>,
      <<"size_multiset_kept_when_count_kept", kept => SizesBag(Q) = SizesBag(P)>>,
      <<"other_sizes_returned_intact",
          a.size # 0 => {k \in Keys(Q) : KSize(k) # a.size} = {k \in Keys(P) : KSize(k) # a.size}>>}

CMPostDir(P, Q) ==
  LET ns == AllNodes(P, Q)
      kept == CountKept(P, Q)
  IN {<<"no_in_degree_increase",  \A n \in ns : InDeg(Q, n, NoF) <= InDeg(P, n, NoF)>>,
      <<"no_out_degree_increase", \A n \in ns : OutDeg(Q, n, NoF) <= OutDeg(P, n, NoF)>>,
      <<"in_degree_kept_when_count_kept",  kept => \A n \in ns : InDeg(Q, n, NoF) = InDeg(P, n, NoF)>>,
      <<"out_degree_kept_when_count_kept", kept => \A n \in ns : OutDeg(Q, n, NoF) = OutDeg(P, n, NoF)>>,
      <<"shape_multiset_kept_when_count_kept", kept => ShapeBag(Q) = ShapeBag(P)>>}

Holds(clauses) == \A cl \in clauses : cl[2]
=============================================================================
