---------------------------- MODULE HGImpl ----------------------------
(***************************************************************************)
(* Implementation-shaped model of hypergraphx.core.hypergraph.Hypergraph:  *)
(* the tables of the class (edge index, reverse index, id-keyed weights    *)
(* and hyperedge metadata, node metadata, adjacency LISTS of ids, next id) *)
(* with one action per public mutator, written after the code line by      *)
(* line.  TLC checks (a) IndexInv - the tables mirror each other with       *)
(* multiplicity one and hold nothing for removed items - and (b) that every *)
(* step is a step of the abstract model HGX (Kind = "hg") under the         *)
(* refinement mapping AbsState.  The constant Bug switches one historic     *)
(* fault back on; the configurations with Bug # "none" MUST fail (they are  *)
(* the non-vacuity evidence for the invariants):                           *)
(*   "reappend"      add_edge appends the id to the adjacency lists again   *)
(*   "nmd_leak"      remove_node keeps the node's metadata entry            *)
(*   "partial"       remove_edges removes a prefix of the list, then raises *)
(*   "weight_after"  shrinking reads the weight after deleting the hyperedge*)
(***************************************************************************)
EXTENDS HGX
CONSTANTS Node, MaxW, Weighted, MaxId, Bug, MKeys, MVals
VARIABLES adj, elist, rev, wts, emd, nmd, hmd, nextId
ivars == <<adj, elist, rev, wts, emd, nmd, hmd, nextId>>

EdgeU == SUBSET Node \ {{}}
Metas == UNION {[D -> MVals] : D \in SUBSET MKeys}
K(e) == Key(e, {}, 0)

IOps ==
       {[op |-> "add_node", n |-> n, hasmd |-> FALSE, md |-> NoMeta] : n \in Node}
  \cup {[op |-> "add_node", n |-> n, hasmd |-> TRUE, md |-> m] : n \in Node, m \in Metas}
  \cup {[op |-> "add_edge", k |-> K(e), w |-> w, hasmd |-> FALSE, md |-> NoMeta, bad |-> ""] : e \in EdgeU, w \in 0..MaxW}
  \cup {[op |-> "add_edge", k |-> K(e), w |-> 0, hasmd |-> TRUE, md |-> m, bad |-> ""] : e \in EdgeU, m \in Metas}
  \cup {[op |-> "remove_edge", k |-> K(e)] : e \in EdgeU}
  \* the same hyperedge twice in one removal list is an open corner (DESIGN.md section 5): not generated
  \cup {[op |-> "remove_edges", ks |-> <<K(p[1]), K(p[2])>>] : p \in {q \in EdgeU \X EdgeU : q[1] # q[2]}}
  \cup {[op |-> "remove_node", n |-> n, keep |-> kp] : n \in Node, kp \in BOOLEAN}
  \cup {[op |-> "set_weight", k |-> K(e), w |-> w] : e \in EdgeU, w \in 1..MaxW}
  \cup {[op |-> "set_attr_node", n |-> n, f |-> f, v |-> v] : n \in Node, f \in MKeys, v \in MVals}
  \cup {[op |-> "del_attr_edge", k |-> K(e), f |-> f] : e \in EdgeU, f \in MKeys}
  \cup {[op |-> "clear"]}

Init == /\ adj = <<>> /\ elist = <<>> /\ rev = <<>> /\ wts = <<>> /\ emd = <<>> /\ nmd = <<>>
        /\ hmd = Empty(Weighted, "Hypergraph").hmd /\ nextId = 0

RemoveOne(sq, v) == LET i == CHOOSE j \in DOMAIN sq : sq[j] = v IN SubSeq(sq, 1, i - 1) \o SubSeq(sq, i + 1, Len(sq))
Occurs(sq, v) == \E j \in DOMAIN sq : sq[j] = v

\* the tables as one record, so that helper "methods" can be composed like the code composes calls
T == [adj |-> adj, elist |-> elist, rev |-> rev, wts |-> wts, emd |-> emd, nmd |-> nmd, hmd |-> hmd, nextId |-> nextId]
Install(t) == /\ adj' = t.adj /\ elist' = t.elist /\ rev' = t.rev /\ wts' = t.wts /\ emd' = t.emd
              /\ nmd' = t.nmd /\ hmd' = t.hmd /\ nextId' = t.nextId

Ok(t) == [raised |-> FALSE, t |-> t]
Raise(t) == [raised |-> TRUE, t |-> t]

\* add_node(node, metadata=None)
MAddNode(t, n, md) ==
  LET t1 == IF n \in DOMAIN t.adj THEN t
            ELSE [t EXCEPT !.adj = Upd(t.adj, n, <<>>), !.nmd = Upd(t.nmd, n, NoMeta)]
  IN IF t1.nmd[n] = NoMeta THEN [t1 EXCEPT !.nmd[n] = md] ELSE t1

RECURSIVE MAddNodesOf(_, _)
MAddNodesOf(t, ns) == IF ns = {} THEN t ELSE LET n == CHOOSE c \in ns : TRUE IN MAddNodesOf(MAddNode(t, n, NoMeta), ns \ {n})

\* add_edge(edge, weight=None, metadata=None); returns "raise" when rejected
MAddEdge(t, e, w, md) ==
  IF ~Weighted /\ w \notin {0, 1} THEN Raise(t) ELSE
  LET W   == IF w = 0 THEN 1 ELSE w
      new == e \notin DOMAIN t.elist
      id  == IF new THEN t.nextId ELSE t.elist[e]
      t1  == IF new THEN [t EXCEPT !.elist = Upd(t.elist, e, id), !.rev = Upd(t.rev, id, e),
                                   !.wts = Upd(t.wts, id, IF Weighted THEN W ELSE 1), !.nextId = t.nextId + 1]
             ELSE IF Weighted THEN [t EXCEPT !.wts[id] = t.wts[id] + W] ELSE t
      t2  == [t1 EXCEPT !.emd = Upd(t1.emd, id, md)]
      t3  == MAddNodesOf(t2, e)
  IN Ok([t3 EXCEPT !.adj = [n \in DOMAIN t3.adj |->
                           IF n \in e /\ (new \/ Bug = "reappend") THEN Append(t3.adj[n], id) ELSE t3.adj[n]]])

\* remove_edge(edge)
MRemoveEdge(t, e) ==
  IF e \notin DOMAIN t.elist THEN Raise(t) ELSE
  LET id == t.elist[e] IN
  Ok([t EXCEPT !.adj = [n \in DOMAIN t.adj |-> IF n \in e /\ Occurs(t.adj[n], id) THEN RemoveOne(t.adj[n], id) ELSE t.adj[n]],
            !.rev = Without(t.rev, {id}), !.emd = Without(t.emd, {id}), !.wts = Without(t.wts, {id}),
            !.elist = Without(t.elist, {e})])

\* remove_edges(edge_list): the repaired code checks the whole list first
RECURSIVE MRemoveSeq(_, _, _)
MRemoveSeq(t, es, i) ==
  IF i > Len(es) THEN [t |-> t, raised |-> FALSE]
  ELSE LET r == MRemoveEdge(t, es[i]) IN
       IF r.raised THEN [t |-> t, raised |-> TRUE] ELSE MRemoveSeq(r.t, es, i + 1)
MRemoveEdges(t, es) ==
  IF Bug # "partial" /\ \E i \in DOMAIN es : es[i] \notin DOMAIN t.elist
  THEN [t |-> t, raised |-> TRUE]
  ELSE MRemoveSeq(t, es, 1)

SeqOfSet(S) == CHOOSE sq \in [1..Cardinality(S) -> S] : \A a, b \in 1..Cardinality(S) : a # b => sq[a] # sq[b]

\* remove_node(node, keep_edges)
RECURSIVE MShrink(_, _, _, _)
MShrink(t, ids, i, n) ==
  IF i > Len(ids) THEN t
  ELSE LET e  == t.rev[ids[i]]
           e2 == e \ {n}
           wOld == t.wts[ids[i]]  mdOld == t.emd[ids[i]]
           \* the repaired code inserts the shrunk hyperedge (reading weight and metadata) BEFORE removing
           tA == IF e2 = {} THEN t ELSE MAddEdge(t, e2, IF Bug = "weight_after" THEN 0 ELSE wOld, mdOld).t
           tB == MRemoveEdge(tA, e).t
       IN MShrink(tB, ids, i + 1, n)
MRemoveNode(t, n, keep) ==
  IF n \notin DOMAIN t.adj THEN Raise(t) ELSE
  LET ids == t.adj[n]
      t1 == IF keep THEN MShrink(t, ids, 1, n)
            ELSE MRemoveSeq(t, [i \in DOMAIN ids |-> t.rev[ids[i]]], 1).t
  IN Ok([t1 EXCEPT !.adj = Without(t1.adj, {n}),
                !.nmd = IF Bug = "nmd_leak" THEN t1.nmd ELSE Without(t1.nmd, {n})])

IStep(o) ==
  CASE o.op = "add_node" -> Install(MAddNode(T, o.n, IF o.hasmd THEN o.md ELSE NoMeta))
    [] o.op = "add_edge" -> LET r == MAddEdge(T, o.k.s, o.w, IF o.hasmd THEN o.md ELSE NoMeta)
                            IN Install(r.t)
    [] o.op = "remove_edge" -> LET r == MRemoveEdge(T, o.k.s) IN Install(r.t)
    [] o.op = "remove_edges" -> Install(MRemoveEdges(T, [i \in DOMAIN o.ks |-> o.ks[i].s]).t)
    [] o.op = "remove_node" -> LET r == MRemoveNode(T, o.n, o.keep) IN Install(r.t)
    [] o.op = "set_weight" -> IF (~Weighted /\ o.w # 1) \/ o.k.s \notin DOMAIN elist THEN UNCHANGED ivars
                              ELSE Install([T EXCEPT !.wts[elist[o.k.s]] = o.w])
    [] o.op = "set_attr_node" -> IF o.n \notin DOMAIN nmd THEN UNCHANGED ivars
                                 ELSE Install([T EXCEPT !.nmd[o.n] = Upd(nmd[o.n], o.f, o.v)])
    [] o.op = "del_attr_edge" -> IF o.k.s \notin DOMAIN elist \/ o.f \notin DOMAIN emd[elist[o.k.s]] THEN UNCHANGED ivars
                                 ELSE Install([T EXCEPT !.emd[elist[o.k.s]] = Without(emd[elist[o.k.s]], {o.f})])
    [] o.op = "clear" -> Install([T EXCEPT !.adj = <<>>, !.elist = <<>>, !.rev = <<>>, !.wts = <<>>, !.emd = <<>>,
                                          !.nmd = <<>>, !.hmd = <<>>])

(* --- refinement mapping: what the public API shows of the tables ---------- *)
AbsOf(t) ==
  [nodes |-> DOMAIN t.adj,
   E     |-> [k \in {K(e) : e \in DOMAIN t.elist} |-> [w |-> t.wts[t.elist[k.s]], md |-> t.emd[t.elist[k.s]]]],
   nmd   |-> [n \in DOMAIN t.adj |-> IF n \in DOMAIN t.nmd THEN t.nmd[n] ELSE NoMeta],
   hmd   |-> t.hmd,
   wtd   |-> Weighted]
AbsState == AbsOf(T)
\* singleton hyperedges shrunk away is the open corner the abstract model resolves by dropping them
Refines(o, a, b) == IF Valid(a, o) THEN b \in Succ(a, o) ELSE b = a

INext == \E o \in IOps :
   /\ IStep(o)
   /\ Assert(Refines(o, AbsState, AbsOf([adj |-> adj', elist |-> elist', rev |-> rev', wts |-> wts', emd |-> emd',
                                         nmd |-> nmd', hmd |-> hmd', nextId |-> nextId'])),
             <<"step is not a step of the abstract model", o>>)
ISpec == Init /\ [][INext]_ivars

(* --- the tables mirror each other ----------------------------------------- *)
IndexInv ==
  /\ \A e \in DOMAIN elist : elist[e] \in DOMAIN rev /\ rev[elist[e]] = e
  /\ \A i \in DOMAIN rev : rev[i] \in DOMAIN elist /\ elist[rev[i]] = i
  /\ DOMAIN wts = DOMAIN rev /\ DOMAIN emd = DOMAIN rev
  /\ \A n \in DOMAIN adj : \A i \in DOMAIN rev :
        Cardinality({j \in DOMAIN adj[n] : adj[n][j] = i}) = (IF n \in rev[i] THEN 1 ELSE 0)
  /\ \A n \in DOMAIN adj : \A j \in DOMAIN adj[n] : adj[n][j] \in DOMAIN rev     \* no dangling id
  /\ \A i \in DOMAIN rev : rev[i] \subseteq DOMAIN adj
  /\ DOMAIN nmd = DOMAIN adj                                                      \* nothing for removed nodes
  /\ \A i \in DOMAIN rev : i < nextId
IBound == nextId <= MaxId /\ \A i \in DOMAIN wts : wts[i] <= MaxW
=============================================================================
