---------------------------- MODULE KImpl ----------------------------
(***************************************************************************)
(* Implementation-shaped model of the other three containers                *)
(*   Kind = "dir"   DirectedHypergraph  (two adjacency maps, per role)      *)
(*   Kind = "temp"  TemporalHypergraph  (key = (time, nodes))               *)
(*   Kind = "mux"   MultiplexHypergraph (key = (nodes, layer))              *)
(* with the tables of the classes (edge index, reverse index, id-keyed      *)
(* weights and hyperedge metadata, node metadata, adjacency LISTS of ids,   *)
(* next id) and one action per public mutator written after the repaired   *)
(* code.  TLC checks IndexInv and that every step is a step of HGX under    *)
(* AbsOf (Assert in INext).  Bug switches one historic fault back on; those *)
(* configurations must fail:                                                *)
(*   "reappend"      add_edge appends the id to the adjacency lists again    *)
(*   "nmd_leak"      remove_node keeps the node's metadata entry (dir)       *)
(*   "weight_after"  shrinking reads weight/metadata after the deletion      *)
(*                   (temp, mux: the shrunk hyperedge gets weight 1, {})      *)
(*   "addnode_reset" add_node without metadata resets existing metadata (dir)*)
(***************************************************************************)
EXTENDS HGX
CONSTANTS Node, MaxW, Weighted, MaxId, Bug, MKeys, MVals, XS
VARIABLES adjS, adjT, elist, rev, wts, emd, nmd, hmd, nextId
ivars == <<adjS, adjT, elist, rev, wts, emd, nmd, hmd, nextId>>

NESub == SUBSET Node \ {{}}
Metas == UNION {[D -> MVals] : D \in SUBSET MKeys}
KeyU  == IF Kind = "dir"
         THEN {Key(p[1], p[2], 0) : p \in {q \in NESub \X NESub : q[1] \cap q[2] = {}}}
         ELSE {Key(p[1], {}, p[2]) : p \in NESub \X XS}

IOps ==
       {[op |-> "add_node", n |-> n, hasmd |-> FALSE, md |-> NoMeta] : n \in Node}
  \cup {[op |-> "add_node", n |-> n, hasmd |-> TRUE, md |-> m] : n \in Node, m \in Metas}
  \cup {[op |-> "add_edge", k |-> k, w |-> w, hasmd |-> FALSE, md |-> NoMeta, bad |-> ""] : k \in KeyU, w \in 0..MaxW}
  \cup {[op |-> "add_edge", k |-> k, w |-> 0, hasmd |-> TRUE, md |-> m, bad |-> ""] : k \in KeyU, m \in Metas}
  \cup {[op |-> "remove_edge", k |-> k] : k \in KeyU}
  \cup {[op |-> "remove_node", n |-> n, keep |-> kp] : n \in Node, kp \in IF Kind = "dir" THEN {FALSE} ELSE BOOLEAN}
  \cup {[op |-> "set_weight", k |-> k, w |-> w] : k \in KeyU, w \in 1..MaxW}
  \cup {[op |-> "set_attr_edge", k |-> k, f |-> f, v |-> v] : k \in KeyU, f \in MKeys, v \in MVals}
  \cup {[op |-> "del_attr_node", n |-> n, f |-> f] : n \in Node, f \in MKeys}

Init == /\ adjS = <<>> /\ adjT = <<>> /\ elist = <<>> /\ rev = <<>> /\ wts = <<>> /\ emd = <<>> /\ nmd = <<>>
        /\ hmd = Empty(Weighted, TypeName).hmd /\ nextId = 0

RemoveOne(sq, v) == LET i == CHOOSE j \in DOMAIN sq : sq[j] = v IN SubSeq(sq, 1, i - 1) \o SubSeq(sq, i + 1, Len(sq))
Occurs(sq, v) == \E j \in DOMAIN sq : sq[j] = v

T == [adjS |-> adjS, adjT |-> adjT, elist |-> elist, rev |-> rev, wts |-> wts, emd |-> emd, nmd |-> nmd,
      hmd |-> hmd, nextId |-> nextId]
Install(t) == /\ adjS' = t.adjS /\ adjT' = t.adjT /\ elist' = t.elist /\ rev' = t.rev /\ wts' = t.wts
              /\ emd' = t.emd /\ nmd' = t.nmd /\ hmd' = t.hmd /\ nextId' = t.nextId
Ok(t) == [raised |-> FALSE, t |-> t]
Raise(t) == [raised |-> TRUE, t |-> t]

\* add_node(node, metadata=None)
MAddNode(t, n, hasmd, md) ==
  LET t0 == IF Bug = "addnode_reset" /\ ~hasmd /\ n \in DOMAIN t.nmd THEN [t EXCEPT !.nmd[n] = NoMeta] ELSE t
      t1 == IF n \in DOMAIN t0.adjS THEN t0
            ELSE [t0 EXCEPT !.adjS = Upd(t0.adjS, n, <<>>), !.adjT = Upd(t0.adjT, n, <<>>), !.nmd = Upd(t0.nmd, n, NoMeta)]
      given == IF hasmd THEN md ELSE NoMeta
  IN IF t1.nmd[n] = NoMeta THEN [t1 EXCEPT !.nmd[n] = given] ELSE t1

RECURSIVE MAddNodesOf(_, _)
MAddNodesOf(t, ns) == IF ns = {} THEN t ELSE LET n == CHOOSE c \in ns : TRUE IN MAddNodesOf(MAddNode(t, n, FALSE, NoMeta), ns \ {n})

\* add_edge(edge, [time | layer], weight=None, metadata=None)
MAddEdge(t, k, w, md) ==
  IF ~Weighted /\ w \notin {0, 1} THEN Raise(t) ELSE
  LET W   == IF w = 0 THEN 1 ELSE w
      new == k \notin DOMAIN t.elist
      id  == IF new THEN t.nextId ELSE t.elist[k]
      t1  == IF new THEN [t EXCEPT !.elist = Upd(t.elist, k, id), !.rev = Upd(t.rev, id, k),
                                   !.wts = Upd(t.wts, id, IF Weighted THEN W ELSE 1), !.nextId = t.nextId + 1]
             ELSE IF Weighted THEN [t EXCEPT !.wts[id] = t.wts[id] + W] ELSE t
      t2  == [t1 EXCEPT !.emd = Upd(t1.emd, id, md)]
      t3  == MAddNodesOf(t2, KN(k))
      app == new \/ Bug = "reappend"
  IN Ok([t3 EXCEPT !.adjS = [n \in DOMAIN t3.adjS |-> IF n \in k.s /\ app THEN Append(t3.adjS[n], id) ELSE t3.adjS[n]],
                   !.adjT = [n \in DOMAIN t3.adjT |-> IF n \in k.t /\ app THEN Append(t3.adjT[n], id) ELSE t3.adjT[n]]])

\* remove_edge
MRemoveEdge(t, k) ==
  IF k \notin DOMAIN t.elist THEN Raise(t) ELSE
  LET id == t.elist[k]
      Cut(a, S) == [n \in DOMAIN a |-> IF n \in S /\ Occurs(a[n], id) THEN RemoveOne(a[n], id) ELSE a[n]]
  IN Ok([t EXCEPT !.adjS = Cut(t.adjS, k.s), !.adjT = Cut(t.adjT, k.t),
                  !.rev = Without(t.rev, {id}), !.emd = Without(t.emd, {id}), !.wts = Without(t.wts, {id}),
                  !.elist = Without(t.elist, {k})])

RECURSIVE MRemoveIds(_, _, _)
MRemoveIds(t, ids, i) ==
  IF i > Len(ids) THEN t
  ELSE IF ids[i] \in DOMAIN t.rev THEN MRemoveIds(MRemoveEdge(t, t.rev[ids[i]]).t, ids, i + 1)
       ELSE MRemoveIds(t, ids, i + 1)

\* remove_node(keep_edges=True) of the temporal / multiplex classes: remove, then re-insert the shrunk key
RECURSIVE MShrink(_, _, _, _)
MShrink(t, ids, i, n) ==
  IF i > Len(ids) THEN t
  ELSE LET k  == t.rev[ids[i]]
           k2 == Drop(k, n)
           wOld == t.wts[ids[i]]  mdOld == t.emd[ids[i]]
           tA == MRemoveEdge(t, k).t
           tB == IF k2.s = {} THEN tA
                 ELSE MAddEdge(tA, k2, IF Bug = "weight_after" THEN 0 ELSE wOld,
                                       IF Bug = "weight_after" THEN NoMeta ELSE mdOld).t
       IN MShrink(tB, ids, i + 1, n)

MRemoveNode(t, n, keep) ==
  IF n \notin DOMAIN t.adjS THEN Raise(t) ELSE
  LET ids == t.adjS[n] \o t.adjT[n]
      t1 == IF keep THEN MShrink(t, t.adjS[n], 1, n) ELSE MRemoveIds(t, ids, 1)
  IN Ok([t1 EXCEPT !.adjS = Without(t1.adjS, {n}), !.adjT = Without(t1.adjT, {n}),
                   !.nmd = IF Bug = "nmd_leak" THEN t1.nmd ELSE Without(t1.nmd, {n})])

IStep(o) ==
  CASE o.op = "add_node" -> Install(MAddNode(T, o.n, o.hasmd, o.md))
    [] o.op = "add_edge" -> Install(MAddEdge(T, o.k, o.w, IF o.hasmd THEN o.md ELSE NoMeta).t)
    [] o.op = "remove_edge" -> Install(MRemoveEdge(T, o.k).t)
    [] o.op = "remove_node" -> Install(MRemoveNode(T, o.n, o.keep).t)
    [] o.op = "set_weight" -> IF (~Weighted /\ o.w # 1) \/ o.k \notin DOMAIN elist THEN UNCHANGED ivars
                              ELSE Install([T EXCEPT !.wts[elist[o.k]] = o.w])
    [] o.op = "set_attr_edge" -> IF o.k \notin DOMAIN elist THEN UNCHANGED ivars
                                 ELSE Install([T EXCEPT !.emd[elist[o.k]] = Upd(emd[elist[o.k]], o.f, o.v)])
    [] o.op = "del_attr_node" -> IF o.n \notin DOMAIN nmd \/ o.f \notin DOMAIN nmd[o.n] THEN UNCHANGED ivars
                                 ELSE Install([T EXCEPT !.nmd[o.n] = Without(nmd[o.n], {o.f})])

(* refinement mapping: what the public API shows of the tables.  The directed class enumerates *)
(* node metadata from its metadata table (get_all_nodes_metadata, hash): a leaked entry shows. *)
AbsOf(t) ==
  [nodes |-> DOMAIN t.adjS,
   E     |-> [k \in DOMAIN t.elist |-> [w |-> t.wts[t.elist[k]], md |-> t.emd[t.elist[k]]]],
   nmd   |-> [n \in DOMAIN t.adjS |-> IF n \in DOMAIN t.nmd THEN t.nmd[n] ELSE NoMeta],
   hmd   |-> t.hmd,
   wtd   |-> Weighted]
AbsState == AbsOf(T)
\* an open corner of the abstract model: shrinking away a singleton hyperedge (dropped by both)
Refines(o, a, b) == IF Valid(a, o) THEN b \in Succ(a, o) ELSE b = a

INext == \E o \in IOps :
   /\ IStep(o)
   /\ Assert(Refines(o, AbsState, AbsOf([adjS |-> adjS', adjT |-> adjT', elist |-> elist', rev |-> rev', wts |-> wts',
                                         emd |-> emd', nmd |-> nmd', hmd |-> hmd', nextId |-> nextId'])),
             <<"step is not a step of the abstract model", o>>)

IndexInv ==
  /\ \A k \in DOMAIN elist : elist[k] \in DOMAIN rev /\ rev[elist[k]] = k
  /\ \A i \in DOMAIN rev : rev[i] \in DOMAIN elist /\ elist[rev[i]] = i
  /\ DOMAIN wts = DOMAIN rev /\ DOMAIN emd = DOMAIN rev
  /\ DOMAIN adjS = DOMAIN adjT
  /\ \A n \in DOMAIN adjS : \A i \in DOMAIN rev :
        /\ Cardinality({j \in DOMAIN adjS[n] : adjS[n][j] = i}) = (IF n \in rev[i].s THEN 1 ELSE 0)
        /\ Cardinality({j \in DOMAIN adjT[n] : adjT[n][j] = i}) = (IF n \in rev[i].t THEN 1 ELSE 0)
  /\ \A n \in DOMAIN adjS : /\ \A j \in DOMAIN adjS[n] : adjS[n][j] \in DOMAIN rev
                            /\ \A j \in DOMAIN adjT[n] : adjT[n][j] \in DOMAIN rev
  /\ \A i \in DOMAIN rev : KN(rev[i]) \subseteq DOMAIN adjS
  /\ DOMAIN nmd = DOMAIN adjS
  /\ \A i \in DOMAIN rev : i < nextId
IBound == nextId <= MaxId /\ \A i \in DOMAIN wts : wts[i] <= MaxW
=============================================================================
