---------------------------- MODULE ESP ----------------------------
(***************************************************************************)
(* Elementary symmetric polynomials maintained incrementally (C17): the    *)
(* state that Hypergraph-MT keeps per community k as psiOmega[:, k] and    *)
(* psiBarOmega[:, k] (hypergraphx/communities/hypergraph_mt/model.py       *)
(* _update_psiBarOmega / _update_psiOmega), over INTEGER memberships.      *)
(*                                                                         *)
(*   u      : 1..N -> 0..V         one column of the membership matrix     *)
(*   psi    : 0..D -> Int          psi[d] is meant to be e_d(u)            *)
(*   psiBar : 0..D -> Int          e_d of u without the node just visited  *)
(* with e_0 = 1 (the code stores degree d at row d-1 and has no row for    *)
(* degree 0: psiBar[0] - the empty product - is the constant 1 there).     *)
(*                                                                         *)
(* Visiting node i with new value v:                                       *)
(*   psiBar'[d] = psi[d] - u[i] * psiBar'[d-1]          (remove node i)    *)
(*   psi'[d]    = psi[d] + (v - u[i]) * psiBar'[d-1]    (re-insert with v) *)
(* Mut # 0 switches in must-fail variants of the recurrence.               *)
(***************************************************************************)
EXTENDS Integers, FiniteSets, Sequences

\* the definition: sum over all d-subsets of the product of the entries
RECURSIVE Prod(_, _)
Prod(f, S) == IF S = {} THEN 1 ELSE LET x == CHOOSE y \in S : TRUE IN f[x] * Prod(f, S \ {x})
RECURSIVE SumProd(_, _)
SumProd(f, SS) == IF SS = {} THEN 0 ELSE LET s == CHOOSE y \in SS : TRUE IN Prod(f, s) + SumProd(f, SS \ {s})
Elem(f, Nodes, d) == SumProd(f, {s \in SUBSET Nodes : Cardinality(s) = d})

\* the recurrences (functions 0..D -> Int defined by recursion on d)
BarOf(psi, ui, D, Mut) ==
  LET B[d \in 0..D] == IF d = 0 THEN 1
                       ELSE IF Mut = 2 THEN psi[d] - ui * psi[d - 1]       \* mutant: full instead of reduced polynomial
                       ELSE psi[d] - ui * B[d - 1]
  IN B
PsiOf(psi, bar, ui, v, D, Mut) ==
  [d \in 0..D |-> IF d = 0 THEN 1
                  ELSE IF Mut = 1 THEN psi[d] - (v - ui) * bar[d - 1]      \* mutant: sign of the correction
                  ELSE psi[d] + (v - ui) * bar[d - 1]]
\* closed form used at initialisation: all N entries equal to c  =>  e_d = c^d C(N, d)
RECURSIVE Pow(_, _)
Pow(c, d) == IF d = 0 THEN 1 ELSE c * Pow(c, d - 1)
RECURSIVE Choose(_, _)
Choose(n, k) == IF k < 0 \/ k > n THEN 0 ELSE IF k = 0 THEN 1 ELSE (Choose(n - 1, k - 1) * n) \div k
ConstantInit(c, N, D) == [d \in 0..D |-> Pow(c, d) * Choose(N, d)]
=============================================================================
