---------------------------- MODULE HyMMSBM ----------------------------
(***************************************************************************)
(* Hy-MMSBM (C15): the quantities of the probabilistic model, exactly,     *)
(* over INTEGER parameter matrices.                                        *)
(*   U : 1..N -> 1..K -> Nat   memberships (row i = node i)                *)
(*   W : 1..K -> 1..K -> Nat   symmetric affinity                          *)
(* Definitions ("BF", brute force over all possible hyperedges) and the    *)
(* closed forms ("CF") exactly as hypergraphx/communities/hy_mmsbm/model.py *)
(* states them (C, C', C'', quadratic-form shortcuts).  Rationals are      *)
(* <<num, den>> with den > 0, normalised by the gcd.                       *)
(* The brute-force operators take the table  Lam : SUBSET (1..N) -> Nat    *)
(* of Poisson parameters (LamTable) so that a caller evaluates it once.    *)
(* 32-bit bound (kept by the harness): entries 0..3, N <= 6, K <= 3        *)
(* => every numerator and denominator stays below 2*10^7.                  *)
(***************************************************************************)
EXTENDS Integers, Sequences, FiniteSets, SequencesExt, TLC

\* TLCEval(v) = v: it only makes TLC evaluate a function-valued LET definition once instead of at every application

\* ---- exact rationals ------------------------------------------------------
RECURSIVE Gcd(_, _)
Gcd(a, b) == IF b = 0 THEN a ELSE Gcd(b, a % b)
AbsI(x) == IF x < 0 THEN -x ELSE x
RNorm(r) == IF r[1] = 0 THEN <<0, 1>>
            ELSE LET g == Gcd(AbsI(r[1]), r[2]) IN <<r[1] \div g, r[2] \div g>>
RAdd(a, b) == RNorm(<<a[1] * b[2] + b[1] * a[2], a[2] * b[2]>>)
RMul(a, b) == RNorm(<<a[1] * b[1], a[2] * b[2]>>)
RInt(n)    == <<n, 1>>
REq(a, b)  == a[1] * b[2] = b[1] * a[2]

\* sums over finite sets (through an arbitrary enumeration of the set)
RECURSIVE ISumN(_, _)
ISumN(F(_), n) == IF n = 0 THEN 0 ELSE F(n) + ISumN(F, n - 1)
RECURSIVE RSumN(_, _)
RSumN(F(_), n) == IF n = 0 THEN <<0, 1>> ELSE RAdd(F(n), RSumN(F, n - 1))
ISum(F(_), S) == LET q == SetToSeq(S)  G(k) == F(q[k]) IN ISumN(G, Len(q))
RSum(F(_), S) == LET q == SetToSeq(S)  G(k) == F(q[k]) IN RSumN(G, Len(q))

RECURSIVE Binom(_, _)
Binom(n, k) == IF k < 0 \/ k > n THEN 0 ELSE IF k = 0 THEN 1 ELSE (Binom(n - 1, k - 1) * n) \div k

\* ---- the definitions --------------------------------------------------------
KK(W) == DOMAIN W
Bf(x, y, W) == LET T(p) == x[p[1]] * W[p[1]][p[2]] * y[p[2]] IN ISum(T, KK(W) \X KK(W))    \* x^T W y
Qf(x, W)    == Bf(x, x, W)
Pairs(e)    == {p \in e \X e : p[1] < p[2]}
Gram(U, W)  == [i \in DOMAIN U |-> [j \in DOMAIN U |-> Bf(U[i], U[j], W)]]                  \* u_i^T w u_j

\* Poisson parameter of the hyperedge e (a set of nodes): sum over its node pairs of u_i^T w u_j
LambdaG(G, e)   == LET T(p) == G[p[1]][p[2]] IN ISum(T, Pairs(e))
Lambda(U, W, e) == LambdaG(Gram(U, W), e)
LamTable(U, W)  == LET G == TLCEval(Gram(U, W)) IN [e \in SUBSET (DOMAIN U) |-> LambdaG(G, e)]
\* normalisation kappa_d = C(N-2, d-2) d (d-1) / 2   ("binom+avg")
Kappa(N, d) == Binom(N - 2, d - 2) * ((d * (d - 1)) \div 2)
EdgesOfSize(N, d) == {e \in SUBSET (1..N) : Cardinality(e) = d}

\* expected number of hyperedges of size d: sum over ALL hyperedges of that size of Lambda / kappa
ExpCountBF(Lam, N, d) == LET L(e) == Lam[e] IN RNorm(<<ISum(L, EdgesOfSize(N, d)), Kappa(N, d)>>)
\* expected degree of node i from the hyperedges of ONE size d: sum over all hyperedges of size d containing i
ExpDegBF1(Lam, N, d, i) == LET L(e) == Lam[e] IN RNorm(<<ISum(L, {e \in EdgesOfSize(N, d) : i \in e}), Kappa(N, d)>>)
DegTable(Lam, N)        == [i \in 1..N |-> [d \in 2..N |-> ExpDegBF1(Lam, N, d, i)]]
\* ... and for a set ds of sizes; T is DegTable (a caller may evaluate it once)
ExpDegBFT(T, ds, i)     == LET P(d) == T[i][d] IN RSum(P, ds)
AvgDegBFT(T, N, ds)     == LET E(i) == ExpDegBFT(T, ds, i) IN RMul(RSum(E, 1..N), <<1, N>>)
ExpDegBF(Lam, N, ds, i) == ExpDegBFT(DegTable(Lam, N), ds, i)
AvgDegBF(Lam, N, ds)    == AvgDegBFT(DegTable(Lam, N), N, ds)

\* ---- the closed forms, as the code states them ----------------------------------
USum(U, W)  == [a \in KK(W) |-> LET T(i) == U[i][a] IN ISum(T, DOMAIN U)]
QfSum(U, W) == LET T(i) == Qf(U[i], W) IN ISum(T, DOMAIN U)                  \* qf_and_sum
BfSum(U, W) == <<Qf(TLCEval(USum(U, W)), W) - QfSum(U, W), 2>>                        \* bf_and_sum = 0.5 (qf(sum) - qf_and_sum)
CC(ds)         == LET T(d) == <<2, d * (d - 1)>> IN RSum(T, ds)               \* C:   sum 2 / (d (d-1))
\* C': 2/(N-2) sum (d-2)/(d (d-1)); on two nodes there is no size >= 3 and the sum is empty (the code divides by N-2)
CPrime(N, ds)  == LET T(d) == <<d - 2, d * (d - 1)>> IN IF N = 2 THEN <<0, 1>> ELSE RMul(<<2, N - 2>>, RSum(T, ds))
CSecond(N, ds) == LET T(d) == <<1, d - 1>> IN RMul(<<2, N>>, RSum(T, ds))     \* C'': 2/N sum 1/(d-1)

\* poisson_params: 0.5 (s_e^T w s_e - sum_{i in e} u_i^T w u_i)
PoissonCF(U, W, e) ==
  LET s == TLCEval([a \in KK(W) |-> LET T(i) == U[i][a] IN ISum(T, e)])
      Q(i) == Qf(U[i], W)
  IN RNorm(<<Qf(s, W) - ISum(Q, e), 2>>)
\* expected_degree(per_node=True): C * first + C' * second, with the two node terms of the code
NodeTerms(U, W, i) ==
  LET S == TLCEval(USum(U, W))
      first == Bf(U[i], S, W) - Qf(U[i], W)
      rest == TLCEval([a \in KK(W) |-> S[a] - U[i][a]])
      second == <<Qf(rest, W) - QfSum(U, W) + Qf(U[i], W), 2>>
  IN <<first, second>>
ExpDegCFT(nt, N, ds)     == RAdd(RMul(CC(ds), RInt(nt[1])), RMul(CPrime(N, ds), nt[2]))
ExpDegCF(U, W, N, ds, i) == ExpDegCFT(NodeTerms(U, W, i), N, ds)
AvgDegCFT(bfsum, N, ds)  == RMul(CSecond(N, ds), bfsum)                      \* expected_degree(per_node=False): C'' * bf_and_sum
AvgDegCF(U, W, N, ds)    == AvgDegCFT(BfSum(U, W), N, ds)
ExpCountCFT(bfsum, d)    == RMul(CC({d}), bfsum)                             \* dimension_sequence: C summand * bf_and_sum
ExpCountCF(U, W, N, d)   == ExpCountCFT(BfSum(U, W), d)

Symmetric(W) == \A a, b \in KK(W) : W[a][b] = W[b][a]
=============================================================================
