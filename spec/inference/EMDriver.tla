---------------------------- MODULE EMDriver ----------------------------
(***************************************************************************)
(* Monitor state machine of an EM inference routine with restarts          *)
(* (C15: HyMMSBM.fit, one realisation whose step t is "fit with n_iter=t"; *)
(*  C17: HypergraphMT.fit, n_realizations realisations, best one returned).*)
(*                                                                         *)
(* The objective is real-valued and never enters TLC: every objective      *)
(* value is an INTEGER code supplied by the harness (an order-preserving   *)
(* rank of the logged floats), so the machine decides the SHAPE claims:    *)
(* ascent, fixed parameters stay, bookkeeping of the best realisation.     *)
(*                                                                         *)
(* The machine is written over a state record S so that the trace          *)
(* validator (Trace_EM) can evaluate guards and effects on logged events;  *)
(* MC_EMDriver wraps it into Init/Next for exhaustive exploration.         *)
(*                                                                         *)
(* cfg : [nReal, maxIter, every, ascent, fixedU, fixedW, assortative]      *)
(*   every   a row of the objective is recorded every `every` EM steps     *)
(*   ascent  TRUE iff ascent of the objective is claimed for this run      *)
(* S   : [phase, nreal, r, it, cur, curx, aux, best, bestR, finals]        *)
(*   phase   "idle" between realisations | "run" | "conv" | "done"         *)
(*   it      EM steps performed in the current realisation                 *)
(*   cur     tolerance-rank of the objective after the latest recorded step*)
(*   curx    exact rank of the same value (bookkeeping of the maximum)     *)
(*   aux     second objective (C15: the MAP objective)                     *)
(*   best    exact rank of the best FINAL value so far, bestR its          *)
(*           realisation (-1: none yet), finals: all final values          *)
(***************************************************************************)
EXTENDS Integers, Sequences, FiniteSets

Init0 == [phase |-> "idle", nreal |-> 0, r |-> -1, it |-> 0, cur |-> 0, curx |-> 0, aux |-> 0,
          best |-> 0, bestR |-> -1, finals |-> <<>>]

\* ---- StartReal: realisations are numbered 0, 1, 2, ... and do not overlap ----
StartOK(cfg, S, r) == S.phase = "idle" /\ r = S.nreal /\ S.nreal < cfg.nReal
StartReal(S, r)    == [S EXCEPT !.phase = "run", !.r = r, !.it = 0]

\* ---- EMStep: `n` EM steps, then the objective is recorded ------------------
StepsDue(cfg, S)   == IF S.it = 0 THEN 1 ELSE cfg.every
StepOK(cfg, S, r, n) == S.phase = "run" /\ r = S.r /\ n = StepsDue(cfg, S) /\ S.it + n <= cfg.maxIter
\* Ascent: claimed from the second recorded value on (the first has no predecessor)
Ascent(cfg, S, obj)    == (cfg.ascent /\ S.it > 0) => obj >= S.cur
AuxAscent(cfg, S, aux) == (cfg.ascent /\ S.it > 0) => aux >= S.aux
EMStep(S, n, obj, objx, aux) == [S EXCEPT !.it = S.it + n, !.cur = obj, !.curx = objx, !.aux = aux]
\* per-step parameter contracts (C15), on booleans decided by the harness
FixedStay(cfg, f)              == (cfg.fixedU => f.uSame) /\ (cfg.fixedW => f.wSame)
FiniteNonNeg(f)                == f.finite /\ f.nonneg
WSymmetric(f)                  == f.wsym
WDiagonalIfAssortative(cfg, f) == cfg.assortative => f.wdiag

\* ---- Converge: the stopping criterion fired; only EndReal may follow --------
ConvergeOK(S) == S.phase = "run" /\ S.it > 0
Converge(S)   == [S EXCEPT !.phase = "conv"]

\* ---- EndReal: best' = max(best, cur); ties keep the earlier realisation -----
MoreDue(cfg, S) == S.it + cfg.every <= cfg.maxIter           \* another recorded step would still fit
EndOK(cfg, S)   == S.it > 0 /\ (S.phase = "conv" \/ (S.phase = "run" /\ ~MoreDue(cfg, S)))
Better(S)       == S.bestR = -1 \/ S.curx > S.best
EndReal(S)      == [S EXCEPT !.phase = "idle", !.nreal = S.nreal + 1, !.finals = Append(S.finals, S.curx),
                             !.best = IF Better(S) THEN S.curx ELSE S.best,
                             !.bestR = IF Better(S) THEN S.r ELSE S.bestR]

\* ---- Return: maxL = best, the returned parameters are those of bestR ---------
ReturnOK(cfg, S) == S.phase = "idle" /\ S.nreal = cfg.nReal /\ S.nreal > 0
Return(S)        == [S EXCEPT !.phase = "done"]
MaxFinal(S)      == CHOOSE m \in {S.finals[i] : i \in DOMAIN S.finals} : \A i \in DOMAIN S.finals : S.finals[i] <= m
FirstArgMax(S)   == (CHOOSE i \in DOMAIN S.finals : S.finals[i] = MaxFinal(S) /\ \A j \in 1..(i - 1) : S.finals[j] < MaxFinal(S)) - 1

\* ---- what the bookkeeping must establish (checked on the design by MC_EMDriver) --
BestIsMaxOfFinals(S)  == S.nreal > 0 => S.best = MaxFinal(S)
BestIsEarliestMax(S)  == S.nreal > 0 => S.bestR = FirstArgMax(S)
CountsConsistent(S)   == Len(S.finals) = S.nreal /\ (S.phase \in {"run", "conv"} => S.r = S.nreal)
=============================================================================
