---------------------------- MODULE MC_Visits ----------------------------
(* X03 on the design.  The bounded container model of MC_HGX (variable st)   *)
(* runs together with the visit machine of Visits.tla (variable vs): from    *)
(* every reachable container state, with the machine idle, either a public   *)
(* call changes the container or a visit starts (every algorithm, start      *)
(* node, depth bound, filter); a started visit runs to the end, every order  *)
(* of appending the neighbours being a different successor.                  *)
EXTENDS MC_HGX, Visits
CONSTANTS Algos,        \* subset of {"bfs", "dfs", "dfs_code"}
          Depths,       \* depth bounds, 99 = None (a cfg file has no negative numbers)
          VSizes,       \* sizes given to the visit as a filter, 0 = no filter
          MaxEdges,     \* bound on the number of hyperedges (own small configs)
          MinSize       \* smallest hyperedge size explored
VARIABLE vs
vvars == <<st, vs>>
VFilters == {IF z = 0 THEN NoF ELSE EqF(z) : z \in VSizes}

VInit == Init /\ vs = VIdle
VNext ==
  \/ /\ vs.phase = "idle"
     /\ \E o \in Ops : Step(o)
     /\ UNCHANGED vs
  \/ /\ vs.phase = "idle"
     /\ \E a \in Algos, n \in st.nodes, d \in Depths, f \in VFilters :
           vs' = VStart(a, n, IF d = 99 THEN -1 ELSE d, f)
     /\ UNCHANGED st
  \/ /\ vs.phase = "run" /\ ~VDone(vs)
     /\ vs' \in VSucc(st, vs)
     /\ UNCHANGED st
VBound == /\ Bound
          /\ Cardinality(Keys(st)) <= MaxEdges
          /\ \A k \in Keys(st) : KSize(k) >= MinSize

Finished == vs.phase = "run" /\ VDone(vs)
Target   == Ball(st, vs.start, vs.md, vs.f)
NN       == Cardinality(Node)

(* --- X03-a/b: the visit -------------------------------------------------- *)
\* every terminating run of the FIFO machine and of the repaired LIFO machine ends with visited = Ball
VisitExact == (Finished /\ vs.algo \in {"bfs", "dfs"}) => vs.vis = Target
\* the code-shaped DFS is exact without a depth bound ...
DfsCodeUnbounded == (Finished /\ vs.algo = "dfs_code" /\ vs.md < 0) => vs.vis = Target
\* ... and with one it is NOT (must-fail configuration: 4 nodes, depth 2)
DfsCodeExact == (Finished /\ vs.algo = "dfs_code") => vs.vis = Target
\* no machine ever leaves the ball; the depth written on an entry is an upper bound of the true distance
VisitSound == vs.phase = "run" =>
   /\ vs.vis \subseteq Target
   /\ \A i \in DOMAIN vs.fr : /\ vs.fr[i][1] \in BallD(st, vs.start, vs.fr[i][2], vs.f)
                              /\ (vs.md >= 0 => vs.fr[i][2] <= vs.md)
   /\ DOMAIN vs.best = vs.vis
   /\ (Finished => vs.start \in vs.vis)
\* why FIFO is exact: the queue is sorted by depth and spans at most two depths
BfsQueueSorted == (vs.phase = "run" /\ vs.algo = "bfs") =>
   /\ \A i, j \in DOMAIN vs.fr : i <= j => vs.fr[i][2] <= vs.fr[j][2]
   /\ (Len(vs.fr) > 0 => vs.fr[Len(vs.fr)][2] - vs.fr[1][2] <= 1)
\* every run terminates: a step takes one entry, a node is expanded once (bfs, dfs_code) or at most once per depth (dfs)
RunBounded == vs.steps <= 1 + NN * NN * NN

(* --- X03-c: balls (machine idle: once per container state) ---------------- *)
BallLaws == vs.phase = "idle" => \A f \in VFilters, n \in st.nodes :
   /\ Ball(st, n, 0, f) = {n}
   /\ \A d \in 0..NN : /\ Ball(st, n, d, f) \subseteq Ball(st, n, d + 1, f)
                       /\ Ball(st, n, d + 1, f) = UNION {Ball(st, m, 1, f) : m \in Ball(st, n, d, f)}
                       /\ \A m \in st.nodes : (m \in Ball(st, n, d, f)) <=> (n \in Ball(st, m, d, f))
   /\ Ball(st, n, NN - 1, f) = CompOf(st, n, f)
   /\ Ball(st, n, -1, f) = CompOf(st, n, f)
   /\ Ball(st, n, 1, f) = {n} \cup Neigh(st, n, f)

(* --- X03-d/e: degrees ------------------------------------------------------ *)
SizesU == 0..(NN + 1)
DegreeBySize == vs.phase = "idle" =>
   /\ \A z \in SizesU : DSum(st, z) = z * Cardinality(EdgesF(st, EqF(z)))
   /\ \A n \in st.nodes : LET D(z) == Degree(st, n, EqF(z)) IN SumSet(D, SizesU) = Degree(st, n, NoF)
   /\ \A f \in Filters : LET dd == DegDist(st, f)  M(d) == d * dd[d]  Z(k) == KSize(k)
                         IN SumSet(M, DOMAIN dd) = SumSet(Z, EdgesF(st, f))
   /\ \A f \in Filters : DOMAIN DegSeq(st, f) = st.nodes
\* the degree table is built once per state: T[z][n] = degree of n at size z
PearsonLaws == vs.phase = "idle" =>
   LET ZZ == 2..(NN + 1)
       T  == [z \in ZZ |-> [n \in st.nodes |-> Degree(st, n, EqF(z))]]
       S1 == [z \in ZZ |-> LET D(n) == T[z][n] IN SumSet(D, st.nodes)]
       C  == [p \in ZZ \X ZZ |-> LET P(n) == T[p[1]][n] * T[p[2]][n]
                                  IN Cardinality(st.nodes) * SumSet(P, st.nodes) - S1[p[1]] * S1[p[2]]]
   IN \A a, b \in ZZ :
   /\ C[<<a, b>>] = Cov(st, a, b) /\ C[<<a, a>>] = Var(st, a)          \* the table is the definition
   /\ C[<<a, b>>] = C[<<b, a>>]
   /\ C[<<a, a>>] >= 0
   /\ C[<<a, b>>] * C[<<a, b>>] <= C[<<a, a>>] * C[<<b, b>>]            \* |r| <= 1 (Cauchy-Schwarz)
   /\ C[<<a, a>>] > 0 => (PearsonSq(st, a, a)[1] = PearsonSq(st, a, a)[2] /\ PearsonSign(st, a, a) = 1)
   /\ (C[<<a, a>>] = 0) <=> (\A n, m \in st.nodes : T[a][n] = T[a][m])
   /\ CorrDim(st) >= 0 /\ (a > CorrDim(st) + 1 => C[<<a, a>>] = 0)

(* --- X03-f: multiplex -------------------------------------------------------- *)
MuxLaws == (Kind = "mux" /\ vs.phase = "idle") =>
   /\ \A n \in st.nodes, f \in Filters :
        LET L(x) == LayerDegree(st, n, x, f) IN SumSet(L, XS) = Degree(st, n, f)
   /\ \A ss \in {k.s : k \in Keys(st)} :
        /\ Overlap(st, ss) >= Cardinality(LayersHolding(st, ss))
        /\ ~st.wtd => Overlap(st, ss) = Cardinality(LayersHolding(st, ss))
   /\ \A ss \in (SUBSET Node) \ {k.s : k \in Keys(st)} : Overlap(st, ss) = 0
   /\ LET O(ss) == Overlap(st, ss)  W(k) == st.E[k].w
      IN SumSet(O, {k.s : k \in Keys(st)}) = SumSet(W, Keys(st))

(* --- X03-g: similarity --------------------------------------------------------- *)
RLe(p, q) == p[1] * q[2] <= q[1] * p[2]
RAdd(p, q) == <<p[1] * q[2] + q[1] * p[2], p[2] * q[2]>>
\* a fact about sets, not about the state: evaluated once, in the states with no node
JaccardLaws == (vs.phase = "idle" /\ st.nodes = {}) => \A a, b \in SUBSET Node : JDefined(a, b) =>
   LET s == Jaccard(a, b)  d == JDist(a, b) IN
   /\ 0 <= s[1] /\ s[1] <= s[2] /\ s[2] > 0 /\ s[1] = Inter(a, b)
   /\ d[2] = s[2] /\ d[1] + s[1] = s[2] /\ 0 <= d[1]                    \* distance = 1 - similarity
   /\ s = Jaccard(b, a)
   /\ (s[1] = s[2]) <=> (a = b)
   /\ (s[1] = 0) <=> (a \cap b = {})
   /\ \A c \in SUBSET Node : (JDefined(a, c) /\ JDefined(c, b)) => RLe(d, RAdd(JDist(a, c), JDist(c, b)))   \* a metric

(* --- X03-h: isolated nodes ------------------------------------------------------- *)
IsolatedLaws == vs.phase = "idle" => \A f \in Filters, n \in st.nodes :
   /\ (n \in Isolated(st, f)) <=> (Degree(st, n, f) = 0 \/ \A k \in Incident(st, n, f) : KN(k) = {n})
   /\ (n \in Isolated(st, f)) <=> (Ball(st, n, 1, f) = {n})
=============================================================================
