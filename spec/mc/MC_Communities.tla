---------------------------- MODULE MC_Communities ----------------------------
(* X07 on the design, exhaustively.  Three parts (constant Part):              *)
(*  "merge"  every set of MinE..MaxE distinct hyperedges (sizes in ESizes)     *)
(*           over Node is built one hyperedge at a time; from each of them     *)
(*           the merge machine of Communities.tla runs to the end, every       *)
(*           minimum pair being a different successor (all tie-breaking        *)
(*           orders);                                                          *)
(*  "perm"   every K x K overlap matrix with entries 0..MaxV; the greedy       *)
(*           machine runs to the end (all tie-breaking orders, all pairings of *)
(*           what is left), compared with ALL K! permutations;                 *)
(*  "laws"   one state: the profile on a grid of rationals, normalisation of   *)
(*           every 2 x 2 / 2 x 3 matrix with entries 0..2, Jaccard distances.  *)
EXTENDS Communities
CONSTANTS Part, Node, ESizes, MinE, MaxE, Linkage, PK, MaxV, TFN, TFD
VARIABLES ed, ms, pm
vars == <<ed, ms, pm>>
ASSUME Cardinality(Node) <= 7            \* HLScale = lcm(1..7)

AllEdges == {e \in SUBSET Node : Cardinality(e) \in ESizes}
MIdle    == [phase |-> "build", m |-> HLStart({})]
PIdle    == [M |-> <<>>, g |-> PMStart]

Init == /\ ed = {}
        /\ ms = MIdle
        /\ IF Part = "perm"
           THEN \E M \in [1..PK -> [1..PK -> 0..MaxV]] : pm = [M |-> M, g |-> PMStart]
           ELSE pm = PIdle

Build == /\ Part = "merge" /\ ms.phase = "build" /\ Cardinality(ed) < MaxE
         /\ \E e \in AllEdges \ ed : ed' = ed \cup {e}
         /\ UNCHANGED <<ms, pm>>
Start == /\ Part = "merge" /\ ms.phase = "build" /\ Cardinality(ed) >= MinE
         /\ ms' = [phase |-> "run", m |-> HLStart(ed)]
         /\ UNCHANGED <<ed, pm>>
Step  == /\ Part = "merge" /\ ms.phase = "run" /\ ~HLDone(ms.m)
         /\ \E x \in HLSucc(Linkage, ms.m) : ms' = [phase |-> "run", m |-> x]
         /\ UNCHANGED <<ed, pm>>
Pick  == /\ Part = "perm"
         /\ \E g \in PMSucc(pm.M, PK, pm.g) : pm' = [pm EXCEPT !.g = g]
         /\ UNCHANGED <<ed, ms>>
Next == Build \/ Start \/ Step \/ Pick

---------------------------------------------------------------------------
(* the merge machine *)
Running  == ms.phase = "run"
Finished == Running /\ HLDone(ms.m)
M0       == HLStart(ed).P
HsOf     == ms.m.hs
Grid     == Rng(HsOf) \cup {QZero, QOne, <<1, 2>>, <<2, 3>>, <<3, 4>>}

\* the clusters always partition the hyperedges; one height and one partition per merge
MergeShape == Running =>
   /\ HLIsPartition(ms.m.P, ed)
   /\ Len(HsOf) = Cardinality(ed) - Cardinality(ms.m.P)
   /\ Len(ms.m.ps) = Len(HsOf) + 1 /\ ms.m.ps[Len(ms.m.ps)] = ms.m.P
\* a run is never stuck before one cluster is left: EVERY run ends in one cluster (X07-d, method="average")
MergeProgress == (Running /\ ~HLDone(ms.m)) => HLSucc(Linkage, ms.m) # {}
\* heights: positive, at most 1, never decreasing (no inversion: a cut is a prefix of the run)
HeightsMonotone == Running =>
   /\ \A i \in DOMAIN HsOf : QLt(QZero, HsOf[i]) /\ QLe(HsOf[i], QOne)
   /\ \A i \in DOMAIN HsOf : i > 1 => QLe(HsOf[i - 1], HsOf[i])
\* below height 1 a cluster stays inside a component of the line graph; when the minimum distance reaches 1 the
\* clusters ARE the components; a merge at height 1 only joins whole components
ComponentsAtOne == Running =>
   LET LC    == HLLineComps(ed)
       below == \A i \in DOMAIN HsOf : QLt(HsOf[i], QOne)
       T     == HLTable(Linkage, ms.m.P)
       apart == \A pr \in DOMAIN T : QEq(T[pr], QOne)          \* no two clusters hold adjacent hyperedges
   IN /\ below => HLRefines(ms.m.P, LC)
      /\ (below /\ apart) <=> (ms.m.P = LC)
      /\ ~below => HLRefines(LC, ms.m.P)
      /\ apart <=> (\A A, B \in ms.m.P : A # B => \A a \in A, b \in B : ~HLAdjacent(a, b))
\* the root: below 1 exactly when the line graph is connected, exactly 1 otherwise
RootHeight == (Finished /\ Cardinality(ed) >= 2) =>
   LET root == HsOf[Len(HsOf)] IN
   IF Cardinality(HLLineComps(ed)) = 1 THEN QLt(root, QOne) ELSE QEq(root, QOne)
\* cuts of a finished run: "joined at height <= h" is an equivalence whose classes are the prefix partition; nested
CutsWellDefined == Finished =>
   /\ \A h \in Grid :
        LET C == HLCutOfRun(ms.m, h) IN
        /\ HLIsPartition(C, ed)
        /\ \A a, b \in ed : a # b =>
             ((\E c \in C : a \in c /\ b \in c) <=> QLe(HsOf[HLFirstJoin(ms.m, a, b)], h))
   /\ \A h1, h2 \in Grid : QLe(h1, h2) => HLRefines(HLCutOfRun(ms.m, h1), HLCutOfRun(ms.m, h2))
   /\ HLCutOfRun(ms.m, QZero) = M0
   /\ HLCutOfRun(ms.m, QOne) = {ed}
\* the operators the validator uses agree with the machine: every cut of every run is accepted by HLReachAt,
\* and where no tie is met up to h the cut is the same in every run (uniqueness)
CutsReachable == Finished => \A h \in Grid :
   /\ HLReachAt(Linkage, M0, h, HLCutOfRun(ms.m, h))
   /\ HLNoTieUpTo(Linkage, M0, h) => HLCutOfRun(ms.m, h) = HLCutDet(Linkage, M0, h)
   /\ ~ms.m.tie => HLNoTieUpTo(Linkage, M0, h)
\* probes that must be violated (non-vacuity)
NeverTie        == Running => ~ms.m.tie
CutAlwaysUnique == Finished => \A h \in Grid : HLCutOfRun(ms.m, h) = HLCutDet(Linkage, M0, h)
StopsAtComponents == Finished => \A i \in DOMAIN HsOf : QLt(HsOf[i], QOne)

---------------------------------------------------------------------------
(* the greedy matching machine *)
PFinal == Part = "perm" /\ PMFinal(pm.g, PK)
PMProgress == (Part = "perm" /\ ~PMFinal(pm.g, PK)) => PMSucc(pm.M, PK, pm.g) # {}
PMShape == Part = "perm" =>
   /\ Cardinality(pm.g.R) = Cardinality(pm.g.C) /\ Cardinality(pm.g.picks) = Cardinality(pm.g.R)
   /\ \A i \in DOMAIN pm.g.vals : pm.g.vals[i] > 0 /\ (i > 1 => pm.g.vals[i] <= pm.g.vals[i - 1])
   /\ (Len(pm.g.vals) >= 1 => pm.g.vals[1] = HLMaxOf({pm.M[r][c] : r \in 1..PK, c \in 1..PK}))
PMOutcome == PFinal =>
   /\ PMIsPermutation(pm.g.picks, PK)
   /\ pm.g.picks \in PMAllPerms(PK)
   /\ PMReach(pm.M, PK, {}, {}, pm.g.picks)
   /\ PMDistinctPositive(pm.M, PK) => PMLexMax(pm.M, PK, pm.g.picks)
   /\ 2 * PMTotal(pm.M, pm.g.picks) >= PMBest(pm.M, PK)
\* must be violated: the greedy choice is not the assignment of largest total overlap
PMGreedyIsOptimal == PFinal => PMTotal(pm.M, pm.g.picks) = PMBest(pm.M, PK)
\* must be violated: with ties the chosen entries are not always lexicographically largest
PMAlwaysLexMax == PFinal => PMLexMax(pm.M, PK, pm.g.picks)

---------------------------------------------------------------------------
(* laws of the definitions (Part = "laws": one state) *)
TFGrid == {<<j, TFD>> : j \in 0..(TFD - 1)}
TFLaws == Part = "laws" => \A N \in TFN : \A a, b \in TFGrid :
   LET fb == TFFloor(N, b) IN
   /\ 0 <= fb /\ fb < N
   /\ \A i \in 1..N : /\ TFValue(i, N, a, b)[2] > 0
                      /\ QLe(QZero, TFValue(i, N, a, b)) /\ QLe(TFValue(i, N, a, b), QOne)
                      /\ (i > 1 => QLe(TFValue(i - 1, N, a, b), TFValue(i, N, a, b)))
   /\ QEq(TFValue(N, N, a, b), QOne)
   /\ fb >= 1 => QEq(TFValue(fb, N, a, b), <<a[2] - a[1], 2 * a[2]>>)
Mats(r, c) == [1..r -> [1..c -> 0..2]]
NormLaws == Part = "laws" => \A u \in Mats(2, 2) \cup Mats(2, 3) : \A axis \in {0, 1} :
   LET out == NormOf(u, axis) IN
   /\ \A i \in 1..MRows(u) : \A j \in 1..MCols(u) :
        /\ out[i][j][2] > 0 /\ NormCellOK(u, axis, out, i, j)
        /\ LET s == LineSum(u, axis, i, j) IN
           s # 0 => (IF axis = 1 THEN (LET F(c) == out[i][c][1] IN SumSet(F, 1..MCols(u)))
                     ELSE (LET G(r) == out[r][j][1] IN SumSet(G, 1..MRows(u)))) = out[i][j][2]
JaccardLawsX == Part = "laws" => \A a, b \in (SUBSET Node) \ {{}} :
   /\ HLD0(a, b) * Cardinality(a \cup b) = HLScale * (Cardinality(a \cup b) - Cardinality(a \cap b))     \* exact division
   /\ QEq(<<HLD0(a, b), HLScale>>, JacD(a, b))
   /\ (a # b) <=> (HLD0(a, b) > 0)
   /\ (a \cap b = {}) <=> (HLD0(a, b) = HLScale)                \* "1.0 for non-adjacent pairs" is the Jaccard distance
   /\ HLD0(a, b) = HLD0(b, a)
=============================================================================
