---------------------------- MODULE MC_EMDriver ----------------------------
(***************************************************************************)
(* C15/C17 on the design: exhaustive exploration of the EM monitor machine *)
(* with every objective value in 0..MaxObj.  Mut = 0 is the machine of     *)
(* EMDriver; Mut = 1 ("the last realisation wins") and Mut = 2 ("ties go   *)
(* to the later realisation") are must-fail variants (non-vacuity of the   *)
(* bookkeeping invariants).                                                *)
(***************************************************************************)
EXTENDS EMDriver, TLC
CONSTANTS NReal, MaxIter, Every, MaxObj, Mut
VARIABLES st, first          \* first: objective recorded first in the current realisation
cfg == [nReal |-> NReal, maxIter |-> MaxIter, every |-> Every, ascent |-> TRUE,
        fixedU |-> FALSE, fixedW |-> FALSE, assortative |-> FALSE]

EndRealM(S) ==
  IF Mut = 1 THEN [EndReal(S) EXCEPT !.best = S.curx, !.bestR = S.r]
  ELSE IF Mut = 2 THEN LET b == S.bestR = -1 \/ S.curx >= S.best
                       IN [EndReal(S) EXCEPT !.best = IF b THEN S.curx ELSE S.best, !.bestR = IF b THEN S.r ELSE S.bestR]
  ELSE EndReal(S)

Init == st = Init0 /\ first = 0
Next == \/ StartOK(cfg, st, st.nreal) /\ st' = StartReal(st, st.nreal) /\ UNCHANGED first
        \/ \E obj \in 0..MaxObj :
             /\ StepOK(cfg, st, st.r, StepsDue(cfg, st))
             /\ Ascent(cfg, st, obj)
             /\ st' = EMStep(st, StepsDue(cfg, st), obj, obj, obj)
             /\ first' = IF st.it = 0 THEN obj ELSE first
        \/ ConvergeOK(st) /\ st' = Converge(st) /\ UNCHANGED first
        \/ EndOK(cfg, st) /\ st' = EndRealM(st) /\ UNCHANGED first
        \/ ReturnOK(cfg, st) /\ st' = Return(st) /\ UNCHANGED first

BestIsMax      == BestIsMaxOfFinals(st)
BestIsEarliest == BestIsEarliestMax(st)
Counts         == CountsConsistent(st)
NeverBelowFirst == (st.phase \in {"run", "conv"} /\ st.it > 0) => st.cur >= first
IterationBound == st.it <= MaxIter /\ st.nreal <= NReal
\* a run can always be completed: from "done" nothing moves, every other state has a successor
NoStuck == st.phase # "done" => ENABLED Next
=============================================================================
