---------------------------- MODULE MC_Matrices ----------------------------
(* C09 on the design: algebraic relations between the matrix definitions in   *)
(* every reachable state of the bounded container ("hg"; "temp" for the       *)
(* snapshot relation).                                                        *)
EXTENDS MC_HGX, Matrices
Orders == 0..Cardinality(Node)

\* (B B^T)[n, m] and (B^T B)[k, l] written out as sums of products of incidence entries
BBt(K, n, m) == LET F(k) == Inc(k, n) * Inc(k, m) IN SumSet(F, K)
BtB(k, l)    == LET F(n) == Inc(k, n) * Inc(l, n) IN SumSet(F, st.nodes)

IncidenceRowsAndColumns ==
   /\ \A k \in Keys(st) : LET C(n) == Inc(k, n) IN SumSet(C, st.nodes) = KSize(k)
   /\ \A n \in st.nodes : LET R(k) == Inc(k, n) IN SumSet(R, Keys(st)) = Degree(st, n, NoF)
   /\ \A k \in Keys(st), n \in st.nodes : WInc(st, k, n) = Inc(k, n) * st.E[k].w
AdjSymmetricZeroDiag == \A n, m \in st.nodes :
   /\ Adj(st, n, m) = Adj(st, m, n) /\ Adj(st, n, n) = 0
   /\ \A d \in Orders : AdjD(st, d, n, m) = AdjD(st, d, m, n) /\ AdjD(st, d, n, n) = 0
\* off the diagonal the adjacency is B B^T; the diagonal of B B^T is the degree (which the code clears)
AdjIsBBt == \A n, m \in st.nodes :
   /\ n # m => Adj(st, n, m) = BBt(Keys(st), n, m)
   /\ BBt(Keys(st), n, n) = Degree(st, n, NoF)
AdjIsSumOfOrders == \A n, m \in st.nodes :
   LET A(d) == AdjD(st, d, n, m) IN Adj(st, n, m) = SumSet(A, Orders)
DualIsBtB == \A k, l \in Keys(st) :
   /\ Dual(k, l) = (IF BtB(k, l) > 0 THEN 1 ELSE 0)
   /\ Dual(k, l) = Dual(l, k) /\ Dual(k, k) = 1
DegDIsFilteredDegree == \A d \in Orders, n \in st.nodes : DegD(st, d, n) = Degree(st, n, <<"eq", d + 1>>)
LapSymmetricZeroRowSum == \A d \in Orders, n \in st.nodes :
   /\ LET R(m) == LapD(st, d, n, m) IN SumSet(R, st.nodes) = 0
   /\ \A m \in st.nodes : LapD(st, d, n, m) = LapD(st, d, m, n)
\* the incidence form used by the implementation: (d + 1) D_d - I_d I_d^T
LapIsIncidenceForm == \A d \in Orders, n, m \in st.nodes :
   LapD(st, d, n, m) = (IF n = m THEN (d + 1) * DegD(st, d, n) ELSE 0) - BBt(OfOrder(st, d), n, m)
Fact(n) == IF n <= 1 THEN 1 ELSE IF n = 2 THEN 2 ELSE IF n = 3 THEN 6 ELSE IF n = 4 THEN 24 ELSE 120
TensorSymmetric == (IsUniform(st) /\ Keys(st) # {}) =>
   /\ \A p \in Tensor(st) : \A q \in [DOMAIN p -> Rng(p)] : Injective(q) => q \in Tensor(st)
   /\ Cardinality(Tensor(st)) = Cardinality(Keys(st)) * Fact(TensorRank(st))
TempAdjIsSnapshotAdj == Kind = "temp" => \A tm \in XS :
   /\ \A n, m \in st.nodes : TempAdj(st, tm, n, m) = Adj(Snapshot(st, tm), n, m)
   /\ Keys(Snapshot(st, tm)) = {Key(k.s, {}, 0) : k \in KeysAt(st, tm)}
   /\ tm \notin Times(st) => \A n, m \in st.nodes : TempAdj(st, tm, n, m) = 0
=============================================================================
