---------------------------- MODULE MC_ChainsV ----------------------------
(***************************************************************************)
(* X04 on the design, exhaustively, for every outcome of every random      *)
(* choice.                                                                 *)
(*                                                                         *)
(* Model = "cmv": vertex_labeled_mh as the code runs it.  Every input with *)
(* 2..MaxEdges hyperedges over Node, every (detailed, size) variant.       *)
(* State: the Counter c, the lists add / remove of the running epoch (as   *)
(* bags), num_clash.  Proposals are drawn from the bag as it was when the  *)
(* epoch started (c is only updated at the end of an epoch) with the stale *)
(* multiplicities; a proposal is rejected by the Metropolis test (nothing  *)
(* changes: a stuttering step), discarded by the clash test (the epoch     *)
(* ends) or collected.  Any number of epochs, then Emit.                   *)
(* The sequential chain of ChainsV.tla (VAcceptSucc) is checked to be what *)
(* the epochs compute: every collected proposal is an accepted step of the *)
(* sequential chain from Virtual = c - remove + add  (Assert in Collect).  *)
(* NClash = 2 and the Mutants must be REJECTED by TLC (non-vacuity).       *)
(*                                                                         *)
(* Model = "hoad": HOADmodel over HN nodes, HTime steps, the orders of     *)
(* HOrders, every activity vector over {0, 1/HD .. 1}, every variate       *)
(* u in {0, 1/HD .. (HD-1)/HD}, every draw of neighbours.  Hist = TRUE     *)
(* keeps the draws and checks that the validator's relation HOADDriven     *)
(* accepts every behaviour of the model.                                   *)
(***************************************************************************)
EXTENDS ChainsV
CONSTANTS Model, Node, MaxEdges, NClash, Mutant, HN, HTime, HOrders, HD, Hist
VARIABLES inp, det, sz, c, add, rem, nclash, phase, out,      \* cmv
          hacts, hpos, hlinks, hcoll, hhist                   \* hoad
cvars == <<inp, det, sz, c, add, rem, nclash, phase, out>>
hvars == <<hacts, hpos, hlinks, hcoll, hhist>>
vars  == <<cvars, hvars>>

Edges == (SUBSET Node) \ {{}}
Sizes == 1..Cardinality(Node)
RECURSIVE SeqOf(_)
SeqOf(S) == IF S = {} THEN <<>> ELSE LET x == CHOOSE y \in S : TRUE IN <<x>> \o SeqOf(S \ {x})
RECURSIVE KSubsets(_, _)
KSubsets(S, k) ==
  IF k = 0 THEN {{}} ELSE IF S = {} THEN {}
  ELSE LET x == CHOOSE y \in S : TRUE
       IN KSubsets(S \ {x}, k) \cup {A \cup {x} : A \in KSubsets(S \ {x}, k - 1)}
Inputs(S) == UNION {KSubsets(S, k) : k \in 2..MaxEdges}

---------------------------------------------------------------------------
(* Model = "cmv" *)
Sel == Selected(inp, sz)
Virtual == BPlus(BMinus(c, rem), add)
Boundary == add = EmptyBag /\ rem = EmptyBag

CInit ==
  /\ Model = "cmv"
  /\ inp \in Inputs(Edges) /\ det \in BOOLEAN /\ sz \in {0} \cup {Cardinality(e) : e \in inp}
  /\ c = (IF Mutant = "ids_as_multiplicities" THEN IdsBag(SeqOf(Selected(inp, sz))) ELSE BOf(Selected(inp, sz)))
  /\ add = EmptyBag /\ rem = EmptyBag /\ nclash = 0 /\ phase = "chain" /\ out = {}
  /\ hacts = <<>> /\ hpos = 0 /\ hlinks = {} /\ hcoll = 0 /\ hhist = <<>>

Outcomes(f1, f2) ==
  CASE Mutant = "drop_node" ->
         UNION {{<<o[1], o[2] \ {n}>> : n \in o[2] \ (f1 \cap f2)} : o \in ReshuffleOutcomes(f1, f2)}
    [] OTHER -> ReshuffleOutcomes(f1, f2)
Pairs ==
  CASE Mutant = "ignore_detailed" -> VPairs(c, FALSE)
    [] OTHER -> VPairs(c, det)

EndEpoch(a, r) == c' = BPlus(BMinus(c, r), a) /\ add' = EmptyBag /\ rem' = EmptyBag /\ nclash' = 0

Reject(p)  == MayReject(c, p[1], p[2]) /\ UNCHANGED vars
Accept(p, o) ==
  LET k == nclash + BCount(rem, p[1]) + BCount(rem, p[2]) IN
  IF NClash >= 1 /\ k >= NClash
  THEN \* discarded: the epoch ends, what was collected is applied
       /\ EndEpoch(add, rem)
       /\ Assert(c' = Virtual, "a discarded proposal changed the bag")
  ELSE LET a2 == BPlus(add, BPair(o[1], o[2]))
           r2 == BPlus(rem, BPair(p[1], p[2]))
       IN /\ IF Mutant # "none" \/ NClash >= 2 THEN TRUE
             ELSE Assert(BPlus(BMinus(c, r2), a2) \in VAcceptSucc(Virtual, det),
                         "a collected proposal is not an accepted step of the sequential chain")
          /\ IF NClash = 0 THEN EndEpoch(a2, r2)
             ELSE add' = a2 /\ rem' = r2 /\ nclash' = k /\ c' = c
Proposal ==
  /\ Model = "cmv" /\ phase = "chain"
  /\ \E p \in Pairs : \/ Reject(p)
                      \/ /\ \E o \in Outcomes(p[1], p[2]) : Accept(p, o)
                         /\ UNCHANGED <<inp, det, sz, phase, out, hvars>>
Emit ==
  /\ Model = "cmv" /\ phase = "chain" /\ Boundary
  /\ phase' = "emitted"
  /\ out' = VEmit(c, IF Mutant = "forget_untouched" THEN {} ELSE Untouched(inp, sz))
  /\ UNCHANGED <<inp, det, sz, c, add, rem, nclash, hvars>>

(* X04-b on the bag that the collected proposals amount to *)
EntriesAreHyperedges == \A e \in DOMAIN Virtual \cup DOMAIN c : e # {} /\ e \subseteq Node
CountsPositive       == (\A e \in DOMAIN Virtual : Virtual[e] >= 1) /\ (\A e \in DOMAIN c : c[e] >= 1)
DegConserved         == \A n \in Node : BDeg(Virtual, n) = SetDeg(Sel, n)
DegPerSizeConserved  == det => \A n \in Node, z \in Sizes : BDegZ(Virtual, n, z) = SetDegZ(Sel, n, z)
SizeBagConserved     == BSizes(Virtual) = SetSizes(Sel)
EntryCountConserved  == BTotal(Virtual) = Cardinality(Sel)
\* the same at the epoch boundaries, on the Counter itself
CounterConserved     == Boundary => /\ \A n \in Node : BDeg(c, n) = SetDeg(Sel, n)
                                     /\ BSizes(c) = SetSizes(Sel)
\* X04-d: what one epoch collects concerns pairwise different hyperedges
EpochRemovesEachValueOnce == NClash <= 1 => \A e \in DOMAIN rem : rem[e] = 1 /\ e \in BSupport(c)
\* a state constraint for the quick negative control of NClash = 2 (one input on which the breakage shows)
ClashWitnessInput == inp = {{1}, {2}, {3, 4}} /\ ~det /\ sz = 0
\* negative controls (must FAIL): without `detailed` per-size degrees move; the chain does create parallel hyperedges
DegPerSizeConservedEvenIfNotDetailed == \A n \in Node, z \in Sizes : BDegZ(Virtual, n, z) = SetDegZ(Sel, n, z)
NeverParallel == \A e \in DOMAIN Virtual : Virtual[e] <= 1

(* X04-c on the result *)
Emitted == phase = "emitted"
EmitNoIncrease ==
  Emitted => \A n \in Node : /\ SetDeg(out, n) <= SetDeg(inp, n)
                             /\ det => \A z \in Sizes : SetDegZ(out, n, z) <= SetDegZ(inp, n, z)
EmitExactWhenCountKept ==
  (Emitted /\ Cardinality(out) = Cardinality(inp)) =>
      /\ \A n \in Node : SetDeg(out, n) = SetDeg(inp, n)
      /\ det => \A n \in Node, z \in Sizes : SetDegZ(out, n, z) = SetDegZ(inp, n, z)
      /\ SetSizes(out) = SetSizes(inp)
CountKeptIffNoParallel ==
  Emitted => (Cardinality(out) = Cardinality(inp) <=> \A e \in DOMAIN c : c[e] = 1)
UntouchedIntact ==
  (Emitted /\ sz # 0) => {e \in out : Cardinality(e) # sz} = {e \in inp : Cardinality(e) # sz}
EmitSatisfiesCMPost ==
  Emitted => Holds(CMPost(AsHG(inp), AsHG(out), [detailed |-> det, size |-> sz]))

(* X04-e / X04-f, evaluated once per input (ASSUME-like, as an invariant of the initial states only) *)
AllBags(m) ==      \* all bags of m hyperedges
  LET RECURSIVE Build(_)
      Build(k) == IF k = 0 THEN {EmptyBag} ELSE {BPlus(B, BOf({e})) : B \in Build(k - 1), e \in Edges}
  IN Build(m)
SameMarginals(M, H, d) ==
  /\ \A n \in Node : BDeg(M, n) = SetDeg(H, n)
  /\ BSizes(M) = SetSizes(H)
  /\ d => \A n \in Node, z \in Sizes : BDegZ(M, n, z) = SetDegZ(H, n, z)
Fresh == phase = "chain" /\ Boundary /\ c = BOf(Sel)
Irreducible ==
  (Fresh /\ sz = 0 /\ VPairs(c, det) # {}) =>
      VReach(c, det) = {M \in AllBags(Cardinality(inp)) : SameMarginals(M, inp, det)}
EpochsAreChainRuns ==
  (Fresh /\ sz = 0) => /\ EpochOutcomes(c, det, 0) \subseteq VReach(c, det)
                       /\ EpochOutcomes(c, det, 1) \subseteq VReach(c, det)
                       /\ EpochOutcomes(c, det, 0) \subseteq EpochOutcomes(c, det, 1)
                       /\ \A M \in VAcceptSucc(c, det) : VStep(c, det, M)

---------------------------------------------------------------------------
(* Model = "hoad" *)
HOrderSeq == SeqOf(HOrders)
HTotal == Len(HOrderSeq) * HTime * HN
HInit ==
  /\ Model = "hoad"
  /\ hacts \in {[j \in DOMAIN HOrderSeq |-> [order |-> HOrderSeq[j], a |-> v[j]]]
                  : v \in [DOMAIN HOrderSeq -> [1..HN -> 0..HD]]}
  /\ hpos = 1 /\ hlinks = {} /\ hcoll = 0 /\ hhist = <<>>
  /\ inp = {} /\ det = FALSE /\ sz = 0 /\ c = EmptyBag /\ add = EmptyBag /\ rem = EmptyBag
  /\ nclash = 0 /\ phase = "hoad" /\ out = {}

HOi(k) == ((k - 1) \div (HTime * HN)) + 1
HT(k)  == ((k - 1) \div HN) % HTime
HI(k)  == ((k - 1) % HN) + 1
HStep ==
  /\ Model = "hoad" /\ hpos <= HTotal
  /\ \E u \in 0..(HD - 1) :
       LET o == hacts[HOi(hpos)].order   i == HI(hpos)   t == HT(hpos)
           act == hacts[HOi(hpos)].a[i]
           active == IF Mutant = "geq" THEN act >= u ELSE act > u
       IN IF active
          THEN \E s \in KSubsets(1..HN, o) :
                 LET collide == i \in s /\ Mutant # "keep_collision" IN
                 /\ hlinks' = IF collide THEN hlinks ELSE hlinks \cup {[o |-> o, t |-> t, e |-> s \cup {i}, by |-> i]}
                 /\ hcoll' = IF collide THEN hcoll + 1 ELSE hcoll
                 /\ hhist' = IF Hist THEN Append(hhist, [u |-> u, has |-> TRUE, s |-> SeqOf(s), pop |-> HN]) ELSE hhist
          ELSE /\ UNCHANGED <<hlinks, hcoll>>
               /\ hhist' = IF Hist THEN Append(hhist, [u |-> u, has |-> FALSE, s |-> <<>>, pop |-> HN]) ELSE hhist
  /\ hpos' = hpos + 1
  /\ UNCHANGED <<hacts, cvars>>

HDone == Model = "hoad" /\ hpos = HTotal + 1
HQ == AsTemp({Key(l.e, {}, l.t) : l \in hlinks})
\* X04-g, X04-h
HLinksWellFormed ==
  \A l \in hlinks : /\ Cardinality(l.e) = l.o + 1 /\ l.o \in HOrders /\ l.e \subseteq 1..HN
                    /\ l.t \in 0..(HTime - 1) /\ l.by \in l.e
                    /\ hacts[ActOf(hacts, l.o)].a[l.by] > 0
HAllZeroNothing == AllZero(hacts) => hlinks = {}
HAllOneOnePerActivation ==
  (HDone /\ AllOne(hacts, HD)) => Cardinality({<<l.o, l.t, l.by>> : l \in hlinks}) + hcoll = HTotal
HOnePerActivation == \A l1, l2 \in hlinks : (l1.o = l2.o /\ l1.t = l2.t /\ l1.by = l2.by) => l1 = l2
HPostHolds   == HDone => Holds(HOADPost(HN, hacts, HTime, HQ))
HDrivenHolds == (HDone /\ Hist) => Holds(HOADDriven(HN, hacts, HTime, hhist, HQ))

---------------------------------------------------------------------------
Init == CInit \/ HInit
Next == Proposal \/ Emit \/ HStep
Spec == Init /\ [][Next]_vars
=============================================================================
