CONSTANTS
 Kind = "hg"
 Node = {1,2,3}
 MaxW = 2
 MKeys = {"a"}
 MVals = {"0","1"}
 XS = {0}
 Weighted = TRUE
 Batches = TRUE
 MetaOps = TRUE
 Depth = 8
 InvalidEvery = 4
INIT Init
NEXT Next
CONSTRAINT Bound
CONSTRAINT Emit
CHECK_DEADLOCK FALSE
