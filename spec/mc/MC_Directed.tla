---------------------------- MODULE MC_Directed ----------------------------
(* C12 on the design: relations between the directed measures in every reachable *)
(* state of the bounded directed container.                                      *)
EXTENDS MC_HGX, Directed
Bounds == 2..(Cardinality(Node) + 1)
RLe(a, b) == a[1] * b[2] <= b[1] * a[2]
ExactLeStrongLeWeak == \A mx \in Bounds : \A z \in 2..mx :
   /\ RLe(ExactRec(st, mx, z), StrongRec(st, mx, z))
   /\ RLe(StrongRec(st, mx, z), WeakRec(st, mx, z))
\* pointwise: an exactly reciprocated hyperedge is strongly reciprocated, a strongly one weakly
PointwiseImplication == \A mx \in Bounds : \A k \in Bounded(st, mx) :
   /\ IsExact(st, mx, k) => IsStrong(st, mx, k)
   /\ IsStrong(st, mx, k) => IsWeak(st, mx, k)
RatiosInUnitInterval == \A mx \in Bounds : \A z \in 2..mx :
   \A r \in {ExactRec(st, mx, z), StrongRec(st, mx, z), WeakRec(st, mx, z)} : 0 <= r[1] /\ r[1] <= r[2] /\ r[2] > 0
SignatureCellSum == \A mx \in Bounds :
   LET cells == (1..mx - 1) \X (1..mx - 1)   C(ab) == SigCell(st, mx, ab[1], ab[2])
   IN SumSet(C, cells) = Cardinality({k \in Keys(st) : KSize(k) <= mx})
InOutDegreeSum ==
   LET I(n) == InDeg(st, n, NoF)  O(n) == OutDeg(st, n, NoF)
       A(k) == Cardinality(k.s)   B(k) == Cardinality(k.t)
   IN SumSet(I, st.nodes) = SumSet(A, Keys(st)) /\ SumSet(O, st.nodes) = SumSet(B, Keys(st))
=============================================================================
