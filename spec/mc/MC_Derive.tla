---------------------------- MODULE MC_Derive ----------------------------
(* Design-level properties of the derived objects, checked in every reachable *)
(* state of the bounded container model (C03, C04, C05, C08, C19).            *)
EXTENDS MC_HGX, Derive

Sizes == 0..(Cardinality(Node) + 1)
WFSub(R) == /\ \A k \in DOMAIN R.E : KN(k) \subseteq R.nodes
            /\ DOMAIN R.nmd = R.nodes

(* C05 *)
SubIsRestriction == \A X \in SUBSET st.nodes :
   LET R == Induced(st, X) IN
   /\ R.nodes = X /\ WFSub(R) /\ R.wtd = st.wtd
   /\ \A k \in Keys(st) : (k \in DOMAIN R.E) <=> (KN(k) \subseteq X)
   /\ \A k \in DOMAIN R.E : R.E[k] = st.E[k]
   /\ \A n \in X : R.nmd[n] = st.nmd[n]
SelectionsWellFormed ==
   /\ \A f \in Filters, kp \in BOOLEAN : WFSub(EdgesAsSub(st, f, kp))
   /\ \A zs \in SUBSET Sizes, kp \in BOOLEAN : WFSub(BySizes(st, zs, kp))
BySizesPartition ==
   /\ UNION {DOMAIN BySizes(st, {z}, TRUE).E : z \in Sizes} = Keys(st)
   /\ \A y, z \in Sizes : y # z => DOMAIN BySizes(st, {y}, TRUE).E \cap DOMAIN BySizes(st, {z}, TRUE).E = {}
UpToMonotone == \A z \in Sizes : EdgesF(st, <<"upto", z>>) = UNION {EdgesF(st, <<"eq", y>>) : y \in 0..z}

(* C08 *)
ComponentsPartition == \A f \in Filters :
   LET C == Components(st, f) IN
   /\ UNION C = st.nodes
   /\ \A a, b \in C : a # b => a \cap b = {}
   /\ \A c \in C : c # {}
IsolatedIffSingleton == \A f \in Filters, n \in st.nodes :
   (n \in Isolated(st, f)) <=> (CompOf(st, n, f) = {n})
LargestIsComponent == \A f \in Filters : st.nodes # {} =>
   \A R \in LargestSubs(st, f) : R.nodes \in Components(st, f) /\ Cardinality(R.nodes) = LargestSize(st, f)

(* C03 *)
TotalW(E) == LET W(k) == E[k] IN SumSet(W, DOMAIN E)
WindowPartition == Kind = "temp" => \A width \in 1..4 :
   /\ \A k \in Keys(st) : \E i \in AggWindows(st, width) : i * width <= k.x /\ k.x < (i + 1) * width
   /\ st.wtd => LET T(i) == TotalW(AggE(st, width, i))  W(k) == st.E[k].w
                IN SumSet(T, AggWindows(st, width)) = SumSet(W, Keys(st))
   /\ Keys(st) # {} => MaxTime(st) \div width \in AggWindows(st, width)
SnapshotUnion == Kind = "temp" =>
   /\ UNION {{Key(hk.s, {}, tm) : hk \in DOMAIN SnapshotE(st, tm)} : tm \in Times(st)} = Keys(st)
   /\ \A tm \in Times(st) : \A hk \in DOMAIN SnapshotE(st, tm) : SnapshotE(st, tm)[hk] = st.E[Key(hk.s, {}, tm)].w
HalfOpen == Kind = "temp" => \A a, b, c \in 0..4 : (a <= b /\ b <= c) =>
   /\ Window(st, a, b) \cup Window(st, b, c) = Window(st, a, c)
   /\ Window(st, a, b) \cap Window(st, b, c) = {}

(* C04 *)
AggregatedIsSum == Kind = "mux" =>
   /\ DOMAIN MuxAggE(st) = {HgKey(k.s) : k \in Keys(st)}
   /\ st.wtd => LET W(k) == st.E[k].w IN TotalW(MuxAggE(st)) = SumSet(W, Keys(st))
   /\ ~st.wtd => \A hk \in DOMAIN MuxAggE(st) : MuxAggE(st)[hk] = 1

(* C19 *)
Crits == {c \in UNION {[D -> SUBSET MVals] : D \in SUBSET MKeys} : \A a \in DOMAIN c : c[a] # {}}
KeepRemoveDual == \A c \in Crits :
   LET K == FilterSucc(st, TRUE, c, FALSE, <<>>, "keep", FALSE)
       R == FilterSucc(st, TRUE, c, FALSE, <<>>, "remove", FALSE)
   IN \A a \in K, b \in R : a.nodes \cup b.nodes = st.nodes /\ a.nodes \cap b.nodes = {}
FilterSound == \A c \in Crits, d \in Crits, mode \in {"keep", "remove"}, kp \in (IF Kind = "dir" THEN {FALSE} ELSE BOOLEAN) :
   \A T \in FilterSucc(st, TRUE, c, TRUE, d, mode, kp) :
     /\ \A k \in Keys(T) : KN(k) \subseteq T.nodes
     /\ \A n \in T.nodes : T.nmd[n] = st.nmd[n] /\ (Matches(st.nmd[n], c) <=> mode = "keep")
     /\ \A k \in Keys(T) : Matches(T.E[k].md, d) <=> mode = "keep"
     /\ ~kp => \A k \in Keys(T) : k \in Keys(st) /\ T.E[k] = st.E[k]
     /\ T.nodes = {n \in st.nodes : Matches(st.nmd[n], c) <=> mode = "keep"}
=============================================================================
