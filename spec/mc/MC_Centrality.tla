---------------------------- MODULE MC_Centrality ----------------------------
(* C20 on the design: every plain hypergraph over Node with at most MaxEdges  *)
(* hyperedges of sizes ZMin..ZMax (reached by inserting hyperedges one at a   *)
(* time).  Exact rationals throughout.                                        *)
EXTENDS Centrality
CONSTANTS Node, ZMin, ZMax, MaxEdges
VARIABLE es
EdgeU == {e \in SUBSET Node : ZMin <= Cardinality(e) /\ Cardinality(e) <= ZMax}
Init == es = {}
Next == Cardinality(es) < MaxEdges /\ \E e \in EdgeU \ es : es' = es \cup {e}
H == [nodes |-> Node, edges |-> es]
SS == 1..3

InUnit(q) == RLeq(RZero, q) /\ RLeq(q, ROne) /\ q[2] > 0
OneValuePerEdge == \A s \in SS :
   LET b == SBetweenness(H, s) c == SCloseness(H, s) IN
   /\ DOMAIN b = es /\ \A e \in es : InUnit(b[e])
   /\ DOMAIN c = es /\ \A e \in es : InUnit(c[e])
OneValuePerNode ==
   LET b == NodeBetweenness(H) c == NodeCloseness(H) IN
   /\ DOMAIN b = Node /\ \A n \in Node : InUnit(b[n])
   /\ DOMAIN c = Node /\ \A n \in Node : InUnit(c[n])

\* relabelling: the two generators of the symmetric group on Node (a transposition and the
\* full cycle); the universe is closed under relabelling, so equivariance under both, for every
\* hypergraph, is equivariance under every permutation
MaxNode == CHOOSE n \in Node : \A m \in Node : m <= n
Swap  == [n \in Node |-> IF n = 1 THEN 2 ELSE IF n = 2 THEN 1 ELSE n]
Cycle == [n \in Node |-> IF n = MaxNode THEN 1 ELSE n + 1]
Img(f, e) == {f[n] : n \in e}
Relabel(f, G) == [nodes |-> Img(f, G.nodes), edges |-> {Img(f, e) : e \in G.edges}]
EquivariantUnder(f) ==
   LET G == Relabel(f, H) IN
   /\ \A s \in SS : LET b == SBetweenness(H, s) b2 == SBetweenness(G, s)
                        c == SCloseness(H, s)   c2 == SCloseness(G, s)
                    IN \A e \in es : b2[Img(f, e)] = b[e] /\ c2[Img(f, e)] = c[e]
   /\ LET b == NodeBetweenness(H) b2 == NodeBetweenness(G) c == NodeCloseness(H) c2 == NodeCloseness(G)
      IN \A n \in Node : b2[f[n]] = b[n] /\ c2[f[n]] = c[n]
   /\ \A i, j \in Node : CoMember(G, f[i], f[j]) = CoMember(H, i, j)
RelabellingEquivariance == EquivariantUnder(Swap) /\ EquivariantUnder(Cycle)

\* the betweenness operator against the path-length identity: summed over the vertices, the
\* un-normalised betweenness counts the interior vertices of shortest paths, i.e. the sum over
\* connected ordered pairs of (distance - 1)
BetweennessSumIdentityOn(V, N) ==
   LET n == Cardinality(V)
       b == GBetweenness(V, N)
       B(v) == b[v]
       Dm(a) == LET d == GDist(N, a) F(u) == IF u = a THEN 0 ELSE d[u] - 1 IN SumSet(F, DOMAIN d)
   IN n > 2 => RSame(RSumSet(B, V), <<SumSet(Dm, V), (n - 1) * (n - 2)>>)
\* closeness of a vertex of a connected graph is (n - 1) / (sum of its distances)
ClosenessConnectedOn(V, N) ==
   LET c == GCloseness(V, N) IN
   \A v \in V : LET d == GDist(N, v) D(u) == d[u] IN
      (DOMAIN d = V /\ Cardinality(V) > 1) => RSame(c[v], <<Cardinality(V) - 1, SumSet(D, V)>>)
GraphIdentities ==
   /\ \A s \in SS : BetweennessSumIdentityOn(es, LineN(H, s)) /\ ClosenessConnectedOn(es, LineN(H, s))
   /\ BetweennessSumIdentityOn(BipV(H), BipN(H)) /\ ClosenessConnectedOn(BipV(H), BipN(H))
ProjectionsSymmetric ==
   /\ \A s \in SS : \A e, f \in es : (f \in LineN(H, s)[e]) <=> (e \in LineN(H, s)[f])
   /\ \A e \in es : \A s \in SS : e \notin LineN(H, s)[e] /\ LineN(H, s + 1)[e] \subseteq LineN(H, s)[e]
   /\ \A v, w \in BipV(H) : (w \in BipN(H)[v]) <=> (v \in BipN(H)[w])
   /\ \A n \in Node, e \in es : (EdgeV(e) \in BipN(H)[NodeV(n)]) <=> (n \in e)

\* temporal averages: the same hyperedges at two times average to the static value; a second
\* snapshot holding one foreign hyperedge halves every value (absent = 0)
MkTemp(ps) == [nodes |-> Node, E |-> [k \in {Key(p[1], {}, p[2]) : p \in ps} |-> [w |-> 1, md |-> NoMeta]],
               nmd |-> [n \in Node |-> NoMeta], hmd |-> NoMeta, wtd |-> FALSE]
AveragedIsMeanOverSnapshots == es # {} =>
   LET S2 == MkTemp({<<e, 0>> : e \in es} \cup {<<e, 1>> : e \in es})
       other == CHOOSE e \in EdgeU : TRUE
       S3 == MkTemp({<<e, 0>> : e \in es} \cup {<<other, 5>>})
       H0 == [nodes |-> UNION es, edges |-> es]
   IN /\ \A s \in SS : LET ab == AvgSBetweenness(S2, s) ac == AvgSCloseness(S2, s) ac3 == AvgSCloseness(S3, s)
                         b == SBetweenness(H, s) c == SCloseness(H, s)
                     IN /\ \A e \in es : ab[e] = b[e] /\ ac[e] = c[e]
                        /\ \A e \in es \ {other} : ac3[e] = RMul(c[e], <<1, 2>>)
      /\ LET an == AvgNodeBetweenness(S2, FALSE) nb == NodeBetweenness(H0) IN \A n \in UNION es : an[n] = nb[n]
      /\ LET an == AvgNodeCloseness(S2, TRUE) nc == NodeCloseness(H) IN \A n \in Node : an[n] = nc[n]
      /\ DOMAIN AvgSBetweenness(S3, 1) = es \cup {other}
      /\ DOMAIN AvgNodeBetweenness(S3, FALSE) = (UNION es) \cup other
=============================================================================
