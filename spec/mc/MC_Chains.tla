---------------------------- MODULE MC_Chains ----------------------------
(***************************************************************************)
(* C13 on the design: every input with 2..MaxEdges hyperedges over Node,   *)
(* every argument variant (detailed, size), every outcome of the random    *)
(* choices of every step.  MaxSteps = 0 explores the chain without a bound *)
(* on n_steps (the chain space of an input is finite), MaxSteps > 0 stops  *)
(* after that many steps.  Emit may follow any number of steps.            *)
(* Kind = "hg": configuration_model;  Kind = "dir": directed model.        *)
(* Mutant # "none" breaks one line of the model; TLC must then report a    *)
(* violated invariant (non-vacuity of the invariants).                     *)
(***************************************************************************)
EXTENDS Chains
CONSTANTS Node, MaxEdges, MaxSteps, Mutant
VARIABLES inp, det, sz, c, phase, out, steps
vars == <<inp, det, sz, c, phase, out, steps>>

Edges   == (SUBSET Node) \ {{}}
DirKeys == {k \in [s : Edges, t : Edges, x : {0}] : k.s \cap k.t = {}}
Sizes   == 1..Cardinality(Node)
Unbounded == MaxSteps = 0

RECURSIVE SeqOf(_)
SeqOf(S) == IF S = {} THEN <<>> ELSE LET x == CHOOSE y \in S : TRUE IN <<x>> \o SeqOf(S \ {x})
\* all subsets of S with 2..MaxEdges elements (without enumerating SUBSET S)
RECURSIVE KSubsets(_, _)
KSubsets(S, k) ==
  IF k = 0 THEN {{}} ELSE IF S = {} THEN {}
  ELSE LET x == CHOOSE y \in S : TRUE
       IN KSubsets(S \ {x}, k) \cup {A \cup {x} : A \in KSubsets(S \ {x}, k - 1)}
Inputs(S) == UNION {KSubsets(S, k) : k \in 2..MaxEdges}
Perms(S) == {f \in [1..Cardinality(S) -> S] : \A a, b \in DOMAIN f : a # b => f[a] # f[b]}

(* --- the loop of the code computes exactly the relation (checked once, for all pairs) --- *)
ASSUME RelIsOutcomes ==
  \A f1, f2 \in Edges : \A g1, g2 \in SUBSET Node :
      ReshuffleRel(f1, f2, g1, g2) <=> <<g1, g2>> \in ReshuffleOutcomes(f1, f2)
ASSUME LoopRealisesRelation ==
  \A f1, f2 \in Edges : \A order \in Perms(Rest(f1, f2)) :
      LoopOutcomes(f1, f2, order) = ReshuffleOutcomes(f1, f2)
ASSUME SameHyperedgeIsNoOp == \A f \in Edges : ReshuffleOutcomes(f, f) = {<<f, f>>}

---------------------------------------------------------------------------
Sel == IF Kind = "hg" THEN Selected(inp, sz) ELSE inp

Init ==
  /\ phase = IF Kind = "hg" THEN "chain" ELSE "src"
  /\ out = {} /\ steps = 0
  /\ IF Kind = "hg"
     THEN /\ inp \in Inputs(Edges)
          /\ det \in BOOLEAN
          /\ sz \in {0} \cup {Cardinality(e) : e \in inp}
          /\ c = SeqOf(Selected(inp, sz))
     ELSE /\ inp \in Inputs(DirKeys)
          /\ det = TRUE /\ sz = 0
          /\ c = SeqOf({[s |-> k.s, t |-> k.t] : k \in inp})

MayStep == Unbounded \/ steps < MaxSteps
Count == steps' = IF Unbounded THEN 0 ELSE steps + 1

\* one mh_step: Propose + Reshuffle + Write
HgSucc ==
  CASE Mutant = "ignore_detailed" -> ChainSucc(c, FALSE)
    [] Mutant = "drop_node" ->      \* the second hyperedge loses one of the redistributed nodes
         UNION {UNION {{Write(c, p[1], p[2], o[1], o[2] \ {n}) : n \in o[2] \ (c[p[1]] \cap c[p[2]])}
                       : o \in ReshuffleOutcomes(c[p[1]], c[p[2]])}
                : p \in {q \in (DOMAIN c) \X (DOMAIN c) : Proposable(c, det, q[1], q[2])}}
    [] OTHER -> ChainSucc(c, det)
Reshuffle ==
  /\ Kind = "hg" /\ phase = "chain" /\ MayStep
  /\ c' \in HgSucc /\ Count
  /\ UNCHANGED <<inp, det, sz, phase, out>>
Emit ==
  /\ Kind = "hg" /\ phase = "chain"
  /\ phase' = "emitted"
  /\ out' = EmitEdges(c, IF Mutant = "forget_untouched" THEN {} ELSE Untouched(inp, sz))
  /\ UNCHANGED <<inp, det, sz, c, steps>>

\* directed: source swaps, then target swaps, then the result
DupSucc(role) ==      \* mutant: the refusal test is missing
  UNION {{SwapWrite(c, role, p[1], p[2], n[1], n[2]) : n \in Side(c[p[1]], role) \X Side(c[p[2]], role)}
         : p \in {q \in (DOMAIN c) \X (DOMAIN c) : q[1] # q[2]}}
Swap(role) ==
  /\ Kind = "dir" /\ phase = (IF role = "s" THEN "src" ELSE "tgt") /\ MayStep
  /\ c' \in (IF Mutant = "allow_duplicates" THEN DupSucc(role) ELSE SwapSucc(c, role)) /\ Count
  /\ UNCHANGED <<inp, det, sz, phase, out>>
ToTargets == Kind = "dir" /\ phase = "src" /\ phase' = "tgt" /\ UNCHANGED <<inp, det, sz, c, out, steps>>
EmitDir ==
  /\ Kind = "dir" /\ phase = "tgt" /\ phase' = "emitted"
  /\ out' = DirEmit(c)
  /\ UNCHANGED <<inp, det, sz, c, steps>>

Next == Reshuffle \/ Emit \/ Swap("s") \/ ToTargets \/ Swap("t") \/ EmitDir
Spec == Init /\ [][Next]_vars

---------------------------------------------------------------------------
(* invariants, undirected: the chain *)
EntriesAreHyperedges == \A i \in DOMAIN c : c[i] # {} /\ c[i] \subseteq Node
TotalDegConserved    == \A n \in Node : ChainDeg(c, n) = SetDeg(Sel, n)
DegPerSizeConserved  == det => \A n \in Node, z \in Sizes : ChainDegZ(c, n, z) = SetDegZ(Sel, n, z)
SizeBagConserved     == ChainSizes(c) = SetSizes(Sel)
\* must FAIL (run as a negative control): without `detailed` the per-size degrees are not conserved
DegPerSizeConservedEvenIfNotDetailed == \A n \in Node, z \in Sizes : ChainDegZ(c, n, z) = SetDegZ(Sel, n, z)

(* invariants, undirected: the result *)
Emitted == phase = "emitted"
EmitNoIncrease ==
  Emitted => \A n \in Node : /\ SetDeg(out, n) <= SetDeg(inp, n)
                             /\ det => \A z \in Sizes : SetDegZ(out, n, z) <= SetDegZ(inp, n, z)
EmitExactWhenCountKept ==
  (Emitted /\ Cardinality(out) = Cardinality(inp)) =>
      /\ \A n \in Node : SetDeg(out, n) = SetDeg(inp, n)
      /\ det => \A n \in Node, z \in Sizes : SetDegZ(out, n, z) = SetDegZ(inp, n, z)
      /\ SetSizes(out) = SetSizes(inp)
\* the converse holds as well: a lost hyperedge is the only way to lose degree
CountKeptIffNoCoincidence ==
  Emitted => (Cardinality(out) = Cardinality(inp) <=> Cardinality({c[i] : i \in DOMAIN c}) = Len(c))
UntouchedIntact ==
  (Emitted /\ sz # 0) => {e \in out : Cardinality(e) # sz} = {e \in inp : Cardinality(e) # sz}
EmitSatisfiesCMPost ==
  Emitted => Holds(CMPost(AsHG(inp), AsHG(out), [detailed |-> det, size |-> sz]))

(* invariants, directed *)
DirEntriesNonEmpty == \A i \in DOMAIN c : c[i].s # {} /\ c[i].t # {}
InDegConserved  == \A n \in Node : Cardinality({i \in DOMAIN c : n \in c[i].s}) = InDeg(AsDir(inp), n, NoF)
OutDegConserved == \A n \in Node : Cardinality({i \in DOMAIN c : n \in c[i].t}) = OutDeg(AsDir(inp), n, NoF)
ShapesConserved ==
  LET Sh(h) == <<Cardinality(h.s), Cardinality(h.t)>>
  IN [sh \in {Sh(c[i]) : i \in DOMAIN c} |-> Cardinality({i \in DOMAIN c : Sh(c[i]) = sh})] = ShapeBag(AsDir(inp))
DirEmitSatisfiesCMPostDir == Emitted => Holds(CMPostDir(AsDir(inp), AsDir(out)))
\* observation, not part of C13 (negative control, must FAIL): a swap can put a node on both sides of one hyperedge
SidesStayDisjoint == \A i \in DOMAIN c : c[i].s \cap c[i].t = {}
=============================================================================
