---------------------------- MODULE Gen_Hgr ----------------------------
(* Generation of syntactically valid hMETIS files (C06 readers).  The state  *)
(* is a file under construction plus what it is meant to list (truth); every *)
(* walk of Depth steps is printed as one JSON string.  BFS = all files with   *)
(* at most Depth additions, -simulate = random longer ones.                   *)
(* Design check on the way: parsing the rendered file gives back exactly the  *)
(* hyperedges that were listed, whatever comment / blank / node-weight lines  *)
(* surround them (ParseRecoversListed) and every file is valid and covered.   *)
EXTENDS Persist, Json
CONSTANTS NN,        \* number of nodes announced in the header
          Fmts,      \* subset of {2, 0, 1, 10, 11}; 2 stands for "no fmt token" (cfg files have no negative literals)
          MaxW, Depth,
          Balanced   \* simulation only: draw the kind of line first (hyperedge lines would crowd out the rest)
VARIABLES fmt, pre, body, post, truth, step
vars == <<fmt, pre, body, post, truth, step>>

Junk == {[k |-> "c", s |-> "% 1 2"], [k |-> "c", s |-> "%2 1 3"], [k |-> "b", s |-> ""], [k |-> "b", s |-> "  "]}
W == fmt % 10 = 1
NW == fmt \in {10, 11}
\* node tuples: sequences without repetition over 1..NN
RECURSIVE Tuples(_)
Tuples(n) == IF n = 0 THEN {<<>>}
             ELSE {Append(t, x) : t \in Tuples(n - 1), x \in 1..NN} \cup Tuples(n - 1)
NodeTuples == {t \in Tuples(NN) : Len(t) >= 1 /\ \A i, j \in DOMAIN t : i # j => t[i] # t[j]}

Init == /\ fmt \in Fmts /\ pre = <<>> /\ body = <<>> /\ post = <<>> /\ truth = <<>> /\ step = 0
AddPre  == body = <<>> /\ post = <<>> /\ \E j \in Junk : pre' = Append(pre, j) /\ UNCHANGED <<body, post, truth>>
AddJunk == post = <<>> /\ \E j \in Junk : body' = Append(body, j) /\ UNCHANGED <<pre, post, truth>>
AddEdge_ == /\ post = <<>>
            /\ \E t \in NodeTuples, w \in (IF W THEN 1..MaxW ELSE {1}) :
                 /\ W => \A i \in DOMAIN truth : truth[i].nodes # Rng(t)       \* weighted + repeated: not covered
                 /\ body' = Append(body, [k |-> "t", t |-> IF W THEN <<w>> \o t ELSE t])
                 /\ truth' = Append(truth, [nodes |-> Rng(t), w |-> w])
                 /\ UNCHANGED <<pre, post>>
NWLines(p) == Cardinality({i \in DOMAIN p : p[i].k = "t"})
AddPost == /\ NW
           /\ \/ \E j \in Junk : post' = Append(post, j)
              \/ NWLines(post) < NN /\ \E x \in 1..MaxW : post' = Append(post, [k |-> "t", t |-> <<x>>])
           /\ UNCHANGED <<pre, body, truth>>
Noop == UNCHANGED <<pre, body, post, truth>>
LineKinds == {"pre", "junk", "edge", "edge2", "edge3", "post"}
Next == /\ step < Depth /\ step' = step + 1 /\ UNCHANGED fmt
        /\ LET kd == IF Balanced THEN RandomElement(LineKinds) ELSE "any"
           IN \/ kd \in {"any", "pre"} /\ AddPre
              \/ kd \in {"any", "junk"} /\ AddJunk
              \/ kd \in {"any", "edge", "edge2", "edge3"} /\ AddEdge_
              \/ kd \in {"any", "post"} /\ AddPost
              \/ Noop

Header == [k |-> "t", t |-> IF fmt = 2 THEN <<Len(truth), NN>> ELSE <<Len(truth), NN, fmt>>]
\* the missing node-weight lines are appended so that the file is complete
Pad == IF NW THEN [i \in 1..(NN - NWLines(post)) |-> [k |-> "t", t |-> <<1>>]] ELSE <<>>
File == pre \o <<Header>> \o body \o post \o Pad

Truth == LET ks == {truth[i].nodes : i \in DOMAIN truth}
         IN [ns \in ks |-> truth[CHOOSE i \in DOMAIN truth : truth[i].nodes = ns].w]
ParseRecoversListed == HgrCovered(File) /\ ParseHgr(File) = Truth /\ HgrWeighted(File) = W
Emit == (step = Depth) => PrintT(ToJson([lines |-> File, truth |-> truth]))
=============================================================================
