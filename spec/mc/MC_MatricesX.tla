---------------------------- MODULE MC_MatricesX ----------------------------
(* X01 on the design: relations between the definitions of MatricesX.tla and those *)
(* of Matrices.tla / HGX.tla in every reachable state of the bounded container     *)
(* ("hg" for the multi-order family, "temp" for the temporal / annealed family).   *)
EXTENDS MC_HGX, MatricesX
XOrders == 0..Cardinality(Node)
NN      == Cardinality(st.nodes)

\* three coupling vectors over the orders 1..D: all ones, the ramp d, the halves 1/(d+1); and their sums
SigOnes  == [d \in 1..MaxOrder(st) |-> ROne]
SigRamp  == [d \in 1..MaxOrder(st) |-> <<d, 1>>]
SigHalf  == [d \in 1..MaxOrder(st) |-> <<1, d + 1>>]
SigSum(a, b) == [d \in 1..MaxOrder(st) |-> RAdd(a[d], b[d])]
Sigs     == {SigOnes, SigRamp, SigHalf}
RowSum(F(_), D) == RSumSet(F, D)

\* "all orders" = the orders >= 1 with a hyperedge: together with order 0 they partition the hyperedges
OrdersPartitionKeys ==
   /\ OrdersPresent(st) \subseteq 1..MaxOrder(st)
   /\ (MaxOrder(st) >= 1) => MaxOrder(st) \in OrdersPresent(st)
   /\ UNION {OfOrder(st, d) : d \in OrdersPresent(st) \cup {0}} = Keys(st)
   /\ \A d, e \in XOrders : d # e => OfOrder(st, d) \cap OfOrder(st, e) = {}
   /\ DOMAIN IncAllOrders(st) = {KSize(k) - 1 : k \in Keys(st)} \ {0}
\* the incidence matrix of order d: every column has d + 1 ones, the row of n has its order-d degree;
\* rows of nodes outside the order-d hyperedges are empty (what keep_isolated_nodes adds)
IncidenceAllOrdersShape == \A d \in OrdersPresent(st) :
   LET K == IncAllOrders(st)[d] IN
   /\ \A k \in K : LET C(n) == Inc(k, n) IN SumSet(C, st.nodes) = d + 1
   /\ \A n \in st.nodes : LET R(k) == Inc(k, n) IN SumSet(R, K) = DegD(st, d, n)
   /\ \A n \in st.nodes \ NodesOfKeys(K) : DegD(st, d, n) = 0
   /\ \A n \in NodesOfKeys(K) : DegD(st, d, n) > 0

\* X01-a: symmetric, zero row sums, for every coupling vector and both flags
MultiLapSymmetricZeroRowSum == \A sig \in Sigs, ow, dw \in BOOLEAN, n \in st.nodes :
   /\ LET R(m) == MultiLap(st, sig, ow, dw, n, m) IN RSame(RowSum(R, st.nodes), RZero)
   /\ \A m \in st.nodes : RSame(MultiLap(st, sig, ow, dw, n, m), MultiLap(st, sig, ow, dw, m, n))
\* unit couplings, no normalisation: minus the adjacency matrix off the diagonal, its row sum on it
MultiLapPlainIsDegreeMinusAdjacency == \A n, m \in st.nodes :
   LET A(x) == Adj(st, n, x) IN
   RSame(MultiLap(st, SigOnes, FALSE, FALSE, n, m), RInt(IF n = m THEN SumSet(A, st.nodes) ELSE 0 - Adj(st, n, m)))
\* the degree normalisation makes the mean diagonal entry of the order-d term equal to d
MultiLapNormalisedTrace == \A d \in OrdersPresent(st) :
   LET T(n) == MultiTermK(OfOrder(st, d), d, NN, ROne, FALSE, TRUE, n, n)
   IN RSame(RSumSet(T, st.nodes), RInt(d * NN))
\* linear in the couplings
MultiLapLinear == \A a, b \in Sigs, ow, dw \in BOOLEAN, n, m \in st.nodes :
   RSame(MultiLap(st, SigSum(a, b), ow, dw, n, m), RAdd(MultiLap(st, a, ow, dw, n, m), MultiLap(st, b, ow, dw, n, m)))
\* one order only: the coupling times the (scaled) Laplacian of that order; it is the sigma-weighted sum
\* of the per-order Laplacians, each divided by its normalisation, in general
MultiLapIsWeightedSum == \A sig \in Sigs, ow, dw \in BOOLEAN, n, m \in st.nodes :
   LET Term(d) == LET c == IF ow THEN XFact(d - 1) ELSE 1
                      a == IF dw THEN MeanDegK(OfOrder(st, d), d, NN) ELSE ROne
                  IN RMul(RMul(sig[d], RInt(c * LapD(st, d, n, m))), <<a[2], a[1]>>)
   IN /\ RSame(MultiLap(st, sig, ow, dw, n, m), RSumSet(Term, OrdersPresent(st)))
      /\ (IsUniform(st) /\ MaxOrder(st) >= 1) =>
            RSame(MultiLap(st, sig, FALSE, FALSE, n, m), RMul(sig[MaxOrder(st)], RInt(LapD(st, MaxOrder(st), n, m))))

\* X01-c: t = 0 counts the neighbours, t = 1 sums the adjacency row = SUM over the hyperedges of n of (size - 1)
AdjFactorIsNeighbourhood == \A n \in st.nodes :
   /\ AdjFactor(st, 0, n) = Cardinality(Neigh(st, n, NoF))
   /\ LET Z(k) == KSize(k) - 1 IN AdjFactor(st, 1, n) = SumSet(Z, Incident(st, n, NoF))
   /\ AdjFactor(st, 0, n) <= AdjFactor(st, 1, n) /\ AdjFactor(st, 1, n) <= AdjFactor(st, 2, n)

\* X01-g: a Laplacian commutes with itself and with the all-ones matrix (both products vanish: zero row sums,
\* symmetry); commuting is symmetric; the Laplacian of a complete order is a multiple of N I - J and commutes
\* with every other Laplacian
One(n, m) == 1
Complete(d) == OfOrder(st, d) = {Key(s, {}, 0) : s \in {s \in SUBSET st.nodes : Cardinality(s) = d + 1}}
\* (orders 0 and >= N have a zero Laplacian; the pairs d < e over the orders 1..N-1 are the ones that can differ)
LapOrders == 1..(Cardinality(Node) - 1)
LaplaciansCommute ==
   /\ \A d \in LapOrders :
         LET K == OfOrder(st, d)
             Ld(n, m) == LapK(K, d, n, m)
         IN /\ Commute(Ld, Ld, st.nodes)
            /\ \A n, m \in st.nodes : MatProd(Ld, One, st.nodes, n, m) = 0 /\ MatProd(One, Ld, st.nodes, n, m) = 0
   /\ \A d, e \in LapOrders : d < e =>
         LET Kd == OfOrder(st, d)
             Ke == OfOrder(st, e)
             Ld(n, m) == LapK(Kd, d, n, m)
             Le(n, m) == LapK(Ke, e, n, m)
         IN /\ Commute(Ld, Le, st.nodes) <=> Commute(Le, Ld, st.nodes)
            /\ (Kind = "hg" /\ (Complete(d) \/ Complete(e))) => Commute(Ld, Le, st.nodes)
            /\ (Kd = {} \/ Ke = {} \/ NodesOfKeys(Kd) \cap NodesOfKeys(Ke) = {}) => Commute(Ld, Le, st.nodes)

\* X01-d: per time, the orders add up to the temporal adjacency and are the per-order adjacency of the snapshot
TempAdjSplitsByOrder == Kind = "temp" => \A tm \in XS, n, m \in st.nodes :
   /\ LET A(d) == TempAdjD(st, d, tm, n, m) IN TempAdj(st, tm, n, m) = SumSet(A, XOrders)
   /\ \A d \in XOrders : /\ TempAdjD(st, d, tm, n, m) = AdjD(Snapshot(st, tm), d, n, m)
                         /\ tm \notin TimesOfOrder(st, d) => TempAdjD(st, d, tm, n, m) = 0
\* X01-e/f: the sum over the snapshots counts the (time, hyperedge) records containing both nodes; it splits by
\* order; the average lies between the smallest and the largest snapshot entry; one snapshot: it is that snapshot
AnnealedIsTimeAverage == (Kind = "temp" /\ Times(st) # {}) => \A n, m \in st.nodes :
   /\ AnnealedNum(st, n, m) = AdjK(Keys(st), n, m)
   /\ AnnealedNum(st, n, m) = AnnealedNum(st, m, n) /\ AnnealedNum(st, n, n) = 0
   /\ LET A(d) == AnnealedNumD(st, d, n, m) IN AnnealedNum(st, n, m) = SumSet(A, XOrders)
   /\ \A d \in XOrders : AnnealedNumD(st, d, n, m) = Cardinality({k \in OfOrder(st, d) : n # m /\ n \in KN(k) /\ m \in KN(k)})
   /\ \A tm \in Times(st) :
         /\ RLeq(Annealed(st, n, m), RInt(SetMax({TempAdj(st, x, n, m) : x \in Times(st)})))
         /\ RLeq(RInt(SetMin({TempAdj(st, x, n, m) : x \in Times(st)})), Annealed(st, n, m))
   /\ NSnapshots(st) = 1 => RSame(Annealed(st, n, m), RInt(TempAdj(st, CHOOSE x \in Times(st) : TRUE, n, m)))
   /\ NSnapshots(st) <= TimeSpan(st)
AnnFactorIsNeighbourhood == (Kind = "temp" /\ Times(st) # {}) => \A n \in st.nodes :
   /\ RSame(AnnFactor(st, NSnapshots(st), 0, n), RInt(Cardinality(Neigh(st, n, NoF))))
   /\ LET Z(k) == KSize(k) - 1 IN RSame(AnnFactor(st, NSnapshots(st), 1, n), <<SumSet(Z, Incident(st, n, NoF)), NSnapshots(st)>>)
=============================================================================
