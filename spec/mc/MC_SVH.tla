---------------------------- MODULE MC_SVH ----------------------------
(* C19 (SVH) on the design, exhaustively:                                      *)
(*  (a) every weighted hypergraph over Node whose hyperedges all have size sz  *)
(*      (sz in Sizes) and whose number of occurrences is in the exact regime   *)
(*      (ExactRegime: all tails fit 32-bit integers), grown one occurrence at  *)
(*      a time; with Mixed = TRUE every hypergraph over Node (sizes 1..|Node|)  *)
(*      with at most MaxTotal occurrences;                                     *)
(*  (b) the step-up rule on every vector of 3 p-values j/PD, every level 1/M.  *)
EXTENDS SVH
CONSTANTS Node, Sizes, Mixed, MaxTotal, PD, Levels
VARIABLES st, sz, pv
vars == <<st, sz, pv>>

AllKeys == {Key(s, {}, 0) : s \in (SUBSET Node) \ {{}}}
Total(S) == LET F(k) == Wt(S, k) IN SumSet(F, Keys(S))
Init == /\ st = [Empty(TRUE, "Hypergraph") EXCEPT !.nodes = Node, !.nmd = [n \in Node |-> NoMeta]]
        /\ sz \in (IF Mixed THEN {0} ELSE Sizes)
        /\ pv = [P |-> <<>>, M |-> 1]
AddOcc == pv.P = <<>> /\ \E k \in AllKeys :
            /\ IF Mixed THEN Total(st) < MaxTotal
               ELSE KSize(k) = sz /\ ExactRegime(Nocc(st, sz) + 1, sz)
            /\ st' = [st EXCEPT !.E = Upd(st.E, k, [w |-> (IF k \in Keys(st) THEN st.E[k].w ELSE 0) + 1, md |-> NoMeta])]
            /\ UNCHANGED <<sz, pv>>
PickP == /\ pv.P = <<>> /\ Keys(st) = {} /\ sz = CHOOSE s \in (IF Mixed THEN {0} ELSE Sizes) : TRUE
         /\ \E P \in [1..3 -> {<<j, PD>> : j \in 0..PD}], M \in Levels : pv' = [P |-> P, M |-> M]
         /\ UNCHANGED <<st, sz>>
Next == AddOcc \/ PickP
Spec == Init /\ [][Next]_vars

Bounds == 1..(Cardinality(Node) + 1)
AllSizes == 1..Cardinality(Node)
\* the exact regime holds for every size present (so every operator below is overflow-free)
InRegime == \A n \in AllSizes : Nocc(st, n) = 0 \/ ExactRegime(Nocc(st, n), n)

\* every occurrence of size n contributes to exactly n of the K_i
KoccSum == \A n \in AllSizes : LET F(i) == Kocc(st, i, n) IN SumSet(F, Node) = n * Nocc(st, n)
\* w <= K_i <= N for the nodes of a hyperedge: the success probability is in (0, 1]
KoccBounds == \A k \in Keys(st) : \A i \in k.s :
                 Wt(st, k) <= Kocc(st, i, KSize(k)) /\ Kocc(st, i, KSize(k)) <= Nocc(st, KSize(k))
ProbInUnit == InRegime => \A k \in Keys(st) : 1 <= PA(st, k) /\ PA(st, k) <= PB(st, k)
\* the tested set: sizes 2..bound, every hyperedge under exactly its own size, growing with the bound
TestedPartition == \A b \in Bounds :
   /\ TestedSizes(st, b) \subseteq 2..b
   /\ UNION {TestedOf(st, b, n) : n \in TestedSizes(st, b)} = Tested(st, b)
   /\ \A k \in Keys(st) : (KSize(k) >= 2 /\ KSize(k) <= b) <=> \E n \in TestedSizes(st, b) : k \in TestedOf(st, b, n)
   /\ \A k \in Tested(st, b) : Cardinality({n \in TestedSizes(st, b) : k \in TestedOf(st, b, n)}) = 1
   /\ (b + 1 \in Bounds) => Tested(st, b) \subseteq Tested(st, b + 1)
\* the binomial expansion is complete: P[X >= 0] = 1
TailTotal == InRegime => \A k \in Keys(st) :
   TailNum(Nocc(st, KSize(k)), PA(st, k), PB(st, k), 0) = PDen(st, KSize(k))
\* the tail decreases with the weight and p-values lie in (0, 1]
TailMonotone == InRegime => \A k \in Keys(st) :
   LET N == Nocc(st, KSize(k)) IN
   /\ \A w \in 0..N : TailNum(N, PA(st, k), PB(st, k), w + 1) <= TailNum(N, PA(st, k), PB(st, k), w)
   /\ 1 <= PNum(st, k) /\ PNum(st, k) <= PDen(st, KSize(k))
\* ... and increases with the success probability (same size, same weight)
TailMonotoneInP == InRegime => \A k1, k2 \in Keys(st) :
   (KSize(k1) = KSize(k2) /\ Wt(st, k1) = Wt(st, k2) /\ PA(st, k1) <= PA(st, k2)) => PNum(st, k1) <= PNum(st, k2)
\* validated hyperedges form a lower set of the p-value order, and there are exactly i* of them
LowerSetInv == InRegime => \A b \in Bounds : \A n \in TestedSizes(st, b) :
   /\ LowerSet(st, b, n)
   /\ Cardinality(Validated(st, b, n)) = Threshold(st, b, n)[1]
   /\ Validated(st, b, n) \subseteq TestedOf(st, b, n)

\* (b) the step-up rule itself, on arbitrary p-values
IthSmallest(P, i) == LET vs == {P[x] : x \in DOMAIN P} IN
   CHOOSE v \in vs : /\ Cardinality({x \in DOMAIN P : RatLess(P[x], v)}) < i
                     /\ Cardinality({x \in DOMAIN P : ~RatLess(v, P[x])}) >= i
StepUpRule == pv.P # <<>> =>
   LET P == pv.P  M == pv.M  V == StepUpValidated(P, M)  m == Cardinality(DOMAIN P)
       sorted == {i \in 1..m : RatLess(IthSmallest(P, i), <<i, M>>)}      \* "the i-th smallest is below i x bonf"
       istar == IF sorted = {} THEN 0 ELSE CHOOSE i \in sorted : \A j \in sorted : j <= i
   IN /\ StepUpIndex(P, M) = istar
      /\ V = {x \in DOMAIN P : RatLess(P[x], <<istar, M>>)}
      /\ LowerSetOf(P, V)
      /\ Cardinality(V) = istar
=============================================================================
