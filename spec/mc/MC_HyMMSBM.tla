---------------------------- MODULE MC_HyMMSBM ----------------------------
(***************************************************************************)
(* C15 on the design: the closed forms of the code (C, C', C'', the        *)
(* quadratic-form shortcuts) equal the brute-force sums over all possible  *)
(* hyperedges, for EVERY u in {0..V}^(N x K) and every symmetric           *)
(* w in {0..V}^(K x K).  One state per (u, w); a step rewrites one entry   *)
(* of u or one symmetric pair of entries of w, so that the whole parameter *)
(* space is reachable from the zero matrices and the exploration is shared *)
(* by all TLC workers.  An algebraic identity, checked exhaustively.       *)
(***************************************************************************)
EXTENDS HyMMSBM, TLC
CONSTANTS N, K, V
VARIABLES u, w

Init == /\ u = [i \in 1..N |-> [a \in 1..K |-> 0]]
        /\ w = [a \in 1..K |-> [b \in 1..K |-> 0]]
Next == \/ \E i \in 1..N, a \in 1..K, v \in 0..V : u' = [u EXCEPT ![i][a] = v] /\ UNCHANGED w
        \/ \E a \in 1..K, b \in 1..K, v \in 0..V :
              /\ a <= b
              /\ w' = [x \in 1..K |-> [y \in 1..K |-> IF {x, y} = {a, b} THEN v ELSE w[x][y]]]
              /\ UNCHANGED u

\* every set of sizes the API can ask for: all (2..D), non-dyadic (3..D), one size, arbitrary arrays
DimSets == SUBSET (2..N)

PoissonShortcut(Lam) == \A e \in SUBSET (1..N) : Cardinality(e) >= 2 => REq(PoissonCF(u, w, e), RInt(Lam[e]))
ExpCountClosed(Lam)  == \A d \in 2..N : REq(ExpCountCF(u, w, N, d), ExpCountBF(Lam, N, d))
ExpDegClosed(Lam)    == \A ds \in DimSets : \A i \in 1..N : REq(ExpDegCF(u, w, N, ds, i), ExpDegBF(Lam, N, ds, i))
AvgDegClosed(Lam)    == \A ds \in DimSets : REq(AvgDegCF(u, w, N, ds), AvgDegBF(Lam, N, ds))
\* the sum of the expected degrees counts every expected hyperedge once per member
HandShake(Lam)       == \A ds \in DimSets :
                          LET E(i) == ExpDegBF(Lam, N, ds, i)   C(d) == RMul(RInt(d), ExpCountBF(Lam, N, d))
                          IN REq(RSum(E, 1..N), RSum(C, ds))

\* Lam: the table of brute-force Poisson parameters of EVERY possible hyperedge, evaluated once per state
ClosedFormsEqualBruteForce ==
  LET Lam == TLCEval(LamTable(u, w))
  IN PoissonShortcut(Lam) /\ ExpCountClosed(Lam) /\ ExpDegClosed(Lam) /\ AvgDegClosed(Lam) /\ HandShake(Lam)

\* kappa_d = (hyperedges of size d through a given pair of nodes) x (node pairs inside one hyperedge of size d)
KappaCountsPairs == \A d \in 2..N :
                      Kappa(N, d) = Cardinality({e \in EdgesOfSize(N, d) : {1, 2} \subseteq e}) * Cardinality(Pairs(1..d))
WSymmetric == Symmetric(w)
=============================================================================
