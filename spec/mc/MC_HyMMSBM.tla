---------------------------- MODULE MC_HyMMSBM ----------------------------
(***************************************************************************)
(* C15 on the design: the closed forms of the code (C, C', C'', the        *)
(* quadratic-form shortcuts) equal the brute-force sums over all possible  *)
(* hyperedges, for EVERY u in {0..V}^(N x K) and every symmetric           *)
(* w in {0..V}^(K x K).  One state per (u, w); a step rewrites one entry   *)
(* of u or one symmetric pair of entries of w, so that the whole parameter *)
(* space is reachable from the zero matrices and the exploration is shared *)
(* by all TLC workers.  An algebraic identity, checked exhaustively.       *)
(***************************************************************************)
EXTENDS HyMMSBM, TLC
CONSTANTS N, K, V
VARIABLES u, w

Init == /\ u = [i \in 1..N |-> [a \in 1..K |-> 0]]
        /\ w = [a \in 1..K |-> [b \in 1..K |-> 0]]
Next == \/ \E i \in 1..N, a \in 1..K, v \in 0..V : u' = [u EXCEPT ![i][a] = v] /\ UNCHANGED w
        \/ \E a \in 1..K, b \in 1..K, v \in 0..V :
              /\ a <= b
              /\ w' = [x \in 1..K |-> [y \in 1..K |-> IF {x, y} = {a, b} THEN v ELSE w[x][y]]]
              /\ UNCHANGED u

\* every set of sizes the API can ask for: all (2..D), non-dyadic (3..D), one size, arbitrary arrays
DimSets == SUBSET (2..N)

\* Lam: brute-force Poisson parameter of EVERY possible hyperedge; T: brute-force expected degree per (node, size);
\* NT, B: the node terms and bf_and_sum of the closed forms - each evaluated once per state (u, w)
PoissonShortcut(Lam) == \A e \in SUBSET (1..N) : Cardinality(e) >= 2 => REq(PoissonCF(u, w, e), RInt(Lam[e]))
ExpCountClosed(Lam, B) == \A d \in 2..N : REq(ExpCountCFT(B, d), ExpCountBF(Lam, N, d))
ExpDegClosed(T, NT)  == \A ds \in DimSets : \A i \in 1..N : REq(ExpDegCFT(NT[i], N, ds), ExpDegBFT(T, ds, i))
AvgDegClosed(T, B)   == \A ds \in DimSets : REq(AvgDegCFT(B, N, ds), AvgDegBFT(T, N, ds))
\* the sum of the expected degrees counts every expected hyperedge once per member
HandShake(Lam, T)    == \A ds \in DimSets :
                          LET E(i) == ExpDegBFT(T, ds, i)   C(d) == RMul(RInt(d), ExpCountBF(Lam, N, d))
                          IN REq(RSum(E, 1..N), RSum(C, ds))

ClosedFormsEqualBruteForce ==
  LET Lam == TLCEval(LamTable(u, w))
      T   == TLCEval(DegTable(Lam, N))
      NT  == TLCEval([i \in 1..N |-> NodeTerms(u, w, i)])
      B   == TLCEval(BfSum(u, w))
  IN PoissonShortcut(Lam) /\ ExpCountClosed(Lam, B) /\ ExpDegClosed(T, NT) /\ AvgDegClosed(T, B) /\ HandShake(Lam, T)

\* kappa_d = (hyperedges of size d through a given pair of nodes) x (node pairs inside one hyperedge of size d)
KappaCountsPairs == \A d \in 2..N :
                      Kappa(N, d) = Cardinality({e \in EdgesOfSize(N, d) : {1, 2} \subseteq e}) * Cardinality(Pairs(1..d))
WSymmetric == Symmetric(w)
=============================================================================
