---------------------------- MODULE MC_HyMMSBM ----------------------------
(***************************************************************************)
(* C15 on the design: the closed forms of the code (C, C', C'', the        *)
(* quadratic-form shortcuts) equal the brute-force sums over all possible  *)
(* hyperedges, for EVERY u in {0..V}^(N x K) and every symmetric           *)
(* w in {0..V}^(K x K) - one initial state per (u, w), no transitions      *)
(* other than stuttering.  An algebraic identity, checked exhaustively.    *)
(***************************************************************************)
EXTENDS HyMMSBM, TLC
CONSTANTS N, K, V
VARIABLES u, w

Init == /\ u \in [1..N -> [1..K -> 0..V]]
        /\ w \in {m \in [1..K -> [1..K -> 0..V]] : Symmetric(m)}
Next == UNCHANGED <<u, w>>

\* every set of sizes the API can ask for: all (2..D), non-dyadic (3..D), one size, arbitrary arrays
DimSets == SUBSET (2..N)

PoissonShortcut == \A e \in SUBSET (1..N) : Cardinality(e) >= 2 => REq(PoissonCF(u, w, e), RInt(Lambda(u, w, e)))
ExpCountClosed  == \A d \in 2..N : REq(ExpCountCF(u, w, N, d), ExpCountBF(u, w, N, d))
ExpDegClosed    == \A ds \in DimSets : \A i \in 1..N : REq(ExpDegCF(u, w, N, ds, i), ExpDegBF(u, w, N, ds, i))
AvgDegClosed    == \A ds \in DimSets : REq(AvgDegCF(u, w, N, ds), AvgDegBF(u, w, N, ds))
\* the sum of the expected degrees counts every expected hyperedge once per member
HandShake       == \A ds \in DimSets :
                     LET E(i) == ExpDegBF(u, w, N, ds, i)   C(d) == RMul(RInt(d), ExpCountBF(u, w, N, d))
                     IN REq(RSum(E, 1..N), RSum(C, ds))
\* kappa_d = (hyperedges of size d through a given pair of nodes) x (node pairs inside one hyperedge of size d)
KappaCountsPairs == \A d \in 2..N :
                      Kappa(N, d) = Cardinality({e \in EdgesOfSize(N, d) : {1, 2} \subseteq e}) * Cardinality(Pairs(1..d))

ClosedFormsEqualBruteForce == PoissonShortcut /\ ExpCountClosed /\ ExpDegClosed /\ AvgDegClosed
=============================================================================
