---------------------------- MODULE Gen_Hif ----------------------------
(* Generation of HIF documents with node, edge and incidence records (C06     *)
(* readers).  Records carry a variant number v that the harness expands into  *)
(* concrete weight / attrs content.  Design check on the way: ReadHif gives   *)
(* one hyperedge per distinct incidence set and every described record        *)
(* appears in it (HifDesign).                                                 *)
EXTENDS Persist, Json
CONSTANTS NodeNames, EdgeNames, Variants, Depth, Types
VARIABLES doc, step
vars == <<doc, step>>

Init == /\ \E ty \in Types, md \in {0, 1} :
             doc = [ty |-> ty, md |-> md, nodes |-> <<>>, edges |-> <<>>, incidences |-> <<>>]
        /\ step = 0
AddInc == \E e \in EdgeNames, n \in NodeNames, v \in Variants :
             /\ \A r \in Rng(doc.incidences) : <<r.edge, r.node>> # <<e, n>>
             /\ doc' = [doc EXCEPT !.incidences = Append(@, [edge |-> e, node |-> n, v |-> v])]
AddNodeRec == \E n \in NodeNames, v \in Variants :
             /\ \A r \in Rng(doc.nodes) : r.node # n
             /\ doc' = [doc EXCEPT !.nodes = Append(@, [node |-> n, v |-> v])]
AddEdgeRec == \E e \in EdgeNames, v \in Variants :
             /\ \A r \in Rng(doc.edges) : r.edge # e
             /\ doc' = [doc EXCEPT !.edges = Append(@, [edge |-> e, v |-> v])]
Next == /\ step < Depth /\ step' = step + 1
        /\ (AddInc \/ AddNodeRec \/ AddEdgeRec \/ UNCHANGED doc)

\* tok of a generated record = the record itself (any injective naming will do for the design check)
WithTok(sq) == [i \in DOMAIN sq |-> [x \in DOMAIN sq[i] \cup {"tok"} |-> IF x = "tok" THEN sq[i] ELSE sq[i][x]]]
TDoc == [nodes |-> WithTok(doc.nodes), edges |-> WithTok(doc.edges), incidences |-> WithTok(doc.incidences)]
HifDesign ==
  LET R == ReadHif(TDoc) IN
  /\ HifCovered(TDoc)
  /\ Cardinality(R.edges) <= Cardinality(HifEdgeNames(TDoc))
  /\ \A e \in HifEdgeNames(TDoc) : HifIncSet(TDoc, e) \in R.edges /\ HifIncSet(TDoc, e) # {}
  /\ UNION R.edges \subseteq R.nodes
  /\ \A r \in Rng(TDoc.nodes) : r.tok \in R.nrec[r.node]
  /\ \A r \in Rng(TDoc.incidences) : r.tok \in R.irec[<<HifIncSet(TDoc, r.edge), r.node>>]
  /\ \A r \in Rng(TDoc.edges) : r.edge \in HifEdgeNames(TDoc) => r.tok \in R.erec[HifIncSet(TDoc, r.edge)]
  /\ \A s \in DOMAIN R.erec : s \in R.edges
Emit == (step = Depth) => PrintT(ToJson(doc))
=============================================================================
