---------------------------- MODULE Gen_HGX ----------------------------
(* Behaviour generation: the abstract container plus a history variable.  *)
(* Run with -simulate (random behaviours) or plain BFS (all histories of   *)
(* length Depth); every complete history is printed as one JSON string.    *)
EXTENDS HGXOps, Json
CONSTANT Depth, InvalidEvery, Balanced
VARIABLES st, hist

Init == st = Empty(Weighted, TypeName) /\ hist = <<>>
\* mostly valid calls; every InvalidEvery-th position may be any call
Cand == IF InvalidEvery > 0 /\ (Len(hist) + 1) % InvalidEvery = 0 THEN Ops
        ELSE {o \in Ops : Valid(st, o)}
\* Balanced (simulation only): draw the kind of call first, so that the large batch
\* universes do not crowd out the single calls
KindOf(C) == IF Balanced THEN LET kd == RandomElement({o.op : o \in C}) IN {o \in C : o.op = kd} ELSE C
Next == /\ Len(hist) < Depth
        /\ \E o \in KindOf(Cand) :
             /\ IF Valid(st, o) THEN st' \in Succ(st, o) ELSE UNCHANGED st
             /\ hist' = Append(hist, o)
Bound == \A k \in Keys(st) : st.E[k].w <= MaxW + 2
Emit == (Len(hist) = Depth) => PrintT(ToJson(hist))
=============================================================================
