---------------------------- MODULE MC_GAM ----------------------------
(* X08 on the design: N agents on a P x P integer grid with periodic boundary, radius^2 = R2N / R2D,    *)
(* steps of V grid units along an axis (the four quarter-turn angles), every attribute vector, every    *)
(* initial placement and activity, every outcome of every random choice (free booleans, restricted by  *)
(* MUST / MAY at the extreme levels HMode / AL / RL).  Hist = TRUE keeps the histories for MaxIt        *)
(* iterations; Hist = FALSE forgets them after every step (the step assertions have seen them) and the  *)
(* model runs for ever.  Attrs = "all": every attribute vector, "same": all agents alike.               *)
(* Dirs: the quarter turns a move may take (a subset of 0..3; two of them reach every placement).       *)
(* CheckSucc: also assert that the validator's relation IsSuccessor accepts every step (costly).        *)
(* Mutant # "none" switches a fault of GAM!Effect on; Control # "none" asserts a  *)
(* statement that the code does NOT promise (TLC must refute it).                                       *)
EXTENDS GAM
CONSTANTS N, P, R2N, R2D, V, HMode, AL, RL, MaxIt, Hist, Mutant, Control, Attrs, Dirs, CheckSucc
VARIABLES st, par
vars == <<st, par>>

Grid == (0..(P - 1)) \X (0..(P - 1))
Ag == 1..N
Keys1 == {"00", "01", "10", "11"}
Keys2 == {"000", "001", "011", "100", "101", "111"}
\* HMode = "default": the documented default (h = 1): same attribute joins, a different one never does
Same(k) == k \in {"00", "11", "000", "111"}
World(attr) == [N |-> N, P |-> P, r2 |-> <<R2N, R2D>>, v2 |-> <<V * V, 1>>, attr |-> attr,
                h1 |-> [k \in Keys1 |-> IF HMode = "mid" THEN "mid" ELSE IF Same(k) THEN "1" ELSE "0"],
                h2 |-> [k \in Keys2 |-> IF HMode = "mid" THEN "mid" ELSE IF Same(k) THEN "1" ELSE "0"],
                al |-> [i \in Ag |-> AL], rl |-> [i \in Ag |-> RL]]

\* everything depends on differences of positions only (periodic box): states are kept up to translation,
\* agent 1 at the origin (the step assertions see the untranslated successor)
Norm(pos) == [i \in Ag |-> <<(pos[i][1] - pos[1][1] + P) % P, (pos[i][2] - pos[1][2] + P) % P>>]
Init == /\ par \in {World(a) : a \in IF Attrs = "all" THEN [Ag -> {"0", "1"}] ELSE {[i \in Ag |-> "0"]}}
        /\ \E pos \in {q \in [Ag -> Grid] : q[1] = <<0, 0>>}, act \in [Ag -> BOOLEAN] :
             st = [pos |-> pos, act |-> act, grp |-> [i \in Ag |-> IF act[i] THEN {{i}} ELSE {}],
                   it |-> 0, traj |-> {}, proj |-> {}, edges |-> {}]

\* ---- statements the code does not promise (negative controls)
GroupsSymmetric(Q) == \A i \in Ag : \A g \in Q.grp[i] : \A m \in g : g \in Q.grp[m]
NewGroupsDisjoint(Q) == \A g1, g2 \in NewGroups(Q, par) : g1 = g2 \/ g1 \cap g2 = {}
MutuallyNear(S, Q) == \A g \in NewGroups(Q, par) : \A x, y \in g : x = y \/ Within(S.pos[x], S.pos[y], P, par.r2)
CentreKeepsGroup(S, nbr, moved, Q) ==
  \A g \in NewGroups(Q, par) : \E c \in g : c \notin moved /\ g \ {c} \subseteq nbr[c] /\ g \in Q.grp[c]
ControlHolds(S, nbr, moved, Q) ==
  CASE Control = "symmetric" -> GroupsSymmetric(Q)
    [] Control = "disjoint"  -> NewGroupsDisjoint(Q)
    [] Control = "mutual"    -> MutuallyNear(S, Q)
    [] Control = "centre_keeps" -> CentreKeepsGroup(S, nbr, moved, Q)
    [] OTHER -> TRUE

StepOK(S, nbr, moved, Q) ==     \* Q.pos is not looked at here
  /\ Assert(AgentTransitions(S, nbr, par, moved, Q), <<"AgentTransitions", S, Q>>)
  /\ Assert(MustMoveIsolated(S, nbr, par, moved), <<"MustMoveIsolated", S, Q>>)
  /\ Assert(GroupsFormedNow(S, nbr, par, moved, Q), <<"GroupsFormedNow", S, Q>>)
  /\ Assert(AppendOnly(S, Q), <<"AppendOnly", S, Q>>)
  /\ Assert(RecordsAreGroups(S, Q, par), <<"RecordsAreGroups", S, Q>>)
  /\ Assert(GroupsAreRecorded(S, Q, par), <<"GroupsAreRecorded", S, Q>>)
  /\ Assert(\A r \in Q.traj \ S.traj : r[1] = S.it /\ \A o \in S.traj : o[1] <= r[1], <<"TimesNonDecreasing", S, Q>>)
  /\ Assert(Mutant # "none" \/ ~CheckSucc \/ IsSuccessor(S, nbr, par, moved, Q), <<"IsSuccessor", S, Q>>)
  /\ Assert(ControlHolds(S, nbr, moved, Q), <<"Control", Control, S, Q>>)
MoveOK(S, moved, pos2) ==
  Assert(\A i \in Ag : IF i \in moved THEN AtMost(S.pos[i], pos2[i], P, par.v2) /\ (2 * V <= P => OnRadius(S.pos[i], pos2[i], P, par.v2))
                        ELSE pos2[i] = S.pos[i], <<"MoveLength", S, pos2>>)

Next ==
  /\ (Hist => st.it < MaxIt)
  /\ LET S == st
         nbr == NbrOf(S.pos, S.act, par)
     IN \E mv \in SUBSET Active(S, par), on \in SUBSET (Ag \ Active(S, par)), off \in SUBSET {i \in Active(S, par) : nbr[i] = {}} :
        \E c \in Choices(S, nbr, par, mv, on, off) :
          /\ LegalSwitches(S, nbr, par, c)
          /\ LET E == Effect(S, nbr, par, c, Mutant)
                 Q == [pos |-> S.pos, act |-> E.act, grp |-> E.grp, it |-> S.it,
                       traj |-> E.traj, proj |-> E.proj, edges |-> E.edges]
             IN /\ StepOK(S, nbr, mv, Q)
                /\ \E dir \in [mv -> Dirs] :
                     LET pos2 == [i \in Ag |-> IF i \in mv THEN StepTo(S.pos[i], dir[i], V, P) ELSE S.pos[i]]
                     IN /\ MoveOK(S, mv, pos2)
                        /\ st' = IF Hist THEN [Q EXCEPT !.it = S.it + 1, !.pos = Norm(pos2)]
                                 ELSE [Q EXCEPT !.traj = {}, !.proj = {}, !.edges = {}, !.pos = Norm(pos2)]
  /\ UNCHANGED par

\* ---- invariants
TypeOK == /\ st.pos \in [Ag -> Grid] /\ st.act \in [Ag -> BOOLEAN]
          /\ \A i \in Ag : st.grp[i] \subseteq SUBSET Ag
          /\ st.it \in Nat
PartitionInv == StatePartition(st, par)
WellFormedInv == GroupsWellFormed(st, par)
HistoryInv == HistoryConsistent(st, par)
TimesInRange == \A r \in st.traj : r[1] < st.it \/ ~Hist
InBoxInv == \A i \in Ag : InBox(st.pos[i], P)
SizesInv == \A r \in st.traj : Cardinality(r[2]) >= 2 /\ Cardinality(r[2]) <= N
\* with the default homophily nothing is left to chance once the switches and the movers are given
DefaultJoinDeterministic ==
  HMode = "default" =>
     LET nbr == NbrOf(st.pos, st.act, par)
         c0 == [mv |-> {}, on |-> {}, off |-> {}, sel |-> [i \in Ag |-> {}]]
     IN \A i \in Ag : Cardinality(JoinOptions(st, nbr, par, c0, i)) = 1
=============================================================================
