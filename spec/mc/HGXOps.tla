---------------------------- MODULE HGXOps ----------------------------
(* Finite universe of public calls used for exploration and behaviour     *)
(* generation (bounded wrappers only; the unbounded design is core/HGX).  *)
EXTENDS HGX
CONSTANTS Node, MaxW, MKeys, MVals, XS, Weighted, Batches, MetaOps

Metas == UNION {[D -> MVals] : D \in SUBSET MKeys}
NESub == SUBSET Node \ {{}}
KeyU  == IF Kind = "dir"
         THEN {Key(a, b, 0) : <<a, b>> \in {p \in NESub \X NESub : p[1] \cap p[2] = {}}}
         ELSE {Key(a, {}, y) : <<a, y>> \in NESub \X XS}

MdArgs == IF MetaOps THEN [hasmd : {TRUE}, md : Metas] \cup {[hasmd |-> FALSE, md |-> NoMeta]}
          ELSE {[hasmd |-> FALSE, md |-> NoMeta]}

BadTimes == IF Kind = "temp" THEN {"", "neg", "float", "str"} ELSE {""}

EdgeItem(k, w, m, b) == [k |-> k, w |-> w, hasmd |-> m.hasmd, md |-> m.md, bad |-> b]
NodeItem(n, m) == [n |-> n, hasmd |-> m.hasmd, md |-> m.md]

Pairs(U) == {<<a, b>> : a, b \in U}

SingleOps ==
       {[op |-> "add_node", n |-> n, hasmd |-> m.hasmd, md |-> m.md] : n \in Node, m \in MdArgs}
  \cup {[op |-> "add_edge", k |-> k, w |-> w, hasmd |-> m.hasmd, md |-> m.md, bad |-> b]
          : k \in KeyU, w \in 0..MaxW, m \in MdArgs, b \in BadTimes}
  \cup {[op |-> "remove_edge", k |-> k] : k \in KeyU}
  \cup {[op |-> "remove_node", n |-> n, keep |-> kp] : n \in Node, kp \in IF Kind = "dir" THEN {FALSE} ELSE BOOLEAN}
  \cup {[op |-> "set_weight", k |-> k, w |-> w] : k \in KeyU, w \in 1..MaxW}
  \cup (IF Kind = "mux" THEN {} ELSE {[op |-> "clear"]})

MetaOpsU ==
  IF ~MetaOps THEN {} ELSE
       {[op |-> "set_node_md", n |-> n, md |-> md] : n \in Node, md \in Metas}
  \cup {[op |-> "set_edge_md", k |-> k, md |-> md] : k \in KeyU, md \in Metas}
  \cup {[op |-> "set_h_md", md |-> md] : md \in Metas}
  \cup {[op |-> "set_attr_node", n |-> n, f |-> f, v |-> v] : n \in Node, f \in MKeys, v \in MVals}
  \cup {[op |-> "set_attr_edge", k |-> k, f |-> f, v |-> v] : k \in KeyU, f \in MKeys, v \in MVals}
  \cup {[op |-> "set_attr_h", f |-> f, v |-> v] : f \in MKeys, v \in MVals}
  \cup {[op |-> "del_attr_node", n |-> n, f |-> f] : n \in Node, f \in MKeys}
  \cup {[op |-> "del_attr_edge", k |-> k, f |-> f] : k \in KeyU, f \in MKeys}

NoMd == [hasmd |-> FALSE, md |-> NoMeta]
BatchOps ==
  IF ~Batches THEN {} ELSE
       {[op |-> "add_nodes", items |-> <<NodeItem(p[1], NoMd), NodeItem(p[2], NoMd)>>] : p \in Pairs(Node)}
  \cup {[op |-> "add_edges", items |-> <<EdgeItem(p[1], w[1], NoMd, ""), EdgeItem(p[2], w[2], NoMd, "")>>]
          : p \in Pairs(KeyU), w \in {<<0, 0>>, <<1, MaxW>>}}
  \cup (IF Kind = "mux" THEN {} ELSE {[op |-> "remove_edges", ks |-> p] : p \in Pairs(KeyU)})
  \cup (IF Kind = "mux" THEN {} ELSE
        {[op |-> "remove_nodes", ns |-> p, keep |-> kp] : p \in Pairs(Node), kp \in IF Kind = "dir" THEN {FALSE} ELSE BOOLEAN})

Ops == SingleOps \cup MetaOpsU \cup BatchOps
=============================================================================
