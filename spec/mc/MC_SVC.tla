---------------------------- MODULE MC_SVC ----------------------------
(* X05 on the design, exhaustively:                                            *)
(*  (a) every weighted hypergraph over Node (hyperedges of every size          *)
(*      1..|Node|) with at most MaxOcc occurrences, grown one occurrence at a  *)
(*      time; orders 1..MaxO are examined, (MaxOcc, MaxO) chosen inside the    *)
(*      exact regime; significance levels alpha = 1/IA for IA in Alphas (small *)
(*      IA, so that groups DO get validated on instances this small and the    *)
(*      larger-orders-first rule is exercised);                                *)
(*  (b) the step-up rule under two levels on every vector of 3 p-values j/PD.  *)
EXTENDS SVC
CONSTANTS Node, MaxOcc, MaxO, Alphas, PD, Levels
VARIABLES st, pv
vars == <<st, pv>>

AllKeys == {Key(s, {}, 0) : s \in (SUBSET Node) \ {{}}}
Init == /\ st = [Empty(TRUE, "Hypergraph") EXCEPT !.nodes = Node, !.nmd = [n \in Node |-> NoMeta]]
        /\ pv = <<>>
AddOcc == pv = <<>> /\ SvcN(st) < MaxOcc /\ \E k \in AllKeys :
            /\ st' = [st EXCEPT !.E = Upd(st.E, k, [w |-> (IF k \in Keys(st) THEN st.E[k].w ELSE 0) + 1, md |-> NoMeta])]
            /\ UNCHANGED pv
PickP == /\ pv = <<>> /\ Keys(st) = {}
         /\ \E P \in [1..3 -> {<<j, PD>> : j \in 0..PD}] : pv' = P
         /\ UNCHANGED st
Next == AddOcc \/ PickP
Spec == Init /\ [][Next]_vars

NonEmpty == Keys(st) # {}
Ns  == 1..MaxO                                   \* orders examined
MXs == 0..MaxO                                   \* max_order arguments (0 = none)
Tops == {t \in {SvcTop(st, mx) : mx \in MXs} : t <= MaxO}       \* (no max_order and a hyperedge larger than MaxO: outside the regime)
\* every order examined on this state is inside the exact regime (so every operator below is overflow-free)
InRegime == NonEmpty => \A n \in Ns : SvcRegime(SvcN(st), n, Cardinality(SvcCand(st, n)))

---------------------------------------------------------------------------
\* X05-a: the table built from any listing of the occurrences is a bipartite table of the state, and the
\* parameters of the null model are the counts one reads off that table
BipartiteTable == LET R == BipOf(OccList(st, Keys(st))) IN
   /\ IsBipartite(st, R)
   /\ Cardinality(R) = (LET F(k) == Wt(st, k) * KSize(k) IN SumSet(F, Keys(st)))
   /\ Cardinality(BipIdx(R)) = SvcN(st)
   /\ {r[1] : r \in R} = SvcActive(st)
   /\ \A i \in Node : SvcK(st, i) = Cardinality({r \in R : r[1] = i})
   /\ \A g \in (SUBSET Node) \ {{}} : SvcW(st, g) = Cardinality({b \in BipIdx(R) : g \subseteq BipMembers(R, b)})
\* every occurrence of size s contributes to exactly s of the K_i
KSum == (LET F(i) == SvcK(st, i) IN SumSet(F, Node)) = (LET G(k) == Wt(st, k) * KSize(k) IN SumSet(G, Keys(st)))
\* 1 <= w(g) <= K_i <= N for the nodes of a candidate group: the success probability is in (0, 1]
CoOccBounds == \A n \in Ns : \A g \in SvcCand(st, n) :
   /\ 1 <= SvcW(st, g)
   /\ \A i \in g : SvcW(st, g) <= SvcK(st, i) /\ SvcK(st, i) <= SvcN(st)
   /\ 1 <= SvcPA(st, g) /\ SvcPA(st, g) <= SvcPB(st, n)
\* the co-occurrence count can only grow when the group shrinks; sub-groups of candidates are candidates
CoOccAntitone == \A n \in Ns : \A h \in SvcCand(st, n) : \A g \in (SUBSET h) \ {{}} :
   /\ g \in SvcCand(st, Cardinality(g))
   /\ SvcW(st, g) >= SvcW(st, h)
\* X05-b/c: orders and candidates
OrdersAndCandidates == NonEmpty =>
   /\ \A mx \in MXs : SvcTop(st, mx) <= MaxSize(st) /\ (mx # 0 => SvcTop(st, mx) <= mx) /\ SvcTop(st, mx) >= 1
   /\ \A mn \in Ns, mx \in MXs : \A n \in SvcOrders(st, mn, mx) : SvcCand(st, n) # {}
   /\ \A k \in Keys(st) : k.s \in SvcCand(st, KSize(k))
   /\ \A n \in Ns : \A g \in SvcCand(st, n) : Cardinality(g) = n /\ g \subseteq SvcActive(st)
   /\ \A n \in Ns : n > MaxSize(st) => SvcCand(st, n) = {}
\* X05-e: tails are probabilities, complete at 0, decreasing in the observed count
TailsAreProbabilities == (NonEmpty /\ InRegime) => \A n \in Ns : \A g \in SvcCand(st, n) :
   LET N == SvcN(st)  a == SvcPA(st, g)  b == SvcPB(st, n)  D == SvcDen(st, n) IN
   /\ TailNum(N, a, b, 0) = D
   /\ \A w \in 0..N : /\ TailNum(N, a, b, w + 1) <= TailNum(N, a, b, w)
                      /\ 0 <= TailNum(N, a, b, w + 1) /\ TailNum(N, a, b, w) <= D
   /\ 1 <= SvcPNum(st, g) /\ SvcPNum(st, g) <= D
\* ... and increasing in the success probability (same order, same count)
TailMonotoneInK == (NonEmpty /\ InRegime) => \A n \in Ns : \A g1, g2 \in SvcCand(st, n) :
   (SvcW(st, g1) = SvcW(st, g2) /\ SvcPA(st, g1) <= SvcPA(st, g2)) => SvcPNum(st, g1) <= SvcPNum(st, g2)

---------------------------------------------------------------------------
\* X05-c/f/g: the procedure, for every significance level and every max_order
Hierarchy == (NonEmpty /\ InRegime) => \A IA \in Alphas : \A top \in Tops :
   LET tb == TLCEval(SvcTable(st, top, IA))
       T == [n \in 1..top |-> tb[n].t]
       V == [n \in 1..top |-> tb[n].v]
       Above(n) == UNION {V[j] : j \in (n + 1)..top}
   IN /\ T[top] = SvcCand(st, top)                                          \* nothing is dropped at the largest order
      /\ \A n \in 1..top :
           /\ T[n] \subseteq SvcCand(st, n)
           /\ T[n] = SvcTestedRel(st, n, Above(n))
           /\ V[n] = SvcValidatedOf(st, T[n], n, IA)
           \* tested or contained in a larger validated core, never both
           /\ \A g \in SvcCand(st, n) : (g \in T[n]) <=> ~(\E h \in Above(n) : g \subseteq h)
           \* the correction counts exactly the tests performed at this order
           /\ V[n] \subseteq T[n]
           /\ LET istar == SvcIndexOf(st, T[n], n, IA) IN istar <= Cardinality(T[n]) /\ Cardinality(V[n]) = istar
           /\ \A x \in V[n], y \in T[n] \ V[n] : SvcPNum(st, y) >= SvcPNum(st, x)     \* lower set (one denominator per order)
           /\ (T[n] = {} => V[n] = {})
      \* validated cores are never nested
      /\ \A n1, n2 \in 1..top : \A g \in V[n1], h \in V[n2] : (g \subseteq h) => g = h
      \* every hyperedge of an order examined is tested, or lies inside a validated core
      /\ \A k \in Keys(st) : KSize(k) <= top => (k.s \in T[KSize(k)] \/ \E h \in Above(KSize(k)) : k.s \subseteq h)
\* X05-h: one row per tested group of the orders min_order..top; min_order only cuts, and a max_order at or
\* above the largest hyperedge size is the same as none
RowsShape == (NonEmpty /\ InRegime) => \A IA \in Alphas : \A a \in {x \in {<<1, 0>>, <<2, 2>>} : x[2] \in MXs /\ x[1] \in Ns /\ SvcTop(st, x[2]) <= MaxO} :
   LET mn == a[1]  mx == a[2]
       top == SvcTop(st, mx)
       tb == TLCEval(SvcTable(st, top, IA))
       rows == TLCEval(SvcRows(st, mn, mx, IA))
       F(n) == Cardinality(tb[n].t)
       G(n) == Cardinality(tb[n].v)
   IN /\ Cardinality(rows) = SumSet(F, mn..top)
      /\ Cardinality({r \in rows : r.fdr}) = SumSet(G, mn..top)
      /\ {r.group : r \in rows} = UNION {tb[n].t : n \in mn..top}
      /\ \A r \in rows : r.w = SvcW(st, r.group) /\ 1 <= r.pvalue[1] /\ r.pvalue[1] <= r.pvalue[2]
      /\ \A m2 \in MXs : m2 >= MaxSize(st) => SvcTop(st, m2) = SvcTop(st, 0)
\* a smaller alpha validates fewer groups among THE SAME tests (in particular at the largest order)
AlphaShrinks == (NonEmpty /\ InRegime) => \A top \in Tops :
   LET tbs == TLCEval([IA \in Alphas |-> SvcTable(st, top, IA)]) IN
   \A IA1, IA2 \in Alphas : IA1 < IA2 =>
      /\ tbs[IA2][top].t = tbs[IA1][top].t /\ tbs[IA2][top].v \subseteq tbs[IA1][top].v
      /\ \A n \in 1..top : SvcValidatedOf(st, tbs[IA1][n].t, n, IA2) \subseteq tbs[IA1][n].v
\* NOT claimed (not a registered invariant): that the set of ALL validated groups shrinks with alpha - a core that is
\* no longer validated releases its sub-groups, which are then tested and may be validated.  No instance this small
\* shows it, larger ones do: hyperedges {1}x5 {1,2,3,5,6}x3 {1,4}x10 {2,3,5,6}x3 {3,6,7}x2 {4,6}x1 {5,6}x12 validate
\* {1,2,3,5,6} at alpha = 0.05 and {2,3,5,6} instead at alpha = 0.01.
AllValidated(IA, top) == LET tb == TLCEval(SvcTable(st, top, IA)) IN UNION {tb[n].v : n \in 1..top}
AlphaShrinksGlobally == (NonEmpty /\ InRegime) => \A IA1, IA2 \in Alphas : IA1 <= IA2 => \A top \in Tops :
   AllValidated(IA2, top) \subseteq AllValidated(IA1, top)
\* must FAIL (non-vacuity of Hierarchy): some instance validates a core, some instance drops a sub-group
NothingValidated == (NonEmpty /\ InRegime) => \A IA \in Alphas : \A top \in Tops : AllValidated(IA, top) = {}
NothingDropped == (NonEmpty /\ InRegime) => \A IA \in Alphas : \A top \in Tops :
   LET tb == TLCEval(SvcTable(st, top, IA)) IN \A n \in 1..top : tb[n].t = SvcCand(st, n)
\* must FAIL: some instance has a tested group that is not validated next to a validated one of the same order
NeverMixed == (NonEmpty /\ InRegime) => \A IA \in Alphas : \A top \in Tops :
   LET tb == TLCEval(SvcTable(st, top, IA)) IN \A n \in 1..top : tb[n].v = {} \/ tb[n].v = tb[n].t

---------------------------------------------------------------------------
\* (b) the step-up rule: levels i/M, M = 1/bonf; fewer validated at a smaller level, never more than m
StepUpInAlpha == pv # <<>> => \A M1, M2 \in Levels : M1 <= M2 =>
   /\ StepUpIndex(pv, M2) <= StepUpIndex(pv, M1)
   /\ StepUpValidated(pv, M2) \subseteq StepUpValidated(pv, M1)
   /\ StepUpIndex(pv, M1) <= Cardinality(DOMAIN pv)
   /\ Cardinality(StepUpValidated(pv, M1)) = StepUpIndex(pv, M1)
   /\ LowerSetOf(pv, StepUpValidated(pv, M1))
   \* validated = strictly below the threshold i* / M
   /\ StepUpValidated(pv, M1) = {x \in DOMAIN pv : RatLess(pv[x], <<StepUpIndex(pv, M1), M1>>)}
=============================================================================
