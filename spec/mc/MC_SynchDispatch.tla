---------------------------- MODULE MC_SynchDispatch ----------------------------
(* X10 on the design: what SynchDispatch.tla implies in every reachable state of  *)
(* the bounded container (Kind = "hg", variable st of MC_HGX): the code-shaped     *)
(* count test is the set statement, the laws of all-to-all hypergraphs, the        *)
(* dispatch is total and exclusive; two plausible statements TLC must refute.      *)
EXTENDS MC_HGX, SynchDispatch

SDHasEdges == Keys(st) # {}
SDCouplings == {<<1>>, <<1, 1>>, <<1, 2>>, <<1, 1, 1>>, <<1, 1, 2>>, <<2, 1, 1>>, <<1, 2, 1>>}

\* X10-a: one count per order decides exactly the set statement (hyperedges are distinct node sets)
SDCountIsSet == SDHasEdges => (SDAllToAllByCount(st) <=> SDAllToAll(st))

SDAllToAllLaws == (SDHasEdges /\ SDAllToAll(st)) =>
   /\ ~st.wtd
   \* no isolated node unless nothing of two nodes exists; every node has the same degree
   /\ MaxSize(st) >= 2 => \A n \in st.nodes : Cardinality({k \in Incident(st, n, NoF) : KSize(k) >= 2}) = SDFullDegree(st)
   \* every pair of nodes is a hyperedge as soon as something larger than a pair exists
   /\ MaxSize(st) >= 2 => \A a, b \in st.nodes : a # b => \E k \in Keys(st) : KN(k) = {a, b}
   \* closed downwards: every sub-hyperedge of at least two nodes is present
   /\ \A k \in Keys(st) : \A s \in SUBSET KN(k) : Cardinality(s) >= 2 => s \in SDBig(st)
   \* the number of hyperedges of at least two nodes
   /\ Cardinality(SDBig(st)) = (LET F(z) == SDBinom(SDN(st), z) IN SumSet(F, 2..MaxSize(st)))

\* singletons never matter, weights always do
SDSingletonsIgnored == SDHasEdges =>
   \A n \in st.nodes : LET k == Key({n}, {}, 0) IN
      (k \notin Keys(st) /\ ~st.wtd) =>
         LET S2 == [st EXCEPT !.E = Upd(st.E, k, [w |-> 1, md |-> NoMeta])] IN
         (MaxSize(S2) = MaxSize(st)) => (SDAllToAll(S2) <=> SDAllToAll(st))

\* X10-b / X10-c: the decision
SDDispatch == SDHasEdges => \A js \in SDCouplings : \A df \in BOOLEAN :
   LET b == SDBranch(st, js, df) IN
   /\ b \in {"single", "multi", "none"}
   /\ (b = "single") <=> (SDNatural(js) /\ df)
   /\ (b = "multi") => SDAllToAll(st)
   /\ (b = "none") => ~SDAllToAll(st)
   /\ st.wtd => b # "multi"
   /\ SDNatural(js) <=> Cardinality(Rng(js)) = 1

\* --- statements that do NOT hold (TLC must refute them) ---
\* "every pair of nodes adjacent" is weaker than all-to-all: one triangle hyperedge has no pairs
SDNotPairwiseAdjacent == (SDHasEdges /\ ~st.wtd /\ MaxSize(st) >= 2 /\ \A a, b \in st.nodes : a # b => b \in Neigh(st, a, NoF)) => SDAllToAll(st)
\* all-to-all hypergraphs need not be uniform
SDNotUniform == (SDHasEdges /\ SDAllToAll(st) /\ MaxSize(st) >= 2) => IsUniform([st EXCEPT !.E = Restrict(st.E, {k \in Keys(st) : KSize(k) >= 2})])
=============================================================================
