---------------------------- MODULE MC_Projections ----------------------------
(* C10 on the design: relations between the projections (and with the matrices  *)
(* of C09) in every reachable state of the bounded container ("hg" / "dir").    *)
EXTENDS MC_HGX, Projections, Matrices
Dists == {"intersection", "jaccard"}
Thr(dist) == IF dist = "intersection" THEN {<<1, 1>>, <<2, 1>>, <<3, 1>>}
             ELSE {<<1, 4>>, <<1, 3>>, <<1, 2>>, <<2, 3>>, <<1, 1>>}

\* the edge sets are built from a pairwise relation; the invariants are stated on the relation
Joined(dist, s, k, l) == k # l /\ QLe(s, LineSim(dist, k, l))
LineEdgesIsJoined == \A dist \in Dists : \A s \in Thr(dist) :
   LineEdges(st, dist, s) = {{p[1], p[2]} : p \in {p \in Keys(st) \X Keys(st) : Joined(dist, s, p[1], p[2])}}
LineSymmetric == \A dist \in Dists : \A k, l \in Keys(st) :
   /\ LineSim(dist, k, l) = LineSim(dist, l, k)
   /\ \A s \in Thr(dist) : Joined(dist, s, k, l) <=> Joined(dist, s, l, k)
\* joined hyperedges always share a node: enumerating pairs through the per-node incident lists is complete
LineViaSharedNode == \A dist \in Dists : \A s \in Thr(dist) : \A k, l \in Keys(st) :
   Joined(dist, s, k, l) => KN(k) \cap KN(l) # {}
LineMonotone == \A dist \in Dists : \A s, u \in Thr(dist) : \A k, l \in Keys(st) :
   (QLe(s, u) /\ Joined(dist, u, k, l)) => Joined(dist, s, k, l)
\* cross-check with C09: the 1-intersection line graph is the off-diagonal support of the dual adjacency
LineOneIsDualSupport ==
   LineEdges(st, "intersection", <<1, 1>>) = {{k, l} : <<k, l>> \in {p \in Keys(st) \X Keys(st) : p[1] # p[2] /\ Dual(p[1], p[2]) = 1}}
JaccardInUnitInterval == \A k, l \in Keys(st) :
   LET j == LineSim("jaccard", k, l) IN 0 <= j[1] /\ j[1] <= j[2] /\ j[2] > 0 /\ ((j[1] = j[2]) <=> (KN(k) = KN(l)))
\* cross-check with C09: the clique projection is the support of the adjacency matrix
CliqueIsAdjSupport ==
   CliqueEdges(st) = {{a, b} : <<a, b>> \in {p \in st.nodes \X st.nodes : p[1] # p[2] /\ Adj(st, p[1], p[2]) > 0}}
BipDegrees ==
   /\ \A n \in st.nodes : Cardinality({p \in BipEdges(st) : p[1] = n}) = Degree(st, n, NoF)
   /\ \A k \in Keys(st) : Cardinality({p \in BipEdges(st) : p[2] = k}) = KSize(k)
SimplicialDownwardClosed ==
   /\ \A f \in Faces(st) : \A g \in SUBSET f \ {{}} : g \in Faces(st)
   /\ \A k \in Keys(st) : KN(k) \in Faces(st)
   /\ \A f \in Faces(st) : \E k \in Keys(st) : f \subseteq KN(k)
SimplicialIdempotent ==
   /\ Faces(SimplicialState(st)) = Faces(st)
   /\ CliqueEdges(SimplicialState(st)) = CliqueEdges(st)

(* directed *)
Arc(dist, s, e, f) == QLe(s, DirSim(dist, e, f))
DirLineArcsIsArc == \A dist \in Dists : \A s \in Thr(dist) :
   DirLineArcs(st, dist, s) = {p \in Keys(st) \X Keys(st) : Arc(dist, s, p[1], p[2])}
DirLineNoSelfLoop == \A dist \in Dists : \A s \in Thr(dist), e \in Keys(st) : ~Arc(dist, s, e, e)
DirLineMonotone == \A dist \in Dists : \A s, u \in Thr(dist) : \A e, f \in Keys(st) :
   (QLe(s, u) /\ Arc(dist, u, e, f)) => Arc(dist, s, e, f)
\* reversing every hyperedge reverses every arc
Rev(k) == Key(k.t, k.s, k.x)
DirLineReversal == \A dist \in Dists : \A s \in Thr(dist), e, f \in Keys(st) :
   Arc(dist, s, e, f) <=> Arc(dist, s, Rev(f), Rev(e))
DirSimBounded == \A e, f \in Keys(st) :
   LET j == DirSim("jaccard", e, f)  i == DirSim("intersection", e, f)
   IN 0 <= j[1] /\ j[1] <= j[2] /\ j[2] > 0 /\ i[1] <= Cardinality(e.t) /\ i[1] <= Cardinality(f.s)
=============================================================================
