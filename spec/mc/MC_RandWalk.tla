---------------------------- MODULE MC_RandWalk ----------------------------
(* C18 on the design: every connected hypergraph over Node with hyperedge    *)
(* sizes ZMin..ZMax and at most MaxEdges hyperedges is one initial     *)
(* state; the invariants are the identities the statement claims, decided    *)
(* exactly over <<num, den>> rationals.                                      *)
EXTENDS RandWalk, Derive
CONSTANTS Node, ZMin, ZMax, MaxEdges
VARIABLE st

EdgeU == {e \in SUBSET Node : ZMin <= Cardinality(e) /\ Cardinality(e) <= ZMax}
MkHG(V, Es) == [nodes |-> V,
                E     |-> [k \in {Key(e, {}, 0) : e \in Es} |-> [w |-> 1, md |-> NoMeta]],
                nmd   |-> [n \in V |-> NoMeta], hmd |-> NoMeta, wtd |-> FALSE]
Connected(S) == Cardinality(Components(S, NoF)) = 1
\* every hyperedge set is reached by inserting hyperedges one at a time (so TLC's workers share
\* the enumeration); the invariants speak about the connected ones on the full node set
Init == st = MkHG(Node, {})
Next == /\ Cardinality(Keys(st)) < MaxEdges
        /\ \E e \in EdgeU \ HEdges(st) : st' = MkHG(Node, HEdges(st) \cup {e})
Conn == Connected(st)

ConnectedMeansDefined == Conn => RWDefined(st)
RowStochastic == Conn => LET K == RWKMat(st) IN \A i \in st.nodes :
   /\ LET F(j) == K[i, j] IN RSumSet(F, st.nodes) = ROne
   /\ \A j \in st.nodes : RLeq(RZero, K[i, j]) /\ RLeq(K[i, j], ROne)
KProportionalToWeight == Conn => LET K == RWKMat(st) IN \A i, j \in st.nodes :
   /\ RSame(K[i, j], <<RWWeight(st, i, j), RWRow(st, i)>>)
   /\ RWWeight(st, i, j) = RWWeight(st, j, i)
   /\ (K[i, j][1] > 0) <=> (i # j /\ Share(st, i, j) # {})
PiIsDistribution == Conn => LET pi == RWPiVec(st) IN
   /\ LET F(i) == pi[i] IN RSumSet(F, st.nodes) = ROne
   /\ \A i \in st.nodes : pi[i][1] > 0
PiStationary == Conn => LET pi == RWPiVec(st) IN RWPush(st, pi) = pi
DetailedBalance == Conn => LET K == RWKMat(st) pi == RWPiVec(st) IN
   \A i, j \in st.nodes : RMul(pi[i], K[i, j]) = RMul(pi[j], K[j, i])
\* mass conservation of one density step, for the point masses and the uniform density
PushKeepsMass == Conn =>
   LET n == Cardinality(st.nodes)
       ds == {[i \in st.nodes |-> IF i = a THEN ROne ELSE RZero] : a \in st.nodes} \cup {[i \in st.nodes |-> <<1, n>>]}
       K == RWKMat(st)
   IN \A d \in ds : LET d1 == RWPushK(st.nodes, K, d) IN
         RWMass(st, d1) = ROne /\ RWMass(st, RWPushK(st.nodes, K, d1)) = ROne
=============================================================================
