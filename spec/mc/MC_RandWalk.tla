---------------------------- MODULE MC_RandWalk ----------------------------
(* C18 on the design: every connected hypergraph over Node with hyperedge    *)
(* sizes ZMin..ZMax and at most MaxEdges hyperedges is one initial     *)
(* state; the invariants are the identities the statement claims, decided    *)
(* exactly over <<num, den>> rationals.                                      *)
EXTENDS RandWalk, Derive
CONSTANTS Node, ZMin, ZMax, MaxEdges
VARIABLE st

EdgeU == {e \in SUBSET Node : ZMin <= Cardinality(e) /\ Cardinality(e) <= ZMax}
MkHG(V, Es) == [nodes |-> V,
                E     |-> [k \in {Key(e, {}, 0) : e \in Es} |-> [w |-> 1, md |-> NoMeta]],
                nmd   |-> [n \in V |-> NoMeta], hmd |-> NoMeta, wtd |-> FALSE]
Connected(S) == Cardinality(Components(S, NoF)) = 1
Init == /\ st \in {MkHG(Node, Es) : Es \in {X \in SUBSET EdgeU : Cardinality(X) <= MaxEdges}}
        /\ Connected(st)
Next == UNCHANGED st

ConnectedMeansDefined == RWDefined(st)
RowStochastic == \A i \in st.nodes :
   /\ LET F(j) == RWK(st, i, j) IN RSumSet(F, st.nodes) = ROne
   /\ \A j \in st.nodes : RLeq(RZero, RWK(st, i, j)) /\ RLeq(RWK(st, i, j), ROne)
KProportionalToWeight == \A i, j \in st.nodes :
   /\ RSame(RWK(st, i, j), <<RWWeight(st, i, j), RWRow(st, i)>>)
   /\ RWWeight(st, i, j) = RWWeight(st, j, i)
   /\ (RWK(st, i, j)[1] > 0) <=> (i # j /\ Share(st, i, j) # {})
PiIsDistribution ==
   /\ LET F(i) == RWPi(st, i) IN RSumSet(F, st.nodes) = ROne
   /\ \A i \in st.nodes : RWPi(st, i)[1] > 0
PiStationary == LET pi == [i \in st.nodes |-> RWPi(st, i)] IN RWPush(st, pi) = pi
DetailedBalance == \A i, j \in st.nodes : RMul(RWPi(st, i), RWK(st, i, j)) = RMul(RWPi(st, j), RWK(st, j, i))
\* mass conservation of one density step, for the point masses and the uniform density
PushKeepsMass ==
   LET n == Cardinality(st.nodes)
       ds == {[i \in st.nodes |-> IF i = a THEN ROne ELSE RZero] : a \in st.nodes} \cup {[i \in st.nodes |-> <<1, n>>]}
   IN \A d \in ds : RWMass(st, RWPush(st, d)) = ROne /\ RWMass(st, RWPush(st, RWPush(st, d))) = ROne
=============================================================================
