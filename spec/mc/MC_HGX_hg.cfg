CONSTANTS
 Kind = "hg"
 Node = {1,2,3}
 MaxW = 2
 MKeys = {"a"}
 MVals = {"0","1"}
 XS = {0}
 Weighted = TRUE
 Batches = TRUE
 MetaOps = FALSE
INIT Init
NEXT Next
CONSTRAINT Bound
INVARIANT TypeOK
INVARIANT DegreeSum
INVARIANT IncidentExact
INVARIANT OncePerRole
INVARIANT RemovedNodeGone
INVARIANT DirectionKept
INVARIANT NeighSym
INVARIANT DistIsHistogram
CHECK_DEADLOCK FALSE
