---------------------------- MODULE MC_Generators ----------------------------
(***************************************************************************)
(* C14 on the design: small models of the samplers, every outcome of every *)
(* random draw, against the relations of Generators.tla.                   *)
(*   Model = "sampler"  random_hypergraph: per size, `count` draws of a    *)
(*                      node tuple without replacement, deduplicated       *)
(*           "shuffle"  random_shuffle: choose int(p*m) hyperedges of the  *)
(*                      size, pool = their nodes, draw one replacement per *)
(*                      chosen hyperedge from the pool, rebuild            *)
(*              Variant "readd_all" : remove ALL hyperedges of the size    *)
(*                                    and add the new list (pinned code)   *)
(*                      "selective" : remove / add only the rewired ones   *)
(*           "add"      add_random_edges: `num` distinct node sets of the  *)
(*                      size over the nodes, inserted with AddEdge         *)
(*           "hoad"     HOADmodel (Kind = "temp"): an active node draws    *)
(*                      `order` nodes from all N and is appended; the      *)
(*                      record is kept when the nodes are distinct         *)
(* One step: Init chooses the scenario, Next the outcome.                  *)
(* WeightedInputs = FALSE: argument hypergraphs are plain (weight 1, no    *)
(* metadata); TRUE: weights 1..2 and metadata.  "readd_all" satisfies the  *)
(* relation on plain inputs only: TLC must reject it on decorated ones     *)
(* (p = 0 then loses weights and metadata) - the known defect, on the      *)
(* design.                                                                 *)
(***************************************************************************)
EXTENDS Generators
CONSTANTS Node, Model, Variant, WeightedInputs, MaxEdges
VARIABLES sc, res, done
vars == <<sc, res, done>>

N == Cardinality(Node)
RECURSIVE KSubsets(_, _)
KSubsets(S, k) ==
  IF k = 0 THEN {{}} ELSE IF S = {} THEN {}
  ELSE LET x == CHOOSE y \in S : TRUE
       IN KSubsets(S \ {x}, k) \cup {A \cup {x} : A \in KSubsets(S \ {x}, k - 1)}
UpTo(S, lo, hi) == UNION {KSubsets(S, k) : k \in lo..hi}
RECURSIVE SeqOf(_)
SeqOf(S) == IF S = {} THEN <<>> ELSE LET x == CHOOSE y \in S : TRUE IN <<x>> \o SeqOf(S \ {x})
Min(a, b) == IF a < b THEN a ELSE b

Plain(nodes, Ks) ==        \* unweighted hypergraph: nodes, keys Ks
  [nodes |-> nodes, E |-> [k \in Ks |-> [w |-> 1, md |-> NoMeta]], nmd |-> [n \in nodes |-> NoMeta],
   hmd |-> NoMeta, wtd |-> FALSE]

\* argument hypergraphs: 1..MaxEdges hyperedges over Node (all nodes present), plain or decorated
Decor == IF WeightedInputs THEN {[w |-> 1, md |-> NoMeta], [w |-> 2, md |-> NoMeta], [w |-> 1, md |-> [a |-> "1"]]}
         ELSE {[w |-> 1, md |-> NoMeta]}
HgKeys == {Key(e, {}, 0) : e \in (SUBSET Node) \ {{}}}
Args == UNION {{[nodes |-> Node, E |-> f, nmd |-> [n \in Node |-> NoMeta], hmd |-> NoMeta, wtd |-> WeightedInputs]
                 : f \in [Ks -> Decor]} : Ks \in UpTo(HgKeys, 1, MaxEdges)}
Item(k) == [k |-> k, w |-> 0, hasmd |-> FALSE, md |-> NoMeta, bad |-> ""]
Insert(S, ks) == Fold(AddEdgesOne, {S}, [i \in DOMAIN ks |-> Item(ks[i])], 1)     \* add_edges(list) without weights

---------------------------------------------------------------------------
Scenarios ==
  CASE Model = "sampler" ->
         UNION {{[n |-> n, counts |-> f] : f \in UNION {[S -> 0..2] : S \in SUBSET (1..n)}} : n \in 0..N}
    [] Model = "shuffle" ->
         UNION {{[P |-> P, size |-> z, pz |-> p[1] = 0, R |-> R]
                   : R \in KSubsets(KeysOfSize(P, z), (p[1] * NumOfSize(P, z)) \div p[2])}
                : <<P, z, p>> \in Args \X (1..N) \X {<<0, 1>>, <<1, 2>>, <<1, 1>>}}
    [] Model = "add" ->
         {[P |-> P, size |-> z, num |-> m] : P \in Args, z \in 1..N, m \in 0..2}
    [] Model = "hoad" ->
         {[orders |-> O, time |-> t] : O \in (SUBSET (1..N - 1)) \ {{}}, t \in 0..2}

SamplerOutcomes(s) ==
  LET Draws(z) ==      \* the set of the `count` tuples drawn for size z
        LET c == s.counts[z]
            U == IF Variant = "with_replacement" THEN UpTo(1..s.n, 1, z) ELSE KSubsets(1..s.n, z)
        IN IF c = 0 \/ U = {} THEN {{}} ELSE UpTo(U, 1, Min(c, Cardinality(U)))
  IN {Plain(1..s.n, {Key(e, {}, 0) : e \in UNION {ch[z] : z \in DOMAIN s.counts}})
        : ch \in {g \in [DOMAIN s.counts -> UNION {Draws(z) : z \in DOMAIN s.counts}]
                      : \A z \in DOMAIN s.counts : g[z] \in Draws(z)}}

ShuffleOutcomes(s) ==
  LET old  == KeysOfSize(s.P, s.size)
      pool == NodesOf(s.R)
      cand == {Key(e, {}, 0) : e \in KSubsets(pool, s.size)}
      lst  == SeqOf(old)
      NewList(f) == [i \in DOMAIN lst |-> IF lst[i] \in s.R THEN f[lst[i]] ELSE lst[i]]
      Rebuild(f) ==
        IF Variant = "readd_all"
        THEN Insert([s.P EXCEPT !.E = Without(s.P.E, old)], NewList(f))
        ELSE Insert([s.P EXCEPT !.E = Without(s.P.E, s.R)], SeqOf({f[r] : r \in s.R}))
  IN UNION {Rebuild(f) : f \in [s.R -> cand]}

AddOutcomes(s) ==
  LET cand == {Key(e, {}, 0) : e \in KSubsets(s.P.nodes, s.size)}
  IN IF Cardinality(cand) < s.num THEN {s.P}          \* not admissible (the code would not terminate): skipped
     ELSE UNION {Insert(s.P, SeqOf(X)) : X \in KSubsets(cand, s.num)}

HoadOutcomes(s) ==
  LET times == IF Variant = "time_off_by_one" THEN 1..s.time ELSE 0..(s.time - 1)
      emit  == {Key(S \cup {i}, {}, t) : <<S, i, t>> \in
                   {q \in (UNION {KSubsets(Node, o) : o \in s.orders}) \X Node \X times : q[2] \notin q[1]}}
  IN {Plain(NodesOf(Ks), Ks) : Ks \in SUBSET emit}

Outcomes(s) == CASE Model = "sampler" -> SamplerOutcomes(s) [] Model = "shuffle" -> ShuffleOutcomes(s)
                 [] Model = "add" -> AddOutcomes(s) [] Model = "hoad" -> HoadOutcomes(s)

Init == done = FALSE /\ res = <<>> /\ sc \in Scenarios
Next == ~done /\ done' = TRUE /\ res' \in Outcomes(sc) /\ UNCHANGED sc
Spec == Init /\ [][Next]_vars

---------------------------------------------------------------------------
SamplerSatisfiesRandHG   == (done /\ Model = "sampler") => AllHold(RandHG(sc.n, sc.counts, res))
ShuffleSatisfiesRelation == (done /\ Model = "shuffle") =>
   /\ AllHold(Shuffle(sc.P, sc.size, sc.pz, TRUE, sc.R, res))
   /\ AllHold(Shuffle(sc.P, sc.size, sc.pz, FALSE, {}, res))          \* the weaker clauses follow
   /\ AllHold(ShuffleAll(sc.P, sc.pz, TRUE, (sc.size :> sc.R), res))  \* one size at a time composes
AddSatisfiesRelation     == (done /\ Model = "add") => AllHold(AddRandom(sc.P, sc.size, sc.num, res))
HoadSatisfiesRelation    == (done /\ Model = "hoad") => AllHold(HOAD(N, sc.orders, sc.time, res))
=============================================================================
