---------------------------- MODULE MC_EventDist ----------------------------
(* X09 on the design: what the definitions of EventDist.tla imply, in every    *)
(* reachable state of the bounded temporal container (Kind = "temp", variable  *)
(* st of MC_HGX, at most EDMaxKeys events).  Statement X09-g.                   *)
EXTENDS MC_HGX, EventDist
CONSTANT EDMaxKeys

EDBound == Bound /\ Cardinality(Keys(st)) <= EDMaxKeys
\* (TLC evaluates an invariant on every generated successor, also on those failing the CONSTRAINT, each time it is
\* generated: the laws are demanded of the states inside the bound only)

EDNN    == Cardinality(Node)
EDSizes == 0..(EDNN + 1)
EDDelays == {-1} \cup (0..(Cardinality(XS) + 1))

(* --- node distances ------------------------------------------------------ *)
EDNodeDistLaws == EDBound =>
  LET T == NodeDistTable(st)  V == EDEdgeNodes(st) IN
  \A a, b \in V :
     /\ TDist(T, a, b) = TDist(T, b, a)
     /\ (TDist(T, a, b) = 0) <=> (a = b)
     /\ (TDist(T, a, b) = 1) <=> (b \in EDAdj(st, a))
     /\ (TDist(T, a, b) # EDInf) <=> (b \in CompOf(st, a, NoF))
     /\ TDist(T, a, b) = NodeDist(st, a, b)
     \* agrees with the balls of Visits.tla: the least d whose ball holds b
     /\ TDist(T, a, b) # EDInf =>
           /\ b \in EDBall(st, a, TDist(T, a, b))
           /\ (TDist(T, a, b) > 0 => b \notin EDBall(st, a, TDist(T, a, b) - 1))
           /\ TDist(T, a, b) <= EDNN - 1
     /\ \A c \in V : (TDist(T, a, c) # EDInf /\ TDist(T, c, b) # EDInf) => TDist(T, a, b) <= TDist(T, a, c) + TDist(T, c, b)

(* --- distances between hyperedges ----------------------------------------- *)
EDEdgeDistLaws == EDBound =>
  LET T == NodeDistTable(st)  D == EdgeDistTable(st)  ES == EDEventSets(st) IN
  /\ DOMAIN D = ES \X ES                                   \* E^2 entries
  /\ \A e1, e2 \in ES :
       /\ D[<<e1, e2>>] = D[<<e2, e1>>]
       /\ D[<<e1, e2>>] = EdgeDist(st, e1, e2)
       /\ (D[<<e1, e2>>] = 0) <=> (e1 = e2)
       /\ (D[<<e1, e2>>] = 1) <=> (e1 # e2 /\ e1 \cap e2 # {})
       /\ (D[<<e1, e2>>] = 2) <=> (e1 \cap e2 = {} /\ \E x \in e1, y \in e2 : y \in EDAdj(st, x))
       /\ (D[<<e1, e2>>] = EDInf) <=> (\A x \in e1, y \in e2 : y \notin CompOf(st, x, NoF))
       /\ D[<<e1, e2>>] # EDInf => D[<<e1, e2>>] <= EDNN
       \* within one hop of the distance of ANY pair of their nodes
       /\ (e1 # e2 /\ D[<<e1, e2>>] # EDInf) =>
             \A x \in e1, y \in e2 : /\ D[<<e1, e2>>] <= TDist(T, x, y) + 1
                                     /\ D[<<e1, e2>>] >= TDist(T, x, y) - 1
       \* the triangle inequality
       /\ \A e3 \in ES : (D[<<e1, e3>>] # EDInf /\ D[<<e3, e2>>] # EDInf) => D[<<e1, e2>>] <= D[<<e1, e3>>] + D[<<e3, e2>>]
       \* = hop distance in the intersection graph of the hyperedges
       /\ D[<<e1, e2>>] = LineDist(st, e1, e2)
  /\ EDDefined(st) => \A p \in DOMAIN D : D[p] # EDInf
  /\ (ES # {} /\ \A p \in DOMAIN D : D[p] # EDInf) => (EDDefined(st) \/ Cardinality(ES) = 1)

(* --- pairs of events -------------------------------------------------------- *)
EDPairLaws == EDBound =>
  LET D == EdgeDistTable(st) IN
  \A z \in EDSizes :
    LET n == Cardinality(EDEv(st, z))  m == Cardinality(EDEvOther(st, z)) IN
    /\ EDTotal(st, D, z, FALSE, -1) = (n * (n - 1)) \div 2
    /\ EDTotal(st, D, z, TRUE, -1) = n * m
    /\ n + m = Cardinality(Keys(st))
    /\ \A d \in EDDists(st), cross \in BOOLEAN :
         /\ PairCount(st, D, z, cross, d) = PairCountByMult(st, D, z, cross, d)
         /\ PairCounts(st, z, cross)[d] = PairCount(st, D, z, cross, d)
         \* conditioning on the delay: nothing below delay 0, monotone, everything beyond the span of the times
         /\ CondCount(st, D, z, cross, 0, d) = 0
         /\ \A dt \in EDDelays : dt >= 0 =>
               /\ CondCount(st, D, z, cross, dt, d) <= CondCount(st, D, z, cross, dt + 1, d)
               /\ CondCount(st, D, z, cross, dt, d) <= PairCount(st, D, z, cross, d)
         /\ CondCount(st, D, z, cross, Cardinality(XS) + 1, d) = PairCount(st, D, z, cross, d)
    \* two events of one hyperedge are at distance 0; pairs of same-order events at distance 0 are exactly those
    /\ LET H(e) == (EDMult(st, e) * (EDMult(st, e) - 1)) \div 2
       IN PairCount(st, D, z, FALSE, 0) = SumSet(H, {e \in EDEventSets(st) : Cardinality(e) = z})
    /\ PairCount(st, D, z, TRUE, 0) = 0
    \* pairs of events at the same time: delay < 1
    /\ LET SameTime == {p \in EDEv(st, z) \X EDEvOther(st, z) : p[1].x = p[2].x}
       IN EDTotal(st, D, z, TRUE, 1) = Cardinality(SameTime)

\* a statement one might expect and that does NOT hold (must-fail configuration): the distance between two
\* hyperedges is the least distance of their nodes (it is one more: overlapping hyperedges are 1 apart, not 0)
EDNotNodeMin == EDBound =>
  LET T == NodeDistTable(st) IN
  \A e1, e2 \in EDEventSets(st) : e1 # e2 => EdgeDist(st, e1, e2) = EDMin({TDist(T, x, y) : x \in e1, y \in e2})
=============================================================================
